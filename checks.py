"""Loads every /verif/checks/<ID>.py (each defines CHECK) into CHECKS."""
import glob
import importlib.util
import os

CHECKS = {}
_here = os.path.dirname(os.path.abspath(__file__))
for _p in sorted(glob.glob(os.path.join(_here, "checks", "C*.py"))):
    _id = os.path.splitext(os.path.basename(_p))[0]
    _spec = importlib.util.spec_from_file_location("vf_check_" + _id, _p)
    _m = importlib.util.module_from_spec(_spec)
    try:
        _spec.loader.exec_module(_m)
        CHECKS[_id] = _m.CHECK
    except Exception as _e:  # a broken run plan must not take the other checks down
        import sys
        print("[vf] cannot load %s: %r" % (_p, _e), file=sys.stderr)
