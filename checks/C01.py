"""Run plan of one property for vf.py (which harness, which sanitizer variants, budgets)."""
from checks_common import three

CHECK = {
    "runs": [dict(r, scale_thorough=st) for r, st in zip(three("c01_queue", ["--as", "C01"], scales=(1.0, 1.0, 2.0)),
                                                      # thorough budgets are ~45x the quick ones: full scale under TSan needs
                                                      # ~2 h and ran into the harness' own 3000 s cap (inconclusive)
                                                      (0.1, 0.1, 0.4))],
    "design_ref": "DESIGN.md §5 C01",
    "technique": "stress + schedule perturbation; offline history checker (exactly-once, real-time FIFO, try_ "
                 "legitimacy) + sequential deque model + per-slot exclusivity flags; TSan/ASan/UBSan",
    "level_text": ("Runtime monitoring of the real queue: every push/pop variant and every legal flag combination is "
                   "driven by seeded balanced, compensating and sequential programs under a perturbation policy "
                   "(yields, sleeps, PCT-style stalls at hook points); an offline oracle over stamped call/return "
                   "histories with unique ids decides conservation, real-time FIFO and try_ legitimacy, per-slot flags "
                   "decide exclusivity, ThreadSanitizer decides publication of plain payload writes. Held on the "
                   "executions observed, not a proof."),
    "level_note": ("Trusted: gcc sanitizer runtimes, TSC causal consistency, the harness. Fence strength on the "
                   "TSan-annotated batch paths is not decidable on x86 (DESIGN §1)."),
    "rule": ("one evaluation = one seeded episode (construct queue, run a balanced / compensating / sequential "
             "program of push*/pop* operations with a drawn perturbation policy, join, offline oracle). "
             "distinct = distinct fingerprints (configuration + (pusher,popper) sequence of the first 256 "
             "deliveries in pop order); non-trivial = the episode exercised at least one rare branch "
             "(registered futex waiter, lost try CAS, compensation, round-boundary split, waker found waiters) "
             "or, for sequential episodes, at least one short try_ operation. Summed over sanitizer variants."),
    "expect_counters": ["point:bq:wait_registered", "point:bq:try_cas_lost", "point:bq:try_n_cas_lost",
                        "point:bq:compensate", "rare:round_split", "rare:comp_reverse_push",
                        "rare:comp_reverse_pop", "point:bq:single_before_wake", "point:bq:batch_before_wake"],
    "not_decidable": ["strength of the acquire/release fences of the batch paths (TSan-annotated; x86 TSO)"],
    "assumptions": ["TSC is causally consistent across cores (DESIGN §2.2)",
                    "batch sizes <= capacity; documented CONCURRENT / FUTEX_WAIT / FUTEX_WAKE pairing respected"],
}
