"""Run plan of one property for vf.py (which harness, which sanitizer variants, budgets)."""
from checks_common import three

CHECK = {
    # TSan build with reports off: C02 decides progress only (payload races are C01's business);
    # the instrumented build is kept for its very different timing.
    "runs": [dict(r, scale_thorough=st) for r, st in zip(
        three("c01_queue", ["--as", "C02"], scales=(1.0, 1.0, 2.0), tsan_options="report_bugs=0"),
        # thorough budgets are ~45x the quick ones: full scale under TSan ran into the harness' own 3000 s cap
        (0.1, 0.1, 0.4))],
    "design_ref": "DESIGN.md §5 C02",
    "technique": "balanced blocking workloads + delays in the waiter/waker windows (futex interposition, hook "
                 "points); progress monitor (stuck rule) with futex-word inspection; timed-pop bounds",
    "level_text": ("Runtime monitoring: balanced producer/consumer programs (per-thread quotas, so every blocked "
                   "operation has a counterpart) under every legal waiter/waker pairing, with delays injected between "
                   "waiter registration and the kernel wait and between the waker's version store and its wake. A "
                   "hang (no progress for the grace period) is a violation; a sleeper whose futex word changed is "
                   "reported as a lost wake-up with the thread dump as witness. Liveness is restated as bounded progress."),
    "level_note": ("Trusted: the interposed syscall() wrapper and /proc thread state. Store-buffer-delayed visibility "
                   "of the batch waker is not reachable on x86 (DESIGN §1)."),
    "rule": ("one evaluation = one balanced episode (total pushes == total pops by per-thread quotas) of blocking "
             "and timed operations; verdict by the stuck rule (no progress for the grace period while the workload "
             "is balanced; a sleeper whose futex word changed is a lost wake-up). distinct = configuration + "
             "(pusher,popper) sequence of the first 256 deliveries; non-trivial = a waiter registered / waker found "
             "waiters / timed pop came up short in that episode."),
    "expect_counters": ["point:bq:wait_registered", "point:bq:single_before_wake", "point:bq:batch_before_wake",
                        "rare:timed_pop_short", "point:futex:before_wait"],
    "not_decidable": ["store-buffer delayed visibility of the batch waker (same-word store/load; x86 TSO never reorders it)"],
    "assumptions": ["liveness restated as bounded progress: grace period 12 s (quick) / 30 s (thorough) without any progress"],
}
