"""Run plan of one property for vf.py (which harness, which sanitizer variants, budgets)."""
from checks_common import three

CHECK = {
    "runs": three("c03_hashtable", [], scales=(0.5, 1.0, 2.0), timeout_quick=2400,
                  # no stack address is ever published by these containers; the per-thread fake stacks cost 3x wall
                  # time with one thread set per episode
                  asan_options="detect_stack_use_after_return=0"),
    "design_ref": "DESIGN.md §5 C03",
    "technique": "stress + schedule perturbation (element constructor / hasher / operator== callbacks inside the "
                 "BUSY window and between group load and key compare, PCT-style stalls at the ht:* hook points); "
                 "offline per-key linearizability oracle over stamped call/return histories; quiescent membership "
                 "through find(); constructor/destructor and operator new/delete balance; TSan/ASan/UBSan",
    "level_text": ("Runtime monitoring of the real ConcurrentFixedSwissTable / ConcurrentTransientHashSet / "
                   "ConcurrentTransientHashMap: many short seeded episodes (2-16 threads, small key universes, "
                   "adversarial hashers: identity, constant 7-bit tag, constant group, full collision; fixed tables "
                   "filled to exactly full; growing containers from the default-constructed placeholder, 16, 32 and "
                   "1024 buckets through up to 6 chained growth steps) under a perturbation policy. Every "
                   "emplace/insert/try_emplace/operator[]/find/contains/count is recorded with fenced TSC stamps; "
                   "a per-key oracle decides one-winner, same-address, fully-constructed element, no miss after an "
                   "insertion (or an earlier hit) returned, nothing found before its insertion was called, "
                   "table-full legitimacy with unconsumed arguments, and no key dropped or duplicated by growth. "
                   "ThreadSanitizer decides publication of the plain element fields written inside the BUSY "
                   "window. Held on the executions observed, not a proof."),
    "level_note": ("Trusted: gcc sanitizer runtimes, TSC causal consistency (re-calibrated at start-up), the harness. "
                   "The acquire fence of find/do_emplace is TSan-annotated in the library: its strength is not "
                   "decidable on x86 (DESIGN §1); the publishing tag stores are real release stores and are decided "
                   "by TSan."),
    "rule": ("one evaluation = one seeded episode (construct container, run 2-16 threads of stamped "
             "insert-if-absent and lookup operations over one key universe with a drawn hasher and perturbation "
             "policy, join, per-key oracle, quiescent find of every key, destroy, balances). distinct = distinct "
             "fingerprints (configuration + which thread won each key); non-trivial = the episode exercised at "
             "least one rare branch: a same-key insertion or a lookup overlapping the winning insertion, BUSY "
             "observed, CAS lost to a published slot, table-full returned, or a growth CAS lost. Summed over "
             "sanitizer variants."),
    "expect_counters": ["point:ht:busy_observed", "point:ht:cas_lost_to_published", "point:ht:between_control_stores",
                        "point:ht:grow_cas_lost", "rare:table_full_returned", "rare:table_exactly_full",
                        "rare:same_key_insert_overlaps_winner", "rare:find_overlaps_winning_insert",
                        "rare:growth_cas_lost_node_deleted", "rare:chained_tables_ge3", "rare:chained_tables_ge6",
                        "obs:episodes_default_constructed", "obs:full_table_sequential_probe"],
    "not_decidable": ["strength of the acquire fence between the SIMD group load and the key comparison "
                      "(TSan-annotated; x86 TSO)"],
    "assumptions": ["TSC is causally consistent across cores (DESIGN §2.2)",
                    "no clear/swap/rehash/reserve concurrent with insert/find (documented as not concurrency-safe)",
                    "size()/empty()/iteration/copy/clear are C18's business and are not used as oracles here"],
}
