"""Run plan of one property for vf.py (which harness, which sanitizer variants, budgets)."""
from checks_common import three

CHECK = {
    # per-episode cost (idle machine, approx.): plain 0.08 s, tsan 0.5 s, asan 0.9 s; base budget 70+50 quick,
    # 2500+1800 thorough episodes (grow + cooling)
    "runs": [dict(r, scale_quick=round(r["scale"] * 3, 3)) for r in three("c04_vector", [], scales=(0.4, 0.3, 1.5))],
    "design_ref": "DESIGN.md §5 C04",
    "technique": "stress + schedule perturbation (element constructor window, vec:* hook points); shadow maps "
                 "index->address / address->element state; operator new/delete accounting; virtual "
                 "CLOCK_MONOTONIC_RAW (link-time clock_gettime) for the 64 s cooling period; TSan/ASan/UBSan; virtual clock with exclusive jumps plus bounded in-flight drift across 64 s unit boundaries",
    "level_text": ("Runtime monitoring of the real ConcurrentVector: 2-16 threads race ensure/reserve/operator[]/"
                   "snapshot/reserved_snapshot/fill_n/copy_n/for_each/gc/size over static block sizes {1,2,128} and "
                   "dynamic {1,3->4,1024} with an element type whose constructor/destructor register themselves "
                   "(and a trivial type for the memset path). Monitors: every observation of an index from every "
                   "thread yields the first address seen, no address serves two indices, every handed-out address "
                   "was constructed exactly once before it became visible (plain magic field => TSan decides "
                   "publication), is never destroyed while the vector lives and exactly once when it dies; "
                   "allocations made inside the library balance after destruction. Cooling period: the harness "
                   "serves clock_gettime(CLOCK_MONOTONIC_RAW) from a virtual clock that jumps (seconds..days, "
                   "across the 16-bit timestamp wrap) only while no vector operation is in flight; snapshots are "
                   "used for 64 virtual seconds after they were taken while tables are retired and gc() is called; "
                   "every free of a table that was once current is compared with the virtual time it was last "
                   "seen current. Held on the executions observed, not a proof."),
    "level_note": ("Trusted: gcc sanitizer runtimes, the harness (operator new/delete replacement, clock_gettime "
                   "interposition). The premise of time-based retirement - no single operation is stalled longer "
                   "than the cooling period - is imposed by construction (clock jumps exclude in-flight operations)."),
    "rule": ("one evaluation = one seeded episode (construct a vector of a drawn element type / block size, run "
             "2-16 threads for a bounded number of mixed operations under a drawn perturbation policy, optionally "
             "move it at a quiescent point, final sweep, destroy, balance oracle). distinct = configuration + "
             "(index, first observing thread) of the first 256 observed indices; non-trivial = at least one "
             "CAS loser destroyed speculative blocks, or a retired table was freed while the vector lived, or a "
             "held snapshot was used after it had been superseded. Summed over sanitizer variants."),
    "expect_counters": ["point:vec:cas_lost", "rare:cas_lost_speculative_blocks_destroyed",
                        "rare:cas_lost_retry_with_larger_table", "point:vec:retire_expired",
                        "point:vec:gc_expired", "rare:table_expired_on_retire", "rare:table_expired_on_gc",
                        "rare:timestamp_16bit_wrap_crossed", "obs:held_snapshot_uses_after_superseded_older_32s"],
    "not_decidable": ["operations stalled longer than one cooling period (excluded by the documented premise of "
                      "time-based retirement; the virtual clock never jumps inside an operation)"],
    "assumptions": ["no single vector operation lasts longer than the 64 s cooling period",
                    "set_constructor/swap/move/unsafe_gc are not thread-safe by contract and only used at quiescent points"],
}
