"""Run plan of one property for vf.py (which harness, which sanitizer variants, budgets)."""
from checks_common import three

CHECK = {
    "runs": [dict(r, scale_quick=round(r["scale"] * 3, 3)) for r in three("c05_anyflow", [], scales=(0.6, 0.4, 1.6))],
    "design_ref": "DESIGN.md §5 C05",
    "technique": "random DAG generator + sequential demand-driven reference interpreter; per-vertex run counters, "
                 "in-process dependency assertions, committer counters, wait() in-flight counter; hostile executors "
                 "(inplace, babylon pool 1-8 workers, shuffling harness executor), asynchronous processors, "
                 "perturbation at af:* hook points; TSan/ASan/UBSan; producer/injector emit() rendezvous",
    "level_text": ("Runtime monitoring of the real anyflow engine: seeded random acyclic graphs (plain / on / unless / "
                   "essential dependencies, multi-emit vertices, trivial vertices, macro and vertex-API processors, "
                   "synchronous and asynchronous processors, planned failures, data injected before and during the "
                   "run) are built with GraphBuilder and run for 3-10 run/get/wait/reset cycles on the inplace "
                   "executor, the thread-pool executor (1-8 workers) and a harness executor that shuffles and delays "
                   "vertex closures, under a perturbation policy with stalls at the dependency/vertex/data/closure "
                   "counter points. Every run is compared with a sequential demand-driven interpreter of the same "
                   "spec (needed set, value/emptiness of every evaluated data, error/no error, exact set of "
                   "processors that run); processors assert at-most-once, ready-or-not-established dependencies and "
                   "reference inputs; plain payloads next to every published value let ThreadSanitizer decide the "
                   "happens-before edges of the readiness protocol. Held on the executions observed, not a proof."),
    "level_note": ("Trusted: gcc sanitizer runtimes, the reference interpreter (cross-checked against the inplace "
                   "executor), the harness executor. For failing runs only termination, non-zero error code, "
                   "at-most-once and wait() semantics are decided (the engine short-circuits the rest in a "
                   "timing-dependent way)."),
    "rule": ("one evaluation = one graph run (inject inputs, Graph::run for 1-4 targets, get / on_finish, wait, oracle "
             "against the reference, reset) of a seeded random graph instance on a drawn executor and perturbation "
             "policy. distinct = hash of graph structure + plan (targets, inputs, salt) + executor configuration; "
             "non-trivial = the run contains at least one conditional dependency whose condition is false, an "
             "essential skip, an asynchronous processor, a dependency already ready at activation, an external "
             "concurrent injection, or a planned failure. Summed over sanitizer variants."),
    "expect_counters": ["point:af:dep_act_term_m1", "point:af:dep_act_term_0", "point:af:dep_act_1", "point:af:dep_act_2",
                        "point:af:dep_act_1_cond_unready", "point:af:dep_act_1_cond_ready_est",
                        "point:af:dep_ready_cond_est_activates_target", "point:af:dep_ready_cond_false_sub2",
                        "point:af:dep_ready_term_0", "point:af:vertex_activate_lost", "point:af:vertex_essential_failed",
                        "point:af:data_acquire_lost", "point:af:data_bind_lost",
                        "point:af:closure_mark_finished_lost", "rare:external_injection_won",
                        "rare:producer_lost_emit_to_injection", "obs:async_completions", "obs:failing_runs",
                        "obs:on_finish_runs"],
    "not_decidable": [],
    "assumptions": ["a dependency's condition differs from its target (dep(D on D) is outside documented use and wedges "
                    "the counter protocol)",
                    "one producer per data; mutable dependencies and channels are not exercised",
                    "external emit concurrent with a run only in graphs without trivial vertices and only on data whose "
                    "producer has no essential dependency (the code's own TODO: trivial vertices do not support it)",
                    "on_finish callbacks do not block on wait() inside the executor thread (with an inplace or "
                    "single-worker executor that would wait for the caller's own vertex closure)",
                    "liveness restated as bounded progress: 12 s (quick) / 30 s (thorough) without any progress while no "
                    "harness job is outstanding"],
}
