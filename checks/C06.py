"""Run plan of one property for vf.py (which harness, which sanitizer variants, budgets)."""
from checks_common import three

# TSan is only interesting for the concurrent histories (per-thread resource hand-off).
_main = (three("c06_memres", [], scales=(1.0, 0, 0), mode="shared") +
         three("c06_memres", [], scales=(0, 1.0, 2.0), mode="all"))
# The probes run in their own processes: what they find on the unchanged tree (known
# findings C06-*) must not mask the histories of the main runs.
_probes = [{"harness": "c06_memres", "variant": v, "scale": 1.0, "args": [], "mode": "probes"} for v in ("asan", "plain")]

CHECK = {
    "runs": _main + _probes,
    "parallel": 3,
    "design_ref": "DESIGN.md §5 C06",
    "technique": "seeded request histories on the real resources over a recording PageAllocator and a recording "
                 "std::pmr upstream; block patterns + sort-based disjointness / containment oracle at every quiescent "
                 "point; ASan with babylon's own arena poisoning, UBSan, TSan for the per-thread hand-off; destructors-before-memory-return ordering oracle inside one release window",
    "level_text": ("Runtime monitoring: random histories of allocate(bytes, align) (zero, 1..64, page-k, page, page+k, "
                   "2-3 pages; alignment 1 .. 4 x page) through every entry point (direct, virtual, std::pmr, templated "
                   "alignment), register_destructor / get_destroy_task, contains, release, destruction, move-assignment and "
                   "move-construction on ExclusiveMonotonicBufferResource (page sizes 128/256/512/4096, two resources per "
                   "history) and on SharedMonotonicBufferResource / SwissMemoryResource with 2-8 chains of threads that "
                   "spawn their successor and die (thread-id and per-thread-resource re-use). A recording page allocator "
                   "and a recording upstream hand out real memory and reject double / foreign frees and wrong (bytes, "
                   "alignment). At every quiescent point: alignment, containment in a live page or live oversize block, "
                   "pairwise disjointness, block-specific byte patterns (an overlap with in-page bookkeeping corrupts one "
                   "side; under ASan babylon's SanitizerHelper poisoning makes it a use-after-poison), contains(), "
                   "destructor run counts, space_used/space_allocated against the recorders; after release(): every "
                   "destructor exactly once, recorders empty, accounting zero, next history on the same object. Held on the "
                   "histories observed, not a proof."),
    "level_note": ("Trusted: gcc sanitizer runtimes, glibc malloc as the source of pages, the harness. Rare branches are "
                   "classified from private pointers (addresses only, -fno-access-control). gcc UBSan `null` is off "
                   "(DESIGN §4)."),
    "rule": ("one evaluation = one seeded history: excl = 60-700 operations on two exclusive resources; shared = 1-4 "
             "phases of 2-10 thread chains x 1-4 generations x 5-120 operations on one shared/swiss resource with the full "
             "oracle at each quiescent point; probes = one deterministic probe (move operations, contains after an alignment overshoot). distinct = hash of configuration and "
             "request sequence; non-trivial = the history took at least one rare branch (new page array in any of its "
             "three placements, first/grown oversize array, first/grown destroy-task array). Summed over variants."),
    "expect_counters": ["rare:page_array_in_old_page_tail", "rare:page_array_in_new_page_tail",
                        "rare:page_array_in_extra_page", "rare:oversize_first_array", "rare:oversize_array_growth",
                        "rare:destroy_task_array_growth", "rare:zero_byte_request", "rare:alignment_above_page",
                        "rare:move_assign_with_live_blocks", "rare:move_construct_with_live_blocks",
                        "rare:thread_id_reused_within_episode", "obs:releases_checked", "obs:blocks_verified"],
    "not_decidable": [],
    "assumptions": ["requests use power-of-two alignments >= 1; release()/contains()/space_*() of a shared resource are "
                    "called only while no thread allocates (documented: not thread-safe against allocation)",
                    "page allocators hand out page-size aligned pages (as NewDeletePageAllocator does)"],
}
