"""Run plan of one property for vf.py (which harness, which sanitizer variants, budgets)."""
from checks_common import three

CHECK = {
    # thorough scales: at the quick scales the TSan general run needed > 110 min on the loaded development machine
    "runs": [dict(r, scale_thorough=st) for r, st in zip(
        three("c07_executor", [], scales=(0.5, 0.5, 1.0), args_thorough=["--grace", "90"]), (0.15, 0.25, 0.6))] +
            # sustained local spawning against a continuously sweeping balance thread (own processes); added after
            # the seeded change C07-a2 escaped the general episodes
            [dict(r, scale_thorough=st) for r, st in zip(
                three("c07_executor", [], scales=(0.25, 0.25, 1.0), mode="storm"), (0.1, 0.15, 0.5))],
    "parallel": 6,
    "design_ref": "DESIGN.md §5 C07",
    "technique": "seeded episodes over ThreadPoolExecutor configurations (workers, global/local capacity, stealing, "
                 "balance thread) with external submitter threads and tasks spawning children from inside workers, "
                 "stop() while tasks run and spawn, restart; Inplace / AlwaysUseNewThread / refusing executors; per-task "
                 "run counters, is_running_in(), futures, stamped submissions against the stop() call, stuck rule; "
                 "TSan/ASan/UBSan on plain payloads crossing the global and local queues; storm mode (sustained local spawning against the sweeping balance thread, per-task exactly-once counters)",
    "level_text": ("Runtime monitoring: every task has a record with a run counter, a plain input written before its "
                   "submission and a plain output written by the task. 1-6 external threads submit through "
                   "execute()/submit() with functions, member functions, functors, coroutine functions and coroutine "
                   "functors; tasks spawn children (depth <= 4) from inside the workers; stop() is called after the "
                   "external submitters were joined while tasks are still queued, running and spawning; 1/3 of the pool "
                   "episodes restart the executor and repeat. At the return of stop(): every external task and every "
                   "child whose submission returned before stop() was called (stamps) or that went into a local queue "
                   "(observed at the owner's push index) ran exactly once with is_running_in()==true, outputs are "
                   "visible, futures are valid, ready and carry the value; no task ever runs twice or after stop() "
                   "returned. Refusing executors: rc != 0 / invalid future and the task never runs. PCT-style stalls at "
                   "the exec:* hook points (stop flag / stop markers / local push / steal / balance). Held on the "
                   "executions observed, not a proof."),
    "level_note": ("Trusted: gcc sanitizer runtimes, TSC causal consistency, the harness. Worker-side submission into a "
                   "bounded global queue that can fill up is excluded by construction (documented self-deadlock). "
                   "Liveness of stop()/join()/blocked submitters restated as bounded progress."),
    "rule": ("one evaluation = one seeded episode (construct executor, run submitter threads, stop()/join(), oracle, "
             "destroy). distinct = executor configuration + task count + the first 32 tasks in execution order; "
             "non-trivial = a child went to a local queue, a local task ran on another worker (steal/balance), a local "
             "queue was full, a submitter found the global queue full, a child submitted after stop() began was dropped, "
             "a submission was refused, or the episode used one thread per task. Summed over sanitizer variants."),
    "expect_counters": ["point:exec:stop_before_markers", "point:exec:stop_consumed", "point:exec:local_before_push",
                        "point:exec:steal_tried", "point:exec:balance_moved", "point:exec:global_before_push",
                        "rare:local_task_ran_on_other_worker", "rare:local_queue_full_to_global",
                        "rare:submitter_found_global_queue_full", "rare:submission_refused",
                        "obs:child_went_to_local_queue", "obs:child_submitted_after_stop_began_not_run",
                        "obs:futures_checked", "obs:restarts", "policy:stall_fired"],
    "not_decidable": ["worker-side submission into a full bounded global queue (self-deadlock by design, excluded)",
                      "fence/order strength inside the bounded queue (C01/C02)"],
    "assumptions": ["TSC is causally consistent across cores (DESIGN §2.2)",
                    "liveness restated as bounded progress: grace period 12 s (quick) / 30 s (thorough) without any progress",
                    "tasks never wait for other tasks (no dependency deadlocks introduced by the harness)"],
}
