"""Run plan of one property for vf.py (which harness, which sanitizer variants, budgets)."""
from checks_common import three

CHECK = {
    "runs": three("c08_future", scales=(2.5, 1.0, 4.0)),
    "design_ref": "DESIGN.md §5 C08",
    "technique": "seeded episodes racing get/wait_for/on_finish/then/ready against one set_value (or the last "
                 "count_down) under schedule perturbation at the seal/READY/CAS hook points; stamped call/return "
                 "histories + per-callback run counters decide exactly-once / not-before-set / value / wait_for "
                 "bounds; stuck rule for blocked waiters; TSan on plain payloads; UBSan on the timeout arithmetic",
    "level_text": ("Runtime monitoring of the real Future/Promise/CountDownLatch: per episode one promise (value "
                   "types int, string, move-only, reference, void; scheduling interface SchedInterface, a delaying "
                   "harness S, and a futex_need_create()==true interface backed by mutex+condvar) or one latch "
                   "(count 0..64); 1-12 client threads on copies of the future issue random get / wait_for(t) / "
                   "on_finish / then / ready before, around and after the single set_value, with t drawn from "
                   "negative, 0, 1ns..20ms, hours(10^6), nanoseconds::max(); PCT-style stalls at the hook points "
                   "between value construction, seal, READY exchange, registration CAS and waiter registration. "
                   "An offline oracle over TSC-stamped histories decides: every callback exactly once, never "
                   "started before set_value was called, finished before both set_value and its registration "
                   "returned, saw the value; get returns the value; wait_for/ready true only after set_value was "
                   "called, never false when called after set_value returned; wait_for false only after the "
                   "requested time (CLOCK_MONOTONIC lower bound); then-futures carry f(value); latch ready exactly "
                   "when the started count_downs reach the count. Payloads are plain memory (TSan decides "
                   "publication). Held on the executions observed, not a proof."),
    "level_note": ("Trusted: gcc sanitizer runtimes, TSC causal consistency, CLOCK_MONOTONIC, the harness. "
                   "Liveness of get() restated as bounded progress (stuck rule, grace 12 s / 30 s)."),
    "rule": ("one evaluation = one seeded episode (construct promise or latch, run 1-12 client threads + one setter / "
             "1-6 counting threads under a drawn perturbation policy, join, offline oracle, destroy). distinct = "
             "fingerprint of (value type, scheduling interface, mode, thread count, per-callback class "
             "[ran inline after set / inline while set_value in flight / queued while in flight / queued before], "
             "per-thread wait_for and ready results); non-trivial = the episode had a registration or waiter racing "
             "set_value (callback queued or run inline while set_value was in flight, registration CAS lost to the "
             "seal, a waiter that really slept, or a positive timeout that expired). Summed over sanitizer variants."),
    "expect_counters": ["point:fut:on_finish_lost_to_sealed", "point:fut:waiter_registered", "point:fut:sealed",
                        "rare:cb_inline_while_set_value_in_flight", "rare:cb_queued_while_set_value_in_flight",
                        "rare:waiter_incremented_after_ready", "rare:timeout_expired",
                        "obs:episodes_with_sleeping_waiter", "obs:cv_slept", "obs:wait_for_deadline_not_representable",
                        "obs:latch_count_zero", "obs:then_future_checked"],
    "not_decidable": ["unbounded liveness of get(): restated as bounded progress (stuck rule)",
                      "upper bounds on wait_for's return time (only the lower bound 'false => requested time elapsed' "
                      "and the stuck rule are decided)"],
    "assumptions": ["TSC is causally consistent across cores (DESIGN §2.2)",
                    "exactly one set_value per promise; callbacks do not move the shared value out (documented sharing rule)"],
}
