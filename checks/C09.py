"""Run plan of one property for vf.py (which harness, which sanitizer variants, budgets)."""
from checks_common import three

CHECK = {
    "runs": [dict(r, scale_quick=round(r["scale"] * 2, 3)) for r in three("c09_epoch", [], scales=(0.2, 0.15, 1.0))] + [
        # store-buffering litmus of the entry fence (real hardware timing: -O2 build only); added after the
        # independently seeded change C09-a1 (seq_cst -> acq_rel fence) escaped the EBR episodes
        {"harness": "c09_litmus", "variant": "plain", "scale": 1.0, "args": []},
    ],
    "design_ref": "DESIGN.md §5 C09",
    "technique": "epoch-based-reclamation client on the real Epoch under schedule perturbation (hook points in "
                 "Epoch::lock and the low_water_mark scan); use-after-reclaim detector (ASan real delete / poison + "
                 "state word), offline oracle over stamped tick / low_water_mark / region histories, exact sequential "
                 "model; TSan/ASan/UBSan; store-buffering litmus of the Epoch::lock entry fence on real hardware (no hooks)",
    "level_text": ("Runtime monitoring of the real Epoch: writers unlink a shared cell, tick(), poll low_water_mark() and "
                   "reclaim when the mark reaches their tick; readers open thread-local or Accessor regions (nested 1-4, "
                   "short and long, accessors created / released / reused / kept idle / handed to other threads while "
                   "locked, reader threads dying and being reborn) and dereference what they loaded until they leave. "
                   "A reader that sees a reclaimed object is a violation (ASan use-after-free, state word, TSan race "
                   "against the poison write). An offline oracle over the stamped history decides: mark reached tick t "
                   "while a region that entered before tick(t) was called was still open; a scan that no region "
                   "overlapped returned a finite mark; a mark below what every overlapping region can have observed; "
                   "tick values unique / dense / real-time ordered. The slot word is read by its owner after every "
                   "nested lock/unlock. Sequential scripts are compared with an exact model. Held on the executions "
                   "observed, not a proof."),
    "level_note": ("Trusted: gcc sanitizer runtimes, TSC causal consistency (2000-cycle margin on every cross-thread "
                   "ordering claim), the harness. The store->fence->load entry pattern of Epoch::lock is probed by a "
                   "store-buffering litmus on real hardware (c09_litmus): a too-weak fence shows as a rate of violating "
                   "rounds, its absence in N judged rounds is evidence, not proof."),
    "rule": ("one evaluation = one seeded episode: either an EBR episode (fresh Epoch, 1-3 writers x 30-600 unlinks, "
             "1-8 reader roles, one style per Epoch, drawn perturbation policy, join, quiescent-mark check, offline "
             "oracle) or a sequential script of 40-400 operations checked against the model after every step. "
             "distinct = configuration + order in which writers obtained the first 128 epochs (EBR) / script hash "
             "(solo); non-trivial = at least one low_water_mark poll was held back by an open region or a locked "
             "accessor changed threads (EBR) / the model mark was finite at least once (solo). Summed over variants."),
    "expect_counters": ["rare:reclaim_held_back_by_region", "rare:enter_between_tick_and_scan",
                        "rare:accessor_created_during_scan", "rare:accessor_slot_reused", "rare:region_handed_off",
                        "rare:region_adopted", "obs:inner_unlock", "obs:reader_thread_generations",
                        "obs:oracle2_lwm_with_older_region", "obs:oracle3_lwm_no_overlap",
                        "point:epoch:lock_loaded_version", "point:epoch:scan_slot"],
    "not_decidable": ["strength of the entry fence of Epoch::lock (relaxed slot store; seq_cst fence; later loads): "
                      "x86 TSO never delays the store past the fence and TSan does not model fences; weakening it "
                      "leaves no observable trace for this technique on this machine"],
    "assumptions": ["TSC is causally consistent across cores (DESIGN §2.2); cross-thread order is only claimed with a 2000-cycle margin",
                    "documented rule respected: thread-local style and Accessor style are never mixed on one Epoch; "
                    "an Accessor is never released while locked"],
}
