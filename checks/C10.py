"""Run plan of one property for vf.py (which harness, which sanitizer variants, budgets)."""
from checks_common import three

CHECK = {
    "runs": three("c10_gc", [], scales=(0.25, 0.3, 1.0)) +
            # > 32768 x capacity retirements through a tiny queue (16-bit slot-version wrap under a full queue);
            # added after the seeded change C10-a2 escaped
            three("c10_gc", [], scales=(0.25, 0.5, 1.0), mode="wrap"),
    "parallel": 6,
    "design_ref": "DESIGN.md §5 C10",
    "technique": "seeded retire / region / stop episodes on the real GarbageCollector under schedule perturbation (hook "
                 "points gc:consumed, gc:backoff, epoch:*, bq:*; interposed usleep back-off); per-reclaimer invocation "
                 "counters, region-open snapshot at retire, offline oracle over stamped retire / region / invoke / stop "
                 "histories, stuck rule; TSan/ASan/UBSan; wrap mode (> 32768 x capacity retirements through a tiny queue under a full queue)",
    "level_text": ("Runtime monitoring of the real GarbageCollector<R>: 1-6 retiring threads (retire(R) and batch "
                   "retire(R, epoch), own short regions) and 0-3 region holders (thread-local style or Accessors, regions "
                   "handed to other threads to be closed) drive a collector with queue capacity default/1/2/8/1024; stop() or "
                   "the destructor is issued at drawn moments, in 2 of 5 episodes while regions opened before the last "
                   "retirements are still open (closed by other threads a drawn delay later). Every reclaimer carries an id "
                   "and bumps a counter: more than one invocation, an invocation while a region that was open at its "
                   "retire call has not begun to close (snapshot + stamped history), a missing invocation when "
                   "stop()/destructor returned, an unpublished payload (TSan), or a retire()/stop() that never returns "
                   "with nothing able to block it, is a violation. Held on the executions observed, not a proof."),
    "level_note": ("Trusted: gcc sanitizer runtimes, TSC causal consistency (2000-cycle margin), the harness. The collector's "
                   "usleep back-off is interposed (state + optional shortening)."),
    "rule": ("one evaluation = one seeded episode (fresh collector, drawn capacity / threads / quotas / stop mode / "
             "perturbation policy, all retire() calls return, stop()/destructor, regions closed, oracles, destroy). "
             "distinct = configuration + retirer order of the first 128 invocations + number of missing invocations; "
             "non-trivial = a retire() call met a full queue, or a reclaimer had an open region in its retire-time "
             "snapshot, or stop() was called while a blocking region was open. Summed over sanitizer variants."),
    "expect_counters": ["rare:retire_against_full_queue", "rare:reclaim_held_back_by_region",
                        "obs:episodes_stop_with_region_open", "obs:episodes_destructor", "obs:episodes_stop_idle",
                        "rare:region_closed_by_other_thread", "obs:not_early_checked_against_older_region",
                        "point:gc:consumed", "point:gc:backoff"],
    "assumptions": ["TSC is causally consistent across cores (DESIGN §2.2); cross-thread order is only claimed with a 2000-cycle margin",
                    "client rules respected: thread-local style and Accessor style never mixed on one collector; no retire() "
                    "after stop() was called; the collector is destroyed only when no region of its epoch is open; a thread "
                    "never blocks in retire() against a full queue while it holds a region itself",
                    "liveness restated as bounded progress: 12 s (quick) / 30 s (thorough) without a retire return or an invocation"],
}
