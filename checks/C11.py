"""Run plan of C11 (serialization: round trip, exact size, protobuf wire compat, hostile input)."""

CHECK = {
    "runs": [
        # gcc ASan+UBSan, asserts on (the wire-type check of deserialize_field is debug-only)
        {"harness": "c11_serialize", "variant": "asan", "scale": 0.15, "scale_thorough": 0.3, "args": [],
         "leaks": False},   # leak checking is not part of C11; babylon's thread-local singletons leak by design
        # -O2 -DNDEBUG (the NDEBUG code path of the parser), ~10x faster: carries the volume
        {"harness": "c11_serialize", "variant": "plain", "scale": 2.0, "scale_thorough": 1.0, "args": []},
        # clang libFuzzer, oracle inside the target (the C11 fixes are in /repo, so the fuzzer no longer dies on
        # the length-read hang within seconds; quick: --runs 150000 is ~40 s).
        {"harness": "fuzz_c11", "variant": "fuzz", "scale": 1.0, "args": [], "tiers": ("quick", "thorough"),
         "leaks": False},
    ],
    "parallel": 3,
    "design_ref": "DESIGN.md §5 C11",
    "technique": "seeded value generator over a 56-root type zoo x 18 byte presentations (flat array, std::string, "
                 "ArrayInputStream with block 1..7/4096 with and without an enclosing PushLimit); three output paths "
                 "compared with the predicted size; differential check against protoc-generated TestMessage (the repo's "
                 "documented compatibility table) in both directions incl. unknown kinds, absent fields, permuted "
                 "records; structure-aware mutation of valid encodings as hostile input with a stability oracle; "
                 "gcc ASan+UBSan / NDEBUG / clang libFuzzer; every slice in a forked child with CPU-time and RSS guards",
    "level_text": ("Runtime monitoring of the real serializer/parser. Values with extremes (0, +-1, min, max, 2^k+-1, NaN "
                   "payload bits, empty, lengths at the 1/2/3-byte length-prefix boundaries) are generated for every root "
                   "type of the zoo (all scalar widths, enums, strings, vector/list/array/unordered_set/unordered_map of "
                   "scalars, strings and aggregates, vector<bool>, unique_ptr/shared_ptr incl. null and empty pointee, "
                   "aggregates with and without bases, total-size-cached aggregates, 6-deep nesting, protobuf messages as "
                   "roots and members, babylon's reusable vector/string). Each value is serialized through "
                   "serialize_to_string, serialize_to_array_with_cached_size (exact-size buffer) and a chunked coded "
                   "stream — the three must agree and match calculate_serialized_size — and parsed back under all 18 "
                   "presentations from an exact-size heap copy (ASan sees any over-read); half of the source objects are "
                   "re-used from the previous value and must serialize like a fresh object. Compatibility: a struct "
                   "mirroring TestMessage is compared field by field with protobuf's own parse of babylon's bytes and "
                   "babylon's parse of protobuf's bytes (unknown kinds of every wire type present, fields absent at "
                   "random, records permuted), plus an older struct reading a newer struct's bytes. Hostile input: valid "
                   "encodings are truncated, given over-long/unterminated varints, wrong wire types, wrong/huge lengths, "
                   "duplicated/transplanted/unknown/invalid records, random bytes and 10..10^5-deep nesting; the parser "
                   "must return (a death, 3 s of CPU or 1.5 GB RSS in one parse is a violation) and every accepted value "
                   "must serialize to its predicted size and parse back to itself. Held on the inputs tried, not a proof."),
    "level_note": ("Trusted: protobuf 3.21 runtime and protoc output as the compatibility reference, the sanitizer "
                   "runtimes, the harness' own equality/emptiness predicates. Time-outs are measured in CPU time of the "
                   "parsing process, never wall time."),
    "rule": ("one evaluation = one generated value taken through all output paths and all 18 presentations (round "
             "trip), or one compat case (both directions), or one hostile input presented 3 ways (array, stream with "
             "limit, stream without limit), or one libFuzzer execution. distinct = hash(type, bytes). non-trivial = "
             "round trip: the encoding is empty or needs a multi-byte length prefix (>= 128 bytes); compat: every case; "
             "hostile/fuzz: the parser ACCEPTED the mutated input (so the stability oracle actually ran). Summed over "
             "variants."),
    "expect_counters": ["obs:roundtrip_values", "obs:source_object_reused", "rare:empty_encoding", "rare:len_prefix_2byte",
                        "obs:compat_b2p", "obs:compat_p2b", "obs:compat_p2b_permuted", "rare:compat_mostly_absent_fields",
                        "obs:hostile_accepted", "obs:hostile_rejected", "obs:hostile_deep_nesting"],
    "not_decidable": ["a parser change that only alters which malformed inputs are rejected (e.g. dropping the debug-only "
                      "wire-type check) is not a violation of the property and is not reported",
                      "repeated occurrences of a non-repeated field (last-wins vs. merge) are outside the property"],
    "assumptions": ["values of `int` members standing for a protobuf enum are valid enumerators (proto2 closed enums)",
                    "protobuf->babylon values fit the narrower C++ member type (documented in the repo's own test)",
                    "containers of smart pointers to *scalars* with null elements are not generated (a null element has no "
                    "encoding at all inside a packed container; outside the documented type table)",
                    "an empty string/container member is not written, so members with non-empty defaults cannot "
                    "round-trip an empty value (documented rule) - the zoo uses empty defaults for them"],
}
