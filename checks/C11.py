"""Run plan of C11 (serialization) for vf.py."""

CHECK = {
    "runs": [
        {"harness": "c11_serialize", "variant": "asan", "scale": 1.0, "args": []},
        {"harness": "c11_serialize", "variant": "plain", "scale": 3.0, "args": []},
    ],
    "design_ref": "DESIGN.md §5 C11",
    "technique": "seeded value generator over a type zoo x 18 byte presentations; differential check against protobuf; "
                 "structured-mutation hostile input; ASan/UBSan",
    "level_text": "wip",
    "level_note": "wip",
    "rule": "wip",
    "expect_counters": [],
}
