"""Run plan of C12 for vf.py: reusable containers and manager (sequential differential model)."""
from checks_common import ASAN, PLAIN

CHECK = {
    # purely sequential property: no tsan run. asan (+ubsan, asserts on) for lifetime errors in the shifting code,
    # plain (-O2 -DNDEBUG) for volume.
    "runs": [
        {"harness": "c12_reusable", "variant": ASAN, "scale_quick": 0.5, "scale_thorough": 0.25, "args": []},
        {"harness": "c12_reusable", "variant": PLAIN, "scale_quick": 8.0, "scale_thorough": 1.0, "args": []},
    ],
    "design_ref": "DESIGN.md §5 C12",
    "technique": "seeded random operation sequences on ReusableVector / MonotonicString / SwissString with std::vector / "
                 "std::string as reference model, element-lifetime shadow for a counting element, ReusableManager "
                 "clear/recreate cycles with capacity, accessor and resource-growth monitors",
    "level_text": ("Runtime monitoring (differential model): (A) three ReusableVector<T> (two sharing a SwissMemoryResource, "
                   "one on another) for T in {int, SwissString, ReusableVector<int>, counting element} driven by assign x3, "
                   "operator=(initializer_list), insert x4, emplace, erase x2, resize x2, assign(count), push/emplace_back, "
                   "pop_back, reserve, swap, clear, copy/move construct/assign with equal and different allocators; after "
                   "every operation contents (operator[], iterators, reverse iterators, data(), front/back), returned "
                   "iterators, size <= constructed_size <= capacity, capacity monotonicity are compared with std::vector; for "
                   "the counting element a shadow set of live addresses reports construction over a live element, assignment "
                   "to / reads from unconstructed slots, double destruction, and requires every slot < constructed_size to be "
                   "alive and the number of live elements inside the resources to equal the sum of constructed_size (zero "
                   "after death). (B) MonotonicString / SwissString vs std::string incl. move with equal/different allocators, "
                   "__resize_default_init, stable_reserve. (C) ReusableManager with string, vector<int>, vector<string>, "
                   "vector<vector<int>> and a protobuf message, recreate interval 1-7: fresh after clear, capacity retention, "
                   "accessors valid, AllocationMetadata round trip. (D) fixed workload over 6 recreation periods: after the "
                   "second recreation space_allocated(), pages held and operator-new bytes at the same phase do not grow and "
                   "the workload takes nothing from the resource. AddressSanitizer/UBSan watch the same runs."),
    "level_note": ("Sampled input space. Trusted: std::vector/std::string as reference, the shadow set. ASan cannot see "
                   "inside the monotonic resource's pages; the counting-element shadow covers that for one element type."),
    "rule": ("one evaluation = one seeded case: an operation sequence (40-300 ops) on three vectors / strings compared after "
             "every operation, or one manager session of 10-42 fill/clear cycles. distinct = hash of the operation log; "
             "non-trivial = the case reached constructed_size > size (reuse of logically erased elements), a heap-backed "
             "string, or at least one manager recreation."),
    "expect_counters": ["rare:constructed_beyond_size", "rare:move_assign_diff_alloc", "rare:move_construct_diff_alloc",
                        "rare:string_move_assign_diff_alloc", "rare:manager_recreated", "obs:metadata_roundtrips",
                        "obs:convergence_points", "obs:instance_address_changed"],
    "assumptions": ["arguments never alias elements of the container being modified (no self-assignment / self-insert)",
                    "a moved-from container is cleared before further use",
                    "swap only between containers with equal allocators (documented precondition)"],
}
