"""Run plan of one property for vf.py (which harness, which sanitizer variants, budgets)."""
from checks_common import three


def _runs():
    # three modes = three processes per variant, so that a sanitizer halt in one part cannot mask the others:
    #   mix        tasks / futures / Cancellable<Task> (inner task bound explicitly, like the repo's tests)
    #   futex      probes + solo + hand-off + storm episodes on coroutine::Futex
    #   mixinherit Cancellable whose inner task inherits its executor through the proxy coroutine (on a tree with
    #              defect e this process dies with a null executor dereference)
    runs = []
    for mode in ("mix", "futex", "mixinherit"):
        runs += three("c13_coroutine", [], scales=(0.5, 1.0, 2.0), mode=mode)
    thorough = {"tsan": 0.3, "asan": 0.5, "plain": 1.0}
    for r in runs:
        r["scale_quick"] = r.pop("scale")
        r["scale_thorough"] = thorough[r["variant"]]
    return runs


CHECK = {
    "runs": _runs(),
    "parallel": 3,
    "design_ref": "DESIGN.md §5 C13, §6",
    "technique": "coroutine workloads on thread-pool executors with online monitors (in-frame flag, suspend/resume "
                 "counters, executor identity, value checks, cancel-result bookkeeping, exact wake accounting, "
                 "sequential model of wake_one/wake_all/cancel, DepositBox slot accounting through private state); "
                 "deterministic staging of the cancel / wake_all / await_suspend windows with blocking schedule-point "
                 "gates; perturbation policy on the cofutex:*/cocancel:*/fut:* points; TSan/ASan for frame and node lifetime; 10^5-round futex hand-off race (check-then-suspend vs bump-then-wake)",
    "level_text": ("Runtime monitoring of the real coroutine layer: root coroutines on 1-3 thread-pool executors await "
                   "child tasks (same / other executor), Futures completed by other threads around the registration "
                   "instant and Cancellable<Task> whose token is fired inline, immediately, a little later or after "
                   "completion; coroutine Futex waiters (matching and non-matching values, with and without "
                   "cancellation token) re-arrive on 2-6 futexes against wake_one / wake_all / cancel threads. Four "
                   "probes park a thread at the schedule points inside cancel, wake_all and await_suspend and check the "
                   "exact outcome; solo episodes compare every return value with a sequential model; hand-off episodes "
                   "check that value check and suspension are atomic (one wake per round). Held on the executions "
                   "observed, not a proof."),
    "level_note": ("Trusted: gcc sanitizer runtimes, the harness. The TSan build suppresses races whose stack contains "
                   "Futex::add_awaiter (documented FUTEX(2)-style plain read of the word under the internal mutex)."),
    "rule": ("one evaluation = one seeded episode: (mix) construct executors, run 3-20 root coroutines of 2-8 awaits "
             "each with helper threads completing futures and firing tokens, quiesce, check every monitor; (futex) a "
             "solo episode (one thread issues a random sequence of wake_one / wake_all / cancel / new waiter, every "
             "return value compared with the model), a hand-off episode (50-300 rounds of bump + one wake_all) or a "
             "storm episode (4-24 waiters x 3-14 waits on 2-6 futexes against 1-3 wakers and 0-2 cancellers, exact "
             "accounting at quiescence). distinct = configuration + outcome counts (cancelled / completed / suspended "
             "/ woken by which operation); non-trivial = at least one wait really suspended and was resumed (mix: a "
             "future await suspended or a cancellation won). Summed over sanitizer variants. The four probes are not "
             "counted as evaluations."),
    "expect_counters": ["obs:probe_a", "obs:probe_b", "obs:probe_c", "obs:probe_d", "obs:gate_blocked",
                        "obs:cancel_won", "obs:cancel_lost", "obs:future_suspended", "obs:future_ready",
                        "obs:cross_executor_child", "obs:solo_wake_one", "obs:solo_wake_all", "obs:solo_cancel",
                        "obs:storm_wake_one", "obs:storm_suspended_known",
                        "point:cofutex:cancel_taken", "point:cofutex:wake_all_finished_node",
                        "point:cofutex:awaiter_added", "point:cocancel:cancel_taken", "point:cocancel:resume_taken",
                        "point:fut:on_finish_lost_to_sealed", "point:dbox:take_won"],
    "not_decidable": ["memory-order strength of DepositBox::take (relaxed CAS) on x86 beyond what TSan models",
                      "unbounded liveness (restated as bounded progress, stuck rule)"],
    "assumptions": ["mode mix: inner task of a Cancellable carries an explicit executor (as in the repo's tests); mode mixinherit drops that",
                    "futex word written through atomic_value() only",
                    "liveness restated as bounded progress: grace 12 s (quick) / 30 s (thorough)"],
}
