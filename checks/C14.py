"""Run plan of one property for vf.py (which harness, which sanitizer variants, budgets)."""
from checks_common import three

CHECK = {
    "runs": [dict(r, scale_quick=round(r["scale"] * 3, 3)) for r in three("c14_ids", [], scales=(0.12, 0.25, 0.6))],
    "design_ref": "DESIGN.md §5 C14",
    "technique": "concurrent allocate/deallocate stress over a tiny id range with PCT-style stalls in the CAS windows "
                 "(ida:* hook points), shadow ownership flags + plain owner tags, solo phases against a model free set, "
                 "for_each vs the held set at quiescence; thread generations for ThreadId / LeakyThreadId; deposit-box "
                 "rounds with racing takers and stale-id retries after up to 10^4 slot reuses; TSan/ASan/UBSan",
    "level_text": ("Runtime monitoring of the real IdAllocator<uint16_t/uint32_t>, ThreadId/LeakyThreadId (harness tag "
                   "types) and DepositBox. ida episodes: 2-32 threads (mostly 2-6) each holding at most 1-3 ids of one "
                   "fresh allocator allocate/deallocate at random in 2-4 concurrent phases with stalls between the head "
                   "load and the CAS; an atomic shadow flag per id value is test-and-set after allocate() returned and "
                   "cleared before deallocate() is called (two owners = violation), a plain owner tag is written by each "
                   "owner and verified before release (TSan decides whether the free-list head orders successive owners); "
                   "after every phase for_each must equal the held set, ranges well formed, end() above every value "
                   "returned; solo phases in one thread are compared with a model free set ([0,end) minus held): "
                   "allocate() must return a member of it when it is non-empty, the next fresh value otherwise; a "
                   "sequential sub-mode drives 100-700 live ids so for_each crosses the 128-value blocks. tid episodes: "
                   "generations of threads (up to 300 alive in plain, 150 under sanitizers) born one by one (solo: id "
                   "from the model free set) or in bursts racing with deaths; live ids unique, stable per thread, "
                   "for_each == live set at quiescence, end() above every id seen. dbox episodes: 1-3 lanes of one "
                   "depositor and 2-8 takers on a private DepositBox instance (or the singleton); every taker calls "
                   "take()/take_released() once on each id and retries ids it knows to be taken later in the episode "
                   "(up to >10^4 reuses of the slot): exactly one winner per id, it reads that id's serial, a stale id "
                   "never matches, a slot is never handed out by emplace() before its previous item was finished; "
                   "takers report back through relaxed counters only, so reuse of a slot is ordered by the library or "
                   "TSan reports it. Held on the executions observed, not a proof."),
    "level_note": ("Trusted: gcc sanitizer runtimes and the harness. The solo-phase model of IdAllocator is exact "
                   "(every allocate of every solo phase is compared); the concurrent phases are sampled schedules."),
    "rule": ("one evaluation = one seeded episode of kind ida / dbox / tid (4:2:2). distinct = configuration + a digest "
             "of the outcome (end(), allocation count, hand-overs / winner sequence of the first 64 rounds / alive counts "
             "per generation). non-trivial = ida: at least one id value changed hands between two different threads in a "
             "concurrent phase (or the sequential many-ids sub-mode); dbox: the winning taker changed more than twice "
             "between consecutive rounds; tid: at least one solo birth reused a dead thread's id or a concurrent birth "
             "burst happened. Summed over sanitizer variants."),
    "expect_counters": ["point:ida:alloc_before_cas", "point:ida:dealloc_before_cas", "point:dbox:version_stored",
                        "point:dbox:take_won", "policy:stall_fired", "obs:ida_handover_between_threads",
                        "obs:ida_solo_reused", "obs:ida_solo_fresh", "obs:ida_for_each_multi_range",
                        "obs:ida_for_each_crossed_block", "obs:ida_episodes_with_stall_in_cas_window",
                        "obs:tid_solo_births_reusing_a_dead_threads_id", "obs:tid_concurrent_births",
                        "obs:tid_for_each_crossed_block", "obs:dbox_stale_retries",
                        "obs:dbox_stale_retry_after_1000_rounds", "obs:dbox_slot_reused_1000_times",
                        "obs:dbox_winner_changed_between_rounds"],
    "not_decidable": ["version wrap-around of the 16/32-bit version fields (needs 2^16 / 2^32 pushes between a stalled "
                      "thread's load and its CAS, or 2^32 reuses of one deposit slot)"],
    "assumptions": ["documented usage: finish_released / ~Accessor exactly once by the winner; deallocate only of held ids",
                    "thread-local destructors (ThreadId release) have run when std::thread::join returns"],
}
