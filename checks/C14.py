"""Run plan of one property for vf.py (which harness, which sanitizer variants, budgets)."""
from checks_common import three

CHECK = {
    "runs": three("c14_ids", [], scales=(0.5, 1.0, 1.5)),
    "design_ref": "DESIGN.md §5 C14",
    "technique": "placeholder",
    "level_text": "placeholder",
    "level_note": "placeholder",
    "rule": "placeholder",
    "expect_counters": [],
}
