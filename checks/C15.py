"""Run plan of one property for vf.py (which harness, which sanitizer variants, budgets)."""
from checks_common import three

CHECK = {
    "runs": [dict(r, scale_quick=round(r["scale"] * 3, 3)) for r in three("c15_topic", [], scales=(0.1, 0.25, 1.0))],
    "design_ref": "DESIGN.md §5 C15",
    "technique": "multi-publisher / multi-consumer stress of the real ConcurrentTransientTopic through repeated "
                 "publish -> close -> drain -> clear cycles under a perturbation policy (harness SchedInterface, futex "
                 "interposition, PCT-style stalls at topic:* hook points); offline oracle over per-thread records "
                 "(identical sequences, exactly-once, publisher order, batch contiguity, stamps), plain payload with "
                 "checksum, stuck rule with futex-word inspection; TSan/ASan/UBSan",
    "level_text": ("Runtime monitoring of the real topic: 1-6 publishers (publish, publish<false>, publish_n 1-300, "
                   "publish_n<false>) and 1-6 independent consumers (Consumer and ConstConsumer, consume() and consume(n) "
                   "with n up to 700 so ranges straddle the 128-slot vector blocks; some subscribe late or after close) "
                   "run 3-6 publish -> close -> drain -> clear cycles on one topic object per episode; close() is issued by "
                   "the publisher that finished last right after its last publish returned. Delays are injected before "
                   "futex wait / wake (harness S and the syscall interposer), inside the publish callback, and by stalls at "
                   "topic:published_before_wake / topic:closed_before_wake / topic:consume_before_wait / topic:wake_slow. "
                   "Per cycle an offline oracle decides: all consumers saw the same sequence, every published id exactly "
                   "once, each publisher's program order, contiguity of each publish_n batch, ranges starting where the "
                   "previous ended (first at index 0 after clear), payload checksum and cycle tag (plain memory: TSan "
                   "decides visibility), no element before its publish was called, a short range / the end marker only "
                   "after close() was called and after every element, end marker repeated, slot words and index reset "
                   "by clear(). A consumer that never terminates is decided by the stuck rule (close() returned, no "
                   "progress for the grace period; a sleeper whose slot word changed is a lost wake-up). Held on the "
                   "executions observed, not a proof."),
    "level_note": ("Trusted: gcc sanitizer runtimes, TSC causal consistency, the harness, the interposed syscall() "
                   "wrapper. Fence strength on publish_n / consume (TSan-annotated fences) is not decidable on x86 "
                   "(DESIGN §1)."),
    "rule": ("one evaluation = one seeded episode (construct topic, 3-6 cycles of publishers + consumers under a drawn "
             "perturbation policy, join, per-cycle offline oracle, clear(), destroy). distinct = configuration "
             "(mode, variant, publishers, consumers) + per-cycle interleaving of publishers over the first 256 "
             "positions of the delivered sequence; non-trivial = in that episode at least one consumer really slept in "
             "futex_wait and was woken, or a publisher / closer found a registered waiter (slow wake path). Summed over "
             "sanitizer variants."),
    "expect_counters": ["point:topic:published_before_wake", "point:topic:closed_before_wake",
                        "point:topic:consume_before_wait", "point:topic:wake_slow", "point:futex:before_wait",
                        "rare:consume_range_straddles_block", "rare:publish_range_split", "rare:short_range_at_close",
                        "rare:subscribed_after_close", "obs:late_consumer_saw_everything", "obs:empty_cycle",
                        "obs:episodes_with_sleeping_consumer", "policy:stall_fired"],
    "not_decidable": ["strength of the release / acquire / seq_cst fences of publish_n, close and consume "
                      "(TSan-annotated; same-word store/load on x86 TSO)"],
    "assumptions": ["TSC is causally consistent across cores (DESIGN §2.2)",
                    "documented usage: close() only after every publish returned (ordered by an acq_rel counter in the "
                    "harness); clear() only at quiescence; one thread per consumer object",
                    "liveness restated as bounded progress: grace period 12 s (quick) / 30 s (thorough) without any progress"],
}
