"""Run plan of one property for vf.py (which harness, which sanitizer variants, budgets)."""
from checks_common import three

CHECK = {
    # a quick run takes 10-60 s; an item stranded by a broken queue can leave a process spinning without a verdict
    # (the recovery thread keeps the progress counter alive): cut it off after 400 s (inconclusive for that variant)
    "runs": three("c16_execqueue", [], scales=(0.5, 0.5, 1.0), timeout_quick=400),
    "level": "fault_enumeration",
    "design_ref": "DESIGN.md §5 C16",
    "technique": "multi-producer stress of the real ConcurrentExecutionQueue over Inplace/ThreadPool/NewThread executors "
                 "and a launch-refusing wrapper driven by enumerated + randomized fault schedules; PCT-style stalls in "
                 "the consumer's exit decision and between push and event increment; online monitors (exactly-once, "
                 "per-producer order, in-use flag, return codes), stamped join() histories, stuck rule; TSan/ASan/UBSan",
    "level_text": ("Runtime monitoring with enumerated executor faults: 1-8 producers push unique (producer, seq) items in "
                   "bursts with idle gaps (many consumer launches per episode) into the real queue (capacity 1-64). The "
                   "consumer is launched through InplaceExecutor, ThreadPoolExecutor and AlwaysUseNewThreadExecutor, bare "
                   "and behind a wrapper that refuses launches by schedule: every single and every double refusal among "
                   "the first 6 launches x 3 executors is enumerated in every run (63 schedules), plus randomized runs of "
                   "refusals and probabilistic refusal followed by recovery; a recovery thread re-signals as the header "
                   "prescribes. Monitors: per-item delivery counters, consumer-owned plain per-producer sequence state and "
                   "an in-use flag inside the consume function, execute()/signal_push_event() return code against what the "
                   "executor told the calling thread, join() call/return stamps against per-item consumption stamps, final "
                   "drain after an accepted signal, and the stuck rule for producers and join(). Random stalls at "
                   "eq:empty_before_cas / eq:pushed_before_signal / eq:submit_failed hook points. Held on the executions "
                   "observed, not a proof."),
    "level_note": ("Trusted: gcc sanitizer runtimes, TSC causal consistency, the harness and its wrapper executor. Fault "
                   "space enumerated: refusal positions {k}, {k,l} within the first 6 launches per executor kind; longer "
                   "runs / probabilistic refusals are sampled. Liveness restated as bounded progress."),
    "rule": ("one evaluation = one seeded episode (construct queue + executor, run producers / joiner / signaller threads "
             "under a drawn perturbation policy and fault schedule, final accepted signal + join(), oracle, destroy). "
             "distinct = configuration (capacity, producers, executor kind, schedule) + producer sequence of the first 64 "
             "deliveries; non-trivial = the episode had a refused launch, or >= 2 consumer launches, or a producer blocked "
             "on the full queue, or >= 2 join() calls. Summed over sanitizer variants."),
    "expect_counters": ["point:eq:empty_before_cas", "point:eq:pushed_before_signal", "point:eq:submit_failed",
                        "rare:launch_refused", "rare:rolled_back", "rare:launch_retried_after_refusal",
                        "rare:consumer_relaunched", "rare:producer_blocked_full",
                        "obs:enumerated_schedule_fully_applied", "policy:stall_fired"],
    "not_decidable": ["strength of the acquire fence in try_pop_n (TSan-annotated path; x86 TSO)",
                      "executors that fail in ways other than returning non-zero from invoke (e.g. accept and drop)"],
    "assumptions": ["TSC is causally consistent across cores (DESIGN §2.2)",
                    "liveness restated as bounded progress: grace period 12 s (quick) / 30 s (thorough) without any progress",
                    "after a refused launch clients re-signal (recovery thread), as the header documents"],
}
