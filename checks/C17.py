"""Run plan of one property for vf.py (which harness, which sanitizer variants, budgets)."""
from checks_common import three

# thorough scales: at the quick scales all three variants were still running after 55 min on the loaded machine
_main = [dict(r, scale_thorough=st) for r, st in zip(three("c17_pages", [], scales=(0.6, 1.0, 2.0), mode="all"), (0.15, 0.25, 0.6))]
# Move-assignment of a pooled unique_ptr is undefined behaviour on the unchanged tree (known
# finding C17-deleter-move-assign-no-return): own processes, the operation itself runs in a
# forked child, so nothing it does can mask the other modes.
_moveassign = [{"harness": "c17_pages", "variant": v, "scale": 1.0, "args": [], "mode": "pool-moveassign"}
               for v in ("asan", "plain")]

CHECK = {
    "runs": _main + _moveassign,
    "parallel": 3,
    "design_ref": "DESIGN.md §5 C17",
    "technique": "concurrent allocate/deallocate programs on stacks of the real page allocators over a recording "
                 "upstream with an ownership map page->holder, holder patterns and conservation checks at quiescence; "
                 "object-pool programs with in-use flags, creation/destruction/recycle counters and the stuck rule; "
                 "TSan/ASan/UBSan; schedule perturbation at the bounded-queue hook points and inside the upstream",
    "level_text": ("Runtime monitoring: 2-12 threads drive single and batched allocate/deallocate (batch sizes around the "
                   "cache capacity, so the queue runs empty and full and the compensating reverse callbacks execute) through "
                   "Cached(capacity 0,1,2,4,16,64) / Batch(1,4,16) / Counting stacks over a recording upstream, and through "
                   "PageHeap. Every page received is test-and-set in an ownership map (a page received while held, or not "
                   "outstanding upstream, is a violation), written with its holder's pattern in plain memory (TSan sees a "
                   "missing hand-off edge) and verified on return; the upstream rejects double / foreign frees and pages "
                   "returned while held. At every quiescent point pages outstanding upstream == held + free_page_num() + "
                   "per-thread batch buffers, the counting allocator's number == outstanding; after the stack is destroyed "
                   "(with some pages still held) upstream outstanding == held. ObjectPool: strict mode (N injected objects, "
                   "more threads than objects, blocking pop / try_pop, return through the deleter / push, move-construction "
                   "of the pooled pointer): in-use flag per object, outstanding <= N, recycler once per return, all N back "
                   "at the end, a pop that stays blocked while every object is back is a violation (stuck rule); auto-create "
                   "mode: created == destroyed + cached + held, overflow destroyed, nothing leaked after destruction. "
                   "Move-assignment of a pooled pointer runs in a forked child. Held on the executions observed."),
    "level_note": ("Trusted: gcc sanitizer runtimes, glibc malloc as the source of pages, the harness. Per-thread batch "
                   "buffers are read from private state at quiescence (-fno-access-control). PageHeap has no replaceable "
                   "upstream: ownership, counters and LeakSanitizer only."),
    "rule": ("one evaluation = one seeded episode: pages = one allocator stack, 2-12 threads x 50-600 operations x 1-3 "
             "rounds with the conservation oracle after each round and after destruction; pool = one pool, 2-12 threads x "
             "50-800 pop/return cycles; pool-moveassign = one forked move-assignment. distinct = configuration + number "
             "of compensations / blocked pops; non-trivial = the episode executed a compensating path or used per-thread "
             "batch buffers (pages), a pop really blocked (strict pool), a compensation or an overflow destruction "
             "happened (auto pool). Summed over variants."),
    "expect_counters": ["point:bq:compensate", "point:cb:c17_upstream_allocate", "point:cb:c17_upstream_deallocate",
                        "rare:strict_pop_blocked", "rare:pool_overflow_destroyed", "rare:pool_overflow_left_with_caller",
                        "obs:quiescent_conservation_checks", "obs:destruction_checks", "obs:pool_episodes_checked",
                        "obs:pooled_ptr_move_constructed"],
    "not_decidable": ["strength of the fences of the bounded queue's batch paths used by CachedPageAllocator "
                      "(TSan-annotated; x86 TSO), see C01"],
    "assumptions": ["BatchPageAllocator::set_batch_size() is called before use (without it the per-thread buffer is empty "
                    "and allocate() writes through a null pointer; the repo's tests always call it)",
                    "liveness restated as bounded progress: grace period 12 s (quick) / 30 s (thorough)"],
}
