"""Run plan of C18 for vf.py: hash set/map vs. reference container (sequential differential model)."""
from checks_common import ASAN, PLAIN

CHECK = {
    # purely sequential property: TSan has nothing to watch (scale 0 drops the variant);
    # asan (+ubsan, asserts on) for lifetime errors in merge/rehash/copy, plain (-O2 -DNDEBUG) for volume.
    "runs": [
        {"harness": "c18_hashmodel", "variant": ASAN, "scale_quick": 0.2, "scale_thorough": 0.1, "args": []},
        {"harness": "c18_hashmodel", "variant": PLAIN, "scale_quick": 3.0, "scale_thorough": 1.0, "args": []},
    ],
    "design_ref": "DESIGN.md §5 C18",
    "technique": "seeded random operation sequences on ConcurrentTransientHashSet/Map and ConcurrentFixedSwissTable "
                 "with std::unordered_map as reference model; full comparison after every operation",
    "level_text": ("Runtime monitoring (differential model): seeded operation sequences over construct(default|n), "
                   "emplace/insert/try_emplace/operator[], find/contains/count, clear, reserve, rehash, copy/move "
                   "construct+assign, swap, iterate, size, empty on two instances per case, element kinds "
                   "uint64, std::string, string->string map, uint64->move-only map and the fixed swiss table; key "
                   "bursts force 0-5+ chained growth steps; three key styles (sequential, one 7-bit tag for all keys, "
                   "random). After every operation size(), empty(), the multiset of iterated elements, find/contains/"
                   "count of every reference key and of absent keys and the mapped values are compared with the model. "
                   "AddressSanitizer/UBSan watch the same runs."),
    "level_note": ("Sampled input space (no exhaustiveness claim). Private fields (_head, _controls) are read only to "
                   "classify a divergence, never to detect one. Trusted: std::unordered_map as reference."),
    "rule": ("one evaluation = one seeded operation sequence (30-900 operations) on two containers of one element "
             "kind, compared with the reference after every operation. distinct = hash of the operation log; "
             "non-trivial = the sequence drove at least one container past its first table (>=1 chained table) or, "
             "for the fixed table, to saturation."),
    "expect_counters": ["rare:growth_step", "rare:growth_behind_default_head", "rare:case_with_chain_ge3",
                        "rare:case_with_chain_ge5", "rare:clear_with_chained_tables",
                        "rare:reserve_with_chained_tables", "rare:rehash_with_chained_tables",
                        "rare:copy_with_chained_tables", "rare:move_with_chained_tables",
                        "rare:swap_with_chained_tables", "rare:fixed_table_saturated"],
    "assumptions": ["sequential use only (concurrent insert-if-absent is C03)",
                    "a moved-from container is cleared before further use",
                    "ConcurrentFixedSwissTable self copy-assignment is not exercised"],
}
