"""Run plan of one property for vf.py (which harness, which sanitizer variants, budgets)."""
from checks_common import three

CHECK = {
    # tsan: quiescent-point reads only (DESIGN §4); asan/plain additionally run the concurrent-reader episodes
    "runs": [dict(r, scale_quick=round(r["scale"] * 3, 3)) for r in three("c19_counters", [], scales=(0.5, 0.5, 1.5))],
    "design_ref": "DESIGN.md §5 C19",
    "technique": "long histories of thread generations (thread-id reuse) and counter-instance generations "
                 "(construct/destroy/move/reset, compact slot and cache-line recycling) against exact shadow totals; "
                 "stamped concurrent-reader episodes (plain/asan); TSan/ASan/UBSan",
    "level_text": ("Runtime monitoring of the real counters and enumerable thread-locals: seeded episodes run rounds of "
                   "short-lived thread waves (their ids are recycled by the next wave) and long-lived threads (their "
                   "per-thread caches survive instance generations) that count on a churning population of "
                   "ConcurrentAdder/Summer/Maxer/Miner/Sampler, EnumerableThreadLocal and CompactEnumerableThreadLocal "
                   "instances, while workers also create/use/move/destroy private instances in the same cache lines. At "
                   "every quiescent point (threads joined or parked through a mutex) value() must equal the exact sum / "
                   "(sum,count) / extreme of the current period, a new instance must read zero whatever storage it "
                   "recycles, local() must be stable per (thread, instance) and private, for_each must visit every slot "
                   "ever used exactly once and for_each_alive exactly the live thread ids' slots. In plain/asan stamped "
                   "histories bound every concurrent read by the contributions completed before its call and started "
                   "before its return. Held on the executions observed, not a proof."),
    "level_note": ("Trusted: gcc sanitizer runtimes, TSC causal consistency, the harness. Under TSan the deliberately "
                   "unsynchronised statistics are read at quiescent points only (DESIGN §4); concurrent-reader bounds "
                   "are decided in plain/asan for adder and summer (sum and count separately), not for maxer/miner."),
    "rule": ("one evaluation = one seeded episode: churn (2-6 rounds of counting threads over 3-24 shared instances with "
             "oracle + population churn at each quiescent point), reader (stamped writers in waves against 1-2 readers, "
             "offline bound check), wide (>128 live threads) or many (>1024 live adders). distinct = hash of the "
             "configuration and of the (thread id, kind, op count) contributions merged at the quiescent points; "
             "non-trivial = the episode observed thread-id reuse, compact instance-id reuse, a moved counter, a reset "
             "between periods, or a concurrent read overlapping in-flight contributions. Summed over sanitizer variants."),
    "expect_counters": ["rare:thread_id_reused", "rare:compact_slot_reused", "rare:cacheline_shared", "rare:counter_moved",
                        "rare:reset_period", "rare:second_storage", "rare:thread_id_ge_128", "rare:alive_subset_of_all",
                        "rare:concurrent_reads_overlapping_writes", "obs:for_each_alive_checked", "obs:private_instances"],
    "not_decidable": ["torn (version, value) reads of ConcurrentMaxer/Miner and (sum, num) pair atomicity of ConcurrentSummer "
                      "under a concurrent reader (documented weaknesses of the statistics; the property bounds sums only)"],
    "assumptions": ["reset()/destruction/move of an instance only at points where no thread counts on that instance",
                    "TSC is causally consistent across cores (DESIGN §2.2)"],
}
