"""Run plan of one property for vf.py (which harness, which sanitizer variants, budgets)."""
from checks_common import three

CHECK = {
    "runs": (
        # sequential layout enumeration: asan+ubsan (page red zones, poisoned free pages) and plain (NDEBUG)
        three("c20_logging", scales=(0, 1.0, 1.0), mode="layout")
        # concurrent appender episodes
        + three("c20_logging", scales=(0.25, 0.4, 1.0), mode="appender")
        # the close()-against-a-full-queue configuration in its own processes: on the unchanged tree the
        # first such episode ends the process (known finding C20-close-full-queue), without masking the rest
        + three("c20_logging", scales=(0.5, 0.75, 1.0), mode="closefull")
    ),
    "parallel": 4,
    "design_ref": "DESIGN.md §5 C20",
    "technique": "enumeration of entry lengths (exhaustive for page size 128) through the real LogStreamBuffer with "
                 "random chunking against a recording page allocator; concurrent logging threads -> AsyncFileAppender "
                 "-> pipes/files with an offline stream oracle, writev(2) interposition, stuck rule; TSan/ASan/UBSan",
    "level_text": ("Runtime monitoring of the real logging code. Layout: every entry length 0..46 pages for page size "
                   "128 (all lengths), every page multiple +-2 for 256/512, the inline/page-table boundaries +-2 for 4096 "
                   "and random lengths are streamed with random chunking; the scatter list built by append_to_iovec must "
                   "concatenate to the streamed bytes and name exactly the pages the recording allocator handed out, each "
                   "once, and discard() must return all of them. Appender: 1-8 threads (direct LogStreamBuffer, "
                   "AsyncLogStream, Logger macro incl. noflush) log self-describing entries to 1-3 destinations (pipes with "
                   "fast/slow readers, files, rotating descriptors) through queues of capacity 1..1024; close() is called "
                   "after the last write() returned. The bytes received must parse into exactly the entries written, each "
                   "once, intact, per thread in order; every iovec given to writev must be an allocated page; the page "
                   "balance after close() must be zero; close() must return (stuck rule). Held on the executions observed."),
    "level_note": ("Trusted: sanitizer runtimes, the harness (recording allocator, writev wrapper, readers). No short "
                   "writes are injected (the appender ignores writev's result by design). Exhaustive only in the entry "
                   "length for page size 128; chunkings, other page sizes and all schedules are sampled."),
    "rule": ("layout: one evaluation = one (page size, length, chunking) case; non-trivial = the entry needs a page-table "
             "page or its length is within 2 bytes of a page multiple. appender/closefull: one evaluation = one episode "
             "(construct appender + destinations, run logging threads, close(), stream oracle, page balance); distinct = "
             "configuration + (thread, destination) order of the first 64 entries received; non-trivial = a write() found "
             "the queue full, or a descriptor was rotated, or entries with page tables were possible, or close() met a "
             "full queue. Summed over sanitizer variants."),
    "expect_counters": ["rare:layout_page_table", "rare:layout_chained_page_table", "rare:layout_exactly_inline_full",
                        "rare:layout_exactly_table_full", "rare:queue_full_at_write", "rare:rotation",
                        "rare:entry_with_page_table", "rare:close_with_pending_entries", "rare:noflush_resume",
                        "rare:close_with_full_queue", "obs:entries_discarded"],
    "not_decidable": ["behaviour under short writes / write errors (appender ignores the result of writev)"],
    "assumptions": ["entries are non-empty (a zero-length entry is the appender's stop marker)",
                    "close() is called after every write() returned; one FileObject per appender instance",
                    "liveness restated as bounded progress: no progress for 12 s (quick) / 30 s (thorough)"],
}
