"""Helpers shared by /verif/checks/<ID>.py run plans."""

TSAN, ASAN, PLAIN = "tsan", "asan", "plain"


def three(harness, args=None, scales=(1.0, 1.0, 1.0), **kw):
    """One run per sanitizer variant (tsan, asan+ubsan, plain); scale 0 drops a variant."""
    runs = []
    for v, s in zip((TSAN, ASAN, PLAIN), scales):
        if s:
            r = {"harness": harness, "variant": v, "scale": s, "args": list(args or [])}
            r.update(kw)
            runs.append(r)
    return runs
