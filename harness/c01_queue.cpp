// C01 / C02 — ConcurrentBoundedQueue monitors (DESIGN §5 C01, C02).
//
// modes:
//   blocking      balanced producers/consumers, every push/pop variant and every legal
//                 CONCURRENT/USE_FUTEX_WAIT/USE_FUTEX_WAKE combination     (C01 + C02)
//   compensating  push_n/pop_n with reverse callbacks + try_* ops, final drain   (C01)
//   solo          one thread, exact agreement with a sequential deque model       (C01)
//   timed         try_pop_n_exclusively_until against futex-waking producers      (C02)
//   wrap          capacity 1/2, > 2^16 rounds: slot version wrap                  (C01 + C02)
//   all           a seeded mix of the above (default)
//
// --as C02 : a hang is always a violation (balanced workload); --as C01 : a hang is a
// violation only when every push had returned (elements never delivered), otherwise
// it is left to C02 and reported inconclusive here.
#include <deque>

#include "common/vf.h"
#include "common/vf_interpose.h"

#include "babylon/concurrent/bounded_queue.h"

namespace {

struct Item {
  uint64_t id = 0;
  uint64_t inv = 0;
  uint32_t owner = 0;
  uint32_t pad = 0;
  uint64_t fill[3] = {0, 0, 0};
};

struct HSched : public ::babylon::SchedInterface {
  // spin waiters poll every 1 ms in the library; keep the poll but shorter so
  // spin episodes stay cheap. Timing only.
  static void usleep(useconds_t us) noexcept {
    VF_COUNT("rare:spin_poll");
    ::usleep(us > 50 ? 50 : us);
  }
  static void yield() noexcept {
    VF_COUNT("rare:comp_yield");
    ::sched_yield();
  }
};
using Queue = ::babylon::ConcurrentBoundedQueue<Item, HSched>;
using QIter = Queue::Iterator;

constexpr uint64_t kNoStamp = 0;

struct Elem {
  uint64_t push_call = 0, push_ret = 0, pop_call = 0, pop_ret = 0;
  std::atomic<uint32_t> pushes {0}, pops {0};
  int32_t pusher = -1, popper = -1;
};

enum OpKind : uint8_t {
  PUSH_V, PUSH_CB, PUSH_N_IT, PUSH_N_CB, TRY_PUSH_V, TRY_PUSH_CB, TRY_PUSH_N, PUSH_DEFAULT, TRY_PUSH_DEFAULT,
  COMP_PUSH_N,
  POP_V, POP_P, POP_CB, POP_N_IT, POP_N_CB, TRY_POP_V, TRY_POP_CB, TRY_POP_N, POP_DEFAULT, TRY_POP_DEFAULT,
  COMP_POP_N, TIMED_POP_N
};
const char* kOpNames[] = {"push(v)", "push(cb)", "push_n(it)", "push_n(cb)", "try_push(v)", "try_push(cb)",
                          "try_push_n", "push(default)", "try_push(default)", "push_n(cb,rcb)",
                          "pop(v)", "pop(p)", "pop(cb)", "pop_n(it)", "pop_n(cb)", "try_pop(v)", "try_pop(cb)",
                          "try_pop_n", "pop(default)", "try_pop(default)", "pop_n(cb,rcb)", "try_pop_n_until"};
inline bool is_push(OpKind k) { return k <= COMP_PUSH_N; }
inline bool is_try(OpKind k) {
  return k == TRY_PUSH_V || k == TRY_PUSH_CB || k == TRY_PUSH_N || k == TRY_PUSH_DEFAULT || k == TRY_POP_V ||
         k == TRY_POP_CB || k == TRY_POP_N || k == TRY_POP_DEFAULT;
}

struct OpRec {
  uint64_t call, ret;
  OpKind kind;
  uint8_t flags;
  int16_t thread;
  uint32_t want, done;        // elements requested / transferred on the op's own side
  uint32_t rev;               // elements transferred on the opposite side (compensation)
};

struct Episode {
  uint64_t seed = 0, index = 0;
  std::string mode;
  size_t capacity = 1;
  int producers = 1, consumers = 1;
  uint64_t total = 0;               // elements to move (blocking / wrap / timed)
  bool push_wait_futex = false;     // blocking producers use futex wait
  bool pop_wait_futex = false;      // blocking consumers use futex wait
  bool push_concurrent = true, pop_concurrent = true;
  size_t max_batch = 1;
  int pin = 0;
  std::string policy;
  std::string describe() const {
    return vf::fmt("mode=%s ep=%lu seed=%lu cap=%zu P=%d C=%d total=%lu pushwait=%s popwait=%s pushconc=%d popconc=%d "
                   "maxbatch=%zu pin=%d policy=[%s]",
                   mode.c_str(), (unsigned long)index, (unsigned long)seed, capacity, producers, consumers,
                   (unsigned long)total, push_wait_futex ? "futex" : "spin", pop_wait_futex ? "futex" : "spin",
                   push_concurrent, pop_concurrent, max_batch, pin, policy.c_str());
  }
};

struct World {
  Episode ep;
  Queue* q = nullptr;
  std::vector<Elem> elems;             // dense id table
  uint64_t stride = 0;                 // ids of thread t: [t*stride, (t+1)*stride)
  std::vector<std::atomic<uint8_t>> busy;  // per slot exclusivity flag
  std::vector<std::vector<OpRec>> ops;     // per thread
  std::vector<uint64_t> next_id;           // per thread
  std::atomic<uint64_t> pushed_returned {0}, popped_returned {0};
  std::atomic<int> producers_done {0};
  bool as_c02 = false;
};
World* g_world = nullptr;

////////////////////////////////////////////////////////////////////////////////
// element access inside callbacks
inline size_t slot_of(World& w, Item* it) {
  using Slot = Queue::Slot;
  Slot* base = w.q->_slots._slots;
  return size_t(reinterpret_cast<Slot*>(it) - base);
}
struct Busy {
  World& w;
  size_t slot;
  Busy(World& w_, Item* it, const char* who) : w(w_), slot(slot_of(w_, it)) {
    if (slot >= w.busy.size()) {
      vf::violation("slot-out-of-range", vf::fmt("%s callback got an element outside the slot array (slot %zu, cap %zu)",
                                                 who, slot, w.busy.size()), w.ep.describe());
      slot = SIZE_MAX;
      return;
    }
    if (w.busy[slot].exchange(1, std::memory_order_relaxed) != 0 && !w.as_c02) {
      vf::violation("exclusive-access", vf::fmt("%s callback entered slot %zu while another callback was inside it", who, slot),
                    w.ep.describe());
    }
  }
  ~Busy() {
    if (slot != SIZE_MAX) w.busy[slot].store(0, std::memory_order_relaxed);
  }
};

inline void fill_item(Item& it, uint64_t id, int thread) {
  it.id = id;
  vf::perturb("cb:push_mid");
  it.owner = uint32_t(thread);
  it.fill[0] = id * 3;
  it.fill[1] = id * 5;
  it.fill[2] = id * 7;
  it.inv = ~id;
}
inline uint64_t new_id(World& w, int thread) {
  uint64_t n = w.next_id[size_t(thread)]++;
  if (n >= w.stride) {
    vf::violation("harness-id-overflow", "harness bug: per-thread id range exhausted", w.ep.describe());
    return uint64_t(thread) * w.stride;
  }
  return uint64_t(thread) * w.stride + n;
}
// producer side of one element
inline void produce(World& w, Item& slot, int thread, std::vector<uint64_t>& ids, bool guard = true) {
  uint64_t id = new_id(w, thread);
  if (guard) {
    Busy b(w, &slot, "push");
    fill_item(slot, id, thread);
  } else {
    fill_item(slot, id, thread);
  }
  ids.push_back(id);
}
// consumer side of one element: validates the payload
inline void consume(World& w, const Item& it, int thread, std::vector<uint64_t>& ids) {
  uint64_t id = it.id;
  vf::perturb("cb:pop_mid");
  bool ok = it.inv == ~id && it.fill[0] == id * 3 && it.fill[1] == id * 5 && it.fill[2] == id * 7 &&
            id < w.elems.size() && it.owner == uint32_t(id / w.stride);
  if (!ok && w.as_c02) { ids.push_back(id < w.elems.size() ? id : 0); return; }
  if (!ok) {
    vf::violation("payload-corrupt",
                  vf::fmt("consumer t%d saw a torn/invented element: id=%lx inv=%lx owner=%u fill0=%lx", thread,
                          (unsigned long)id, (unsigned long)it.inv, it.owner, (unsigned long)it.fill[0]),
                  w.ep.describe());
    return;
  }
  ids.push_back(id);
}

////////////////////////////////////////////////////////////////////////////////
// flag dispatch
template <typename F>
inline auto with_flags3(uint8_t flags, F&& f) {
  switch (flags & 7) {
    case 0: return f(std::false_type {}, std::false_type {}, std::false_type {});
    case 1: return f(std::false_type {}, std::false_type {}, std::true_type {});
    case 2: return f(std::false_type {}, std::true_type {}, std::false_type {});
    case 3: return f(std::false_type {}, std::true_type {}, std::true_type {});
    case 4: return f(std::true_type {}, std::false_type {}, std::false_type {});
    case 5: return f(std::true_type {}, std::false_type {}, std::true_type {});
    case 6: return f(std::true_type {}, std::true_type {}, std::false_type {});
    default: return f(std::true_type {}, std::true_type {}, std::true_type {});
  }
}
// flags bit2 = CONCURRENT, bit1 = USE_FUTEX_WAIT, bit0 = USE_FUTEX_WAKE
inline uint8_t mk_flags(bool conc, bool wait, bool wake) { return uint8_t((conc ? 4 : 0) | (wait ? 2 : 0) | (wake ? 1 : 0)); }

struct Performer {
  World& w;
  int thread;
  std::vector<uint64_t> ids;      // ids moved on the op's own side
  std::vector<uint64_t> rev_ids;  // ids moved by reverse callbacks
  std::vector<Item> stage;

  Performer(World& w_, int t) : w(w_), thread(t) {}

  // Executes one operation, stamps it, updates element records. Returns #elements moved on own side.
  uint32_t run(OpKind kind, uint8_t flags, uint32_t n, const struct ::timespec* timeout = nullptr) {
    Queue& q = *w.q;
    ids.clear();
    rev_ids.clear();
    size_t done = 0;
    vf::set_op(kOpNames[kind], n);
    // staging for value / iterator forms (ids drawn before the call)
    uint64_t id_mark = w.next_id[size_t(thread)];
    if (kind == PUSH_V || kind == TRY_PUSH_V || kind == PUSH_N_IT ||
        ((kind == PUSH_DEFAULT || kind == TRY_PUSH_DEFAULT) && !(flags & 8))) {
      stage.assign(n, Item {});
      for (uint32_t i = 0; i < n; ++i) {
        uint64_t id = new_id(w, thread);
        Item& it = stage[i];
        it.id = id; it.inv = ~id; it.owner = uint32_t(thread);
        it.fill[0] = id * 3; it.fill[1] = id * 5; it.fill[2] = id * 7;
      }
    } else if (kind == POP_V || kind == POP_P || kind == TRY_POP_V || kind == POP_N_IT || kind == POP_DEFAULT ||
               kind == TRY_POP_DEFAULT) {
      stage.assign(n, Item {});
    }
    auto push_cb = [&](Item& slot) { produce(w, slot, thread, ids); };
    auto pop_cb = [&](Item& slot) { Busy b(w, &slot, "pop"); consume(w, slot, thread, ids); };
    int range_calls = 0;
    auto push_range = [&](QIter b, QIter e) {
      VF_COUNT("obs:push_range_calls");
      if (++range_calls == 2) VF_COUNT("rare:round_split");
      for (; b != e; ++b) produce(w, *b, thread, ids);
    };
    auto pop_range = [&](QIter b, QIter e) {
      VF_COUNT("obs:pop_range_calls");
      if (++range_calls == 2) VF_COUNT("rare:round_split");
      for (; b != e; ++b) { Busy g(w, &*b, "pop"); consume(w, *b, thread, ids); }
    };
    auto rev_push_range = [&](QIter b, QIter e) {
      VF_COUNT("rare:comp_reverse_push");
      for (; b != e; ++b) produce(w, *b, thread, rev_ids);
    };
    auto rev_pop_range = [&](QIter b, QIter e) {
      VF_COUNT("rare:comp_reverse_pop");
      for (; b != e; ++b) { Busy g(w, &*b, "pop"); consume(w, *b, thread, rev_ids); }
    };

    uint64_t call = vf::stamp_call();
    switch (kind) {
      case PUSH_V:
        with_flags3(flags, [&](auto C, auto W, auto K) { q.push<decltype(C)::value, decltype(W)::value, decltype(K)::value>(stage[0]); return 0; });
        ids.push_back(stage[0].id); done = 1; break;
      case PUSH_CB:
        with_flags3(flags, [&](auto C, auto W, auto K) { q.push<decltype(C)::value, decltype(W)::value, decltype(K)::value>(push_cb); return 0; });
        done = 1; break;
      case PUSH_N_IT:
        with_flags3(flags, [&](auto C, auto W, auto K) {
          q.push_n<decltype(C)::value, decltype(W)::value, decltype(K)::value>(stage.begin(), stage.end()); return 0; });
        for (auto& it : stage) ids.push_back(it.id);
        done = n; break;
      case PUSH_N_CB:
        with_flags3(flags, [&](auto C, auto W, auto K) { q.push_n<decltype(C)::value, decltype(W)::value, decltype(K)::value>(push_range, n); return 0; });
        done = n; break;
      case TRY_PUSH_V: {
        bool ok = with_flags3(flags, [&](auto C, auto, auto K) { return q.try_push<decltype(C)::value, decltype(K)::value>(stage[0]); });
        if (ok) { ids.push_back(stage[0].id); done = 1; }
        else w.next_id[size_t(thread)] = id_mark;  // staged id not used
        break;
      }
      case TRY_PUSH_CB: {
        bool ok = with_flags3(flags, [&](auto C, auto, auto K) { return q.try_push<decltype(C)::value, decltype(K)::value>(push_cb); });
        done = ok ? 1 : 0; break;
      }
      case TRY_PUSH_N:
        done = with_flags3(flags, [&](auto C, auto, auto K) { return q.try_push_n<decltype(C)::value, decltype(K)::value>(push_range, n); });
        break;
      case PUSH_DEFAULT:
        if (n == 1) { if (flags & 8) q.push(push_cb); else { q.push(stage[0]); ids.push_back(stage[0].id); } }
        else { if (flags & 8) q.push_n(push_range, n); else { q.push_n(stage.begin(), stage.end()); for (auto& it : stage) ids.push_back(it.id); } }
        done = n; break;
      case TRY_PUSH_DEFAULT: {
        bool ok;
        if (flags & 8) { ok = q.try_push(push_cb); }
        else { ok = q.try_push(stage[0]); if (ok) ids.push_back(stage[0].id); else w.next_id[size_t(thread)] = id_mark; }
        done = ok ? 1 : 0; break;
      }
      case COMP_PUSH_N:
        q.push_n(push_range, rev_pop_range, n); done = n; break;
      case POP_V:
        with_flags3(flags, [&](auto C, auto W, auto K) { q.pop<decltype(C)::value, decltype(W)::value, decltype(K)::value>(stage[0]); return 0; });
        consume(w, stage[0], thread, ids); done = 1; break;
      case POP_P:
        with_flags3(flags, [&](auto C, auto W, auto K) { q.pop<decltype(C)::value, decltype(W)::value, decltype(K)::value>(&stage[0]); return 0; });
        consume(w, stage[0], thread, ids); done = 1; break;
      case POP_CB:
        with_flags3(flags, [&](auto C, auto W, auto K) { q.pop<decltype(C)::value, decltype(W)::value, decltype(K)::value>(pop_cb); return 0; });
        done = 1; break;
      case POP_N_IT:
        with_flags3(flags, [&](auto C, auto W, auto K) {
          q.pop_n<decltype(C)::value, decltype(W)::value, decltype(K)::value>(stage.begin(), stage.end()); return 0; });
        for (auto& it : stage) consume(w, it, thread, ids);
        done = n; break;
      case POP_N_CB:
        with_flags3(flags, [&](auto C, auto W, auto K) { q.pop_n<decltype(C)::value, decltype(W)::value, decltype(K)::value>(pop_range, n); return 0; });
        done = n; break;
      case TRY_POP_V: {
        bool ok = with_flags3(flags, [&](auto C, auto, auto K) { return q.try_pop<decltype(C)::value, decltype(K)::value>(stage[0]); });
        if (ok) { consume(w, stage[0], thread, ids); done = 1; }
        break;
      }
      case TRY_POP_CB: {
        bool ok = with_flags3(flags, [&](auto C, auto, auto K) { return q.try_pop<decltype(C)::value, decltype(K)::value>(pop_cb); });
        done = ok ? 1 : 0; break;
      }
      case TRY_POP_N:
        done = with_flags3(flags, [&](auto C, auto, auto K) { return q.try_pop_n<decltype(C)::value, decltype(K)::value>(pop_range, n); });
        break;
      case POP_DEFAULT:
        if (n == 1) { if (flags & 8) q.pop(pop_cb); else if (flags & 16) { q.pop(&stage[0]); consume(w, stage[0], thread, ids); } else { q.pop(stage[0]); consume(w, stage[0], thread, ids); } }
        else { if (flags & 8) q.pop_n(pop_range, n); else { q.pop_n(stage.begin(), stage.end()); for (auto& it : stage) consume(w, it, thread, ids); } }
        done = n; break;
      case TRY_POP_DEFAULT: {
        bool ok;
        if (flags & 8) { ok = q.try_pop(pop_cb); }
        else { ok = q.try_pop(stage[0]); if (ok) consume(w, stage[0], thread, ids); }
        done = ok ? 1 : 0; break;
      }
      case COMP_POP_N:
        q.pop_n(pop_range, rev_push_range, n); done = n; break;
      case TIMED_POP_N:
        if (flags & 1) done = q.try_pop_n_exclusively_until<true>(pop_range, n, timeout);
        else done = q.try_pop_n_exclusively_until<false>(pop_range, n, timeout);
        break;
    }
    uint64_t ret = vf::stamp_ret();
    vf::set_op(nullptr);
    bool push = is_push(kind);
    if (ids.size() != done && !vf::failed() && !w.as_c02) {
      vf::violation("count-mismatch",
                    vf::fmt("%s reported %zu elements but its callbacks handled %zu", kOpNames[kind], done, ids.size()),
                    w.ep.describe());
    }
    record(ids, push, call, ret);
    record(rev_ids, !push, call, ret);
    w.ops[size_t(thread)].push_back(OpRec {call, ret, kind, flags, int16_t(thread), n, uint32_t(done), uint32_t(rev_ids.size())});
    if (push) w.pushed_returned.fetch_add(done, std::memory_order_relaxed), w.popped_returned.fetch_add(rev_ids.size(), std::memory_order_relaxed);
    else w.popped_returned.fetch_add(done, std::memory_order_relaxed), w.pushed_returned.fetch_add(rev_ids.size(), std::memory_order_relaxed);
    vf::progress(1 + done);
    return uint32_t(done);
  }

  void record(const std::vector<uint64_t>& v, bool push, uint64_t call, uint64_t ret) {
    for (uint64_t id : v) {
      if (id >= w.elems.size()) continue;
      Elem& e = w.elems[id];
      if (push) {
        if (e.pushes.fetch_add(1, std::memory_order_relaxed) != 0) {
          vf::violation("harness-double-push", "harness bug: id pushed twice", w.ep.describe());
        }
        e.push_call = call; e.push_ret = ret; e.pusher = thread;
      } else {
        if (e.pops.fetch_add(1, std::memory_order_relaxed) != 0) {
          if (w.as_c02) continue;
          vf::violation("duplicate-delivery", vf::fmt("element id=%lu delivered to consumers more than once", (unsigned long)id),
                        w.ep.describe());
          continue;
        }
        e.pop_call = call; e.pop_ret = ret; e.popper = thread;
      }
    }
  }
};

////////////////////////////////////////////////////////////////////////////////
// offline oracle over the recorded history
struct OracleStats {
  uint64_t elements = 0, ops = 0, try_short = 0, try_short_solo = 0, fifo_pairs_ordered = 0;
};

std::string history_slice(World& w, uint64_t id_a, uint64_t id_b) {
  std::string o = w.ep.describe() + "\n";
  auto one = [&](uint64_t id) {
    if (id >= w.elems.size()) return;
    Elem& e = w.elems[id];
    o += vf::fmt("elem %lu: push[t%d %lu..%lu] pop[t%d %lu..%lu]\n", (unsigned long)id, e.pusher, (unsigned long)e.push_call,
                 (unsigned long)e.push_ret, e.popper, (unsigned long)e.pop_call, (unsigned long)e.pop_ret);
  };
  one(id_a);
  one(id_b);
  return o;
}

OracleStats oracle(World& w, bool drained) {
  OracleStats st;
  if (w.as_c02) {
    // C02 decides progress only; the value oracles belong to C01
    for (auto& e : w.elems) st.elements += e.pushes.load(std::memory_order_relaxed);
    for (auto& v : w.ops) st.ops += v.size();
    return st;
  }
  // (1) conservation
  uint64_t pushed = 0, popped = 0;
  for (uint64_t id = 0; id < w.elems.size(); ++id) {
    Elem& e = w.elems[id];
    uint32_t pu = e.pushes.load(std::memory_order_relaxed), po = e.pops.load(std::memory_order_relaxed);
    pushed += pu;
    popped += po;
    if (po > 0 && pu == 0) {
      vf::violation("invented-element", vf::fmt("element id=%lu was delivered but never pushed", (unsigned long)id), history_slice(w, id, id));
    }
    if (drained && pu > 0 && po == 0) {
      vf::violation("lost-element", vf::fmt("element id=%lu was pushed (push returned) but never delivered, queue drained", (unsigned long)id),
                    history_slice(w, id, id));
    }
    if (pu && po && e.pop_ret < e.push_call) {
      vf::violation("popped-before-pushed", vf::fmt("element id=%lu: pop returned before its push was called", (unsigned long)id),
                    history_slice(w, id, id));
    }
  }
  st.elements = pushed;
  // (2) real-time FIFO: no a,b with push(a).ret < push(b).call and pop(b).ret < pop(a).call
  std::vector<uint64_t> by_ret, by_call;
  for (uint64_t id = 0; id < w.elems.size(); ++id) {
    Elem& e = w.elems[id];
    if (e.pushes.load(std::memory_order_relaxed) == 1 && e.pops.load(std::memory_order_relaxed) == 1) {
      by_ret.push_back(id);
      by_call.push_back(id);
    }
  }
  std::sort(by_ret.begin(), by_ret.end(), [&](uint64_t a, uint64_t b) { return w.elems[a].push_ret < w.elems[b].push_ret; });
  std::sort(by_call.begin(), by_call.end(), [&](uint64_t a, uint64_t b) { return w.elems[a].push_call < w.elems[b].push_call; });
  size_t j = 0;
  uint64_t max_pop_call = 0, max_id = UINT64_MAX;
  for (uint64_t b : by_call) {
    while (j < by_ret.size() && w.elems[by_ret[j]].push_ret < w.elems[b].push_call) {
      uint64_t a = by_ret[j++];
      if (w.elems[a].pop_call > max_pop_call) { max_pop_call = w.elems[a].pop_call; max_id = a; }
    }
    if (max_id != UINT64_MAX) {
      ++st.fifo_pairs_ordered;
      if (w.elems[b].pop_ret < max_pop_call) {
        vf::violation("fifo-order",
                      vf::fmt("element %lu was pushed strictly after element %lu (push returned before the later push began) "
                              "but popped strictly before it", (unsigned long)b, (unsigned long)max_id),
                      history_slice(w, max_id, b));
        break;
      }
    }
  }
  // (3) try_ legitimacy: a short try_ op that overlaps no other operation must match the exact count
  std::vector<OpRec> all;
  for (auto& v : w.ops) all.insert(all.end(), v.begin(), v.end());
  st.ops = all.size();
  std::sort(all.begin(), all.end(), [](const OpRec& a, const OpRec& b) { return a.call < b.call; });
  uint64_t prefix_max_ret = 0;
  int64_t net = 0;  // elements in queue after all ops before i (valid only when none overlaps)
  for (size_t i = 0; i < all.size(); ++i) {
    const OpRec& x = all[i];
    bool tr = is_try(x.kind) || x.kind == TIMED_POP_N;
    if (tr && x.done < x.want) {
      ++st.try_short;
      bool overlapped = prefix_max_ret >= x.call || (i + 1 < all.size() && all[i + 1].call <= x.ret);
      if (!overlapped) {
        ++st.try_short_solo;
        int64_t avail = is_push(x.kind) ? int64_t(w.ep.capacity) - net : net;
        int64_t expect = std::min<int64_t>(int64_t(x.want), std::max<int64_t>(avail, 0));
        if (int64_t(x.done) != expect) {
          vf::violation("try-spurious-failure",
                        vf::fmt("%s(want=%u) moved %u although no other operation overlapped it and exactly %ld elements were in a "
                                "queue of capacity %zu (expected %ld)", kOpNames[x.kind], x.want, x.done, (long)net, w.ep.capacity,
                                (long)expect),
                        w.ep.describe());
        }
      }
    }
    if (x.ret > prefix_max_ret) prefix_max_ret = x.ret;
    if (is_push(x.kind)) net += int64_t(x.done) - int64_t(x.rev);
    else net += int64_t(x.rev) - int64_t(x.done);
  }
  return st;
}

uint64_t fingerprint(World& w) {
  // schedule-dependent part: (pusher, popper) of the first 256 deliveries in pop order
  std::vector<std::pair<uint64_t, uint32_t>> seq;
  for (uint64_t id = 0; id < w.elems.size(); ++id) {
    Elem& e = w.elems[id];
    if (e.pops.load(std::memory_order_relaxed)) seq.push_back({e.pop_call, uint32_t(e.pusher * 64 + e.popper)});
  }
  std::sort(seq.begin(), seq.end());
  uint64_t h = vf::mix(w.ep.capacity, uint64_t(w.ep.producers), uint64_t(w.ep.consumers),
                       std::hash<std::string> {}(w.ep.mode + "/" + vf::args().variant));
  for (size_t i = 0; i < seq.size() && i < 256; ++i) h = vf::mix(h, seq[i].second);
  return h;
}

////////////////////////////////////////////////////////////////////////////////
// world setup / teardown
void setup(World& w, const Episode& ep, int threads, uint64_t stride) {
  w.ep = ep;
  w.q = new Queue(ep.capacity);
  w.stride = stride;
  w.elems = std::vector<Elem>(size_t(threads) * stride);
  w.busy = std::vector<std::atomic<uint8_t>>(w.q->capacity());
  for (auto& b : w.busy) b.store(0, std::memory_order_relaxed);
  w.ops.assign(size_t(threads), {});
  w.next_id.assign(size_t(threads), 0);
  w.pushed_returned.store(0);
  w.popped_returned.store(0);
  w.producers_done.store(0);
  w.ep.capacity = w.q->capacity();
}
void teardown(World& w) {
  delete w.q;
  w.q = nullptr;
}

uint64_t rare_total() {
  uint64_t s = 0;
  for (const char* n : {"point:bq:wait_registered", "point:bq:try_cas_lost", "point:bq:try_n_cas_lost", "point:bq:compensate",
                        "point:bq:wait_cas_failed", "rare:round_split", "point:bq:batch_before_wake", "point:bq:single_before_wake"})
    s += vf::counter_value(n);
  return s;
}

const std::vector<std::string> kStallPoints = {
    "bq:single_before_wake", "bq:batch_before_wake", "bq:wait_cas_failed", "bq:wait_registered", "bq:push_ticket",
    "bq:push_n_ticket", "bq:pop_ticket", "bq:pop_n_ticket", "bq:try_before_cas", "bq:try_n_before_cas",
    "bq:batch_versions_stored", "bq:compensate", "futex:before_wait", "futex:before_wake", "cb:push_mid", "cb:pop_mid"};

void finish_episode(World& w, bool drained, uint64_t rare_before) {
  vf::disable_policy();
  OracleStats st = oracle(w, drained);
  VF_COUNT_N("obs:elements", st.elements);
  VF_COUNT_N("obs:ops", st.ops);
  VF_COUNT_N("obs:try_short", st.try_short);
  VF_COUNT_N("obs:try_short_not_overlapped", st.try_short_solo);
  VF_COUNT_N("obs:fifo_ordered_elements", st.fifo_pairs_ordered);
  bool nontrivial = rare_total() > rare_before;
  vf::evaluated(fingerprint(w), nontrivial);
  if (w.ep.index < 3 || vf::report().samples.size() < 3) {
    std::string hist;
    int n = 0;
    for (auto& v : w.ops)
      for (auto& o : v) {
        if (n++ >= 12) break;
        hist += vf::fmt("%st%d:%s(%u)->%u", hist.empty() ? "" : " ", o.thread, kOpNames[o.kind], o.want, o.done);
      }
    vf::sample("{\"config\": " + vf::jstr(w.ep.describe()) + ", \"elements\": " + std::to_string(st.elements) +
               ", \"ops\": " + std::to_string(st.ops) + ", \"first_ops\": " + vf::jstr(hist) + "}", 3);
  }
}

////////////////////////////////////////////////////////////////////////////////
// mode: blocking
void run_blocking(uint64_t seed, uint64_t index, bool wrap) {
  vf::Rng r(vf::mix(seed, index, wrap ? 77 : 11));
  Episode ep;
  ep.seed = seed; ep.index = index; ep.mode = wrap ? "wrap" : "blocking";
  if (wrap) {
    ep.capacity = r.pick<size_t>({1, 2});
    ep.producers = int(r.range(1, 2));
    ep.consumers = int(r.range(1, 2));
    ep.total = (uint64_t(1) << 16) * ep.capacity + 5000 + r.below(3000);  // every slot passes version 65535 -> 0
  } else {
    ep.capacity = r.pick<size_t>({1, 2, 4, 8, 64});
    ep.producers = int(r.range(1, 6));
    ep.consumers = int(r.range(1, 6));
    ep.total = r.range(200, vf::args().thorough ? 6000 : 2500);
  }
  ep.push_wait_futex = r.chance(2, 3);
  ep.pop_wait_futex = r.chance(2, 3);
  ep.push_concurrent = ep.producers > 1 || r.chance(1, 2);
  ep.pop_concurrent = ep.consumers > 1 || r.chance(1, 2);
  ep.max_batch = ep.capacity;
  ep.pin = wrap ? 0 : int(r.pick<int>({0, 0, 0, 1, 2, 3}));
  if (wrap) {
    vf::policy().enabled.store(false);
    ep.policy = "none";
    vf::disable_policy();
  } else {
    ep.policy = vf::draw_policy(r, kStallPoints, 300, 15000);
  }
  int threads = ep.producers + ep.consumers;
  World w;
  g_world = &w;
  w.as_c02 = vf::args().kv.count("as") && vf::args().kv.at("as") == "C02";
  // quotas
  std::vector<uint64_t> quota(size_t(threads), 0);
  for (uint64_t i = 0; i < ep.total; ++i) quota[r.below(uint64_t(ep.producers))]++;
  for (uint64_t i = 0; i < ep.total; ++i) quota[size_t(ep.producers) + r.below(uint64_t(ep.consumers))]++;
  uint64_t stride = 0;
  for (int t = 0; t < ep.producers; ++t) stride = std::max(stride, quota[size_t(t)]);
  setup(w, ep, threads, stride + 1);
  uint64_t rare_before = rare_total();
  vf::watchdog().set_context(w.ep.describe());
  vf::pin_cpus(ep.pin);
  vf::watchdog().arm(true);
  uint64_t ep_seed = vf::mix(seed, index, 0xb10c);
  vf::run_threads(threads, ep_seed, [&](int t) {
    vf::Rng tr(vf::mix(ep_seed, uint64_t(t), 5));
    Performer p(w, t);
    bool producer = t < w.ep.producers;
    uint64_t left = quota[size_t(t)];
    while (left > 0 && !vf::failed()) {
      size_t maxb = size_t(std::min<uint64_t>(left, w.ep.max_batch));
      uint32_t n = 1;
      OpKind k;
      uint8_t flags;
      if (producer) {
        // consumers that futex-wait need every push-side version change to wake
        bool wake = w.ep.pop_wait_futex ? true : tr.chance(1, 2);
        flags = mk_flags(w.ep.push_concurrent, w.ep.push_wait_futex, wake);
        switch (tr.below(wrap ? 4 : 10)) {
          case 0: k = PUSH_V; break;
          case 1: k = PUSH_CB; break;
          case 2: k = PUSH_N_IT; n = uint32_t(tr.range(1, maxb)); break;
          case 3: k = PUSH_N_CB; n = uint32_t(tr.range(1, maxb)); break;
          case 4: k = TRY_PUSH_V; break;
          case 5: k = TRY_PUSH_CB; break;
          case 6: case 7: k = TRY_PUSH_N; n = uint32_t(tr.range(1, maxb)); break;
          case 8:
            // default overloads = <true, true, true>: they futex-wait, so they are only legal
            // when every pop-side operation of the episode wakes (push_wait_futex episodes)
            if (!w.ep.push_wait_futex) { k = PUSH_CB; break; }
            k = PUSH_DEFAULT; n = tr.chance(1, 2) ? 1 : uint32_t(tr.range(1, maxb)); flags = uint8_t(tr.chance(1, 2) ? 8 : 0); break;
          default: k = TRY_PUSH_DEFAULT; flags = uint8_t(tr.chance(1, 2) ? 8 : 0); break;
        }
      } else {
        bool wake = w.ep.push_wait_futex ? true : tr.chance(1, 2);
        flags = mk_flags(w.ep.pop_concurrent, w.ep.pop_wait_futex, wake);
        switch (tr.below(wrap ? 5 : 11)) {
          case 0: k = POP_V; break;
          case 1: k = POP_P; break;
          case 2: k = POP_CB; break;
          case 3: k = POP_N_IT; n = uint32_t(tr.range(1, maxb)); break;
          case 4: k = POP_N_CB; n = uint32_t(tr.range(1, maxb)); break;
          case 5: k = TRY_POP_V; break;
          case 6: k = TRY_POP_CB; break;
          case 7: case 8: k = TRY_POP_N; n = uint32_t(tr.range(1, maxb)); break;
          case 9:
            if (!w.ep.pop_wait_futex) { k = POP_CB; break; }
            k = POP_DEFAULT; n = tr.chance(1, 2) ? 1 : uint32_t(tr.range(1, maxb));
            flags = uint8_t(tr.pick<int>({0, 8, 16})); break;
          default: k = TRY_POP_DEFAULT; flags = uint8_t(tr.chance(1, 2) ? 8 : 0); break;
        }
      }
      uint32_t done = p.run(k, flags, n);
      left -= done;
      if (is_try(k) && done == 0) {
        VF_COUNT("obs:try_failed");
        if (tr.chance(1, 4)) ::sched_yield();
      }
    }
    if (producer) w.producers_done.fetch_add(1, std::memory_order_relaxed);
  });
  vf::watchdog().arm(false);
  vf::pin_cpus(0);
  if (!vf::failed()) {
    // queue must now be empty: a further try_pop fails
    Item tmp;
    if (!w.as_c02 && w.q->try_pop<true, true>(tmp)) {
      vf::violation("invented-element", "queue not empty after balanced episode: try_pop produced an extra element", w.ep.describe());
    }
  }
  finish_episode(w, true, rare_before);
  teardown(w);
  g_world = nullptr;
}

////////////////////////////////////////////////////////////////////////////////
// mode: compensating
void run_compensating(uint64_t seed, uint64_t index) {
  vf::Rng r(vf::mix(seed, index, 22));
  Episode ep;
  ep.seed = seed; ep.index = index; ep.mode = "compensating";
  ep.capacity = r.pick<size_t>({1, 2, 4, 8, 32});
  ep.producers = int(r.range(2, 7));  // all threads are two-sided
  ep.consumers = 0;
  ep.max_batch = ep.capacity;
  ep.pin = int(r.pick<int>({0, 0, 1, 2}));
  ep.policy = vf::draw_policy(r, kStallPoints, 200, 8000);
  uint64_t ops_per_thread = r.range(100, vf::args().thorough ? 1500 : 600);
  ep.total = ops_per_thread;
  int threads = ep.producers;
  World w;
  g_world = &w;
  w.as_c02 = vf::args().kv.count("as") && vf::args().kv.at("as") == "C02";
  setup(w, ep, threads + 1, ops_per_thread * (ep.capacity + 1) + 8);
  uint64_t rare_before = rare_total();
  vf::watchdog().set_context(w.ep.describe());
  vf::pin_cpus(ep.pin);
  vf::watchdog().arm(true);
  uint64_t ep_seed = vf::mix(seed, index, 0xc0de);
  vf::run_threads(threads, ep_seed, [&](int t) {
    vf::Rng tr(vf::mix(ep_seed, uint64_t(t), 6));
    Performer p(w, t);
    for (uint64_t i = 0; i < ops_per_thread && !vf::failed(); ++i) {
      uint32_t n = uint32_t(tr.range(1, w.ep.max_batch));
      uint8_t flags = mk_flags(true, false, tr.chance(1, 2));
      switch (tr.below(8)) {
        case 0: case 1: p.run(COMP_PUSH_N, 0, n); break;
        case 2: case 3: p.run(COMP_POP_N, 0, n); break;
        case 4: p.run(TRY_PUSH_N, flags, n); break;
        case 5: p.run(TRY_POP_N, flags, n); break;
        case 6: p.run(tr.chance(1, 2) ? TRY_PUSH_CB : TRY_PUSH_V, flags, 1); break;
        default: p.run(tr.chance(1, 2) ? TRY_POP_CB : TRY_POP_V, flags, 1); break;
      }
    }
  });
  vf::watchdog().arm(false);
  vf::pin_cpus(0);
  // drain from the main thread (logical id = threads)
  vf::thread_begin(ep_seed, threads);
  {
    Performer p(w, threads);
    while (!vf::failed() && p.run(TRY_POP_N, mk_flags(true, false, false), uint32_t(w.ep.capacity)) > 0) {}
  }
  vf::thread_end();
  finish_episode(w, true, rare_before);
  teardown(w);
  g_world = nullptr;
}

////////////////////////////////////////////////////////////////////////////////
// mode: solo — sequential agreement with a deque model (try_* exactness, all flags)
void run_solo(uint64_t seed, uint64_t index) {
  vf::Rng r(vf::mix(seed, index, 33));
  Episode ep;
  ep.seed = seed; ep.index = index; ep.mode = "solo";
  ep.capacity = r.pick<size_t>({1, 2, 3, 4, 7, 8, 16});
  ep.producers = 1; ep.consumers = 0;
  ep.policy = "none";
  vf::disable_policy();
  uint64_t nops = r.range(200, 2000);
  ep.total = nops;
  World w;
  g_world = &w;
  setup(w, ep, 1, nops * 17 + 8);
  ep.capacity = w.q->capacity();
  uint64_t rare_before = rare_total();
  vf::thread_begin(seed, 0);
  Performer p(w, 0);
  std::deque<uint64_t> model;
  uint64_t mismatches = 0;
  for (uint64_t i = 0; i < nops && !vf::failed(); ++i) {
    size_t cap = w.ep.capacity;
    uint32_t n = uint32_t(r.range(1, cap));
    uint8_t flags = uint8_t(r.below(8));  // no other thread: every combination is legal
    size_t free_slots = cap - model.size();
    OpKind k;
    uint32_t expect;
    bool push;
    switch (r.below(12)) {
      case 0: k = TRY_PUSH_N; push = true; expect = uint32_t(std::min<size_t>(n, free_slots)); break;
      case 1: k = TRY_POP_N; push = false; expect = uint32_t(std::min<size_t>(n, model.size())); break;
      case 2: k = r.chance(1, 2) ? TRY_PUSH_V : TRY_PUSH_CB; push = true; n = 1; expect = free_slots ? 1 : 0; break;
      case 3: k = r.chance(1, 2) ? TRY_POP_V : TRY_POP_CB; push = false; n = 1; expect = model.empty() ? 0 : 1; break;
      case 4: k = TRY_PUSH_DEFAULT; push = true; n = 1; flags = uint8_t(r.chance(1, 2) ? 8 : 0); expect = free_slots ? 1 : 0; break;
      case 5: k = TRY_POP_DEFAULT; push = false; n = 1; flags = uint8_t(r.chance(1, 2) ? 8 : 0); expect = model.empty() ? 0 : 1; break;
      case 6:  // blocking push only when it cannot block
        if (free_slots == 0) continue;
        n = uint32_t(r.range(1, free_slots)); push = true; expect = n;
        k = OpKind(r.pick<int>({PUSH_V, PUSH_CB, PUSH_N_IT, PUSH_N_CB, PUSH_DEFAULT}));
        if (k == PUSH_V || k == PUSH_CB) { n = 1; expect = 1; }
        if (k == PUSH_DEFAULT) flags = uint8_t(r.chance(1, 2) ? 8 : 0);
        break;
      case 7:
        if (model.empty()) continue;
        n = uint32_t(r.range(1, model.size())); push = false; expect = n;
        k = OpKind(r.pick<int>({POP_V, POP_P, POP_CB, POP_N_IT, POP_N_CB, POP_DEFAULT}));
        if (k == POP_V || k == POP_P || k == POP_CB) { n = 1; expect = 1; }
        if (k == POP_DEFAULT) flags = uint8_t(r.pick<int>({0, 8, 16})), n = (flags & 16) ? 1 : n, expect = n;
        break;
      case 8: k = COMP_PUSH_N; push = true; expect = n; break;   // pops min(needed) via reverse callback when full
      case 9: k = COMP_POP_N; push = false; expect = n; break;   // pushes via reverse callback when empty
      case 10: {  // timed exclusive pop with a tiny timeout
        k = TIMED_POP_N; push = false; expect = uint32_t(std::min<size_t>(n, model.size()));
        break;
      }
      default: {  // size() is exact when nothing is in flight
        if (w.q->size() != model.size()) {
          vf::violation("size-mismatch", vf::fmt("size()=%zu but the sequential model holds %zu", w.q->size(), model.size()), w.ep.describe());
        }
        continue;
      }
    }
    struct ::timespec ts {0, long(r.range(0, 200000))};
    uint32_t done = p.run(k, flags, n, &ts);
    // apply to model
    if (k == COMP_PUSH_N) {
      // reverse pops happen first as needed (one at a time) until n slots are free
      for (uint64_t id : p.rev_ids) {
        if (model.empty() || model.front() != id) { ++mismatches; vf::violation("solo-model-mismatch", "compensating push_n popped an element that is not the model's front", w.ep.describe()); break; }
        model.pop_front();
      }
      if (p.rev_ids.size() != (n > free_slots ? n - free_slots : 0)) {
        vf::violation("solo-model-mismatch", vf::fmt("compensating push_n(%u) with %zu free slots compensated %zu pops", n, free_slots, p.rev_ids.size()), w.ep.describe());
      }
      for (uint64_t id : p.ids) model.push_back(id);
    } else if (k == COMP_POP_N) {
      size_t have = model.size();
      if (p.rev_ids.size() != (n > have ? n - have : 0)) {
        vf::violation("solo-model-mismatch", vf::fmt("compensating pop_n(%u) with %zu elements compensated %zu pushes", n, have, p.rev_ids.size()), w.ep.describe());
      }
      for (uint64_t id : p.rev_ids) model.push_back(id);
      for (uint64_t id : p.ids) {
        if (model.empty() || model.front() != id) { vf::violation("solo-model-mismatch", "compensating pop_n delivered an element that is not the model's front", w.ep.describe()); break; }
        model.pop_front();
      }
    } else if (push) {
      for (uint64_t id : p.ids) model.push_back(id);
    } else {
      for (uint64_t id : p.ids) {
        if (model.empty() || model.front() != id) {
          vf::violation("solo-model-mismatch", vf::fmt("%s delivered id %lu but the model's front is %ld", kOpNames[k], (unsigned long)id,
                                                       model.empty() ? -1L : long(model.front())), w.ep.describe());
          break;
        }
        model.pop_front();
      }
    }
    if (done != expect) {
      vf::violation(is_try(k) || k == TIMED_POP_N ? "try-spurious-failure" : "solo-model-mismatch",
                    vf::fmt("sequential %s(n=%u, flags=%u) moved %u elements, the deque model says %u (size before=%zu cap=%zu)",
                            kOpNames[k], n, flags, done, expect, push ? cap - free_slots : cap - free_slots, cap), w.ep.describe());
    }
    VF_COUNT("obs:solo_ops");
  }
  // drain
  while (!vf::failed() && p.run(TRY_POP_N, 7, uint32_t(w.ep.capacity)) > 0) {
    for (uint64_t id : p.ids) { if (!model.empty() && model.front() == id) model.pop_front(); else { vf::violation("solo-model-mismatch", "drain order differs from model", w.ep.describe()); break; } }
  }
  if (!model.empty() && !vf::failed()) vf::violation("lost-element", "sequential drain left elements in the model", w.ep.describe());
  vf::thread_end();
  (void)mismatches;
  (void)rare_before;
  OracleStats st = oracle(w, true);
  VF_COUNT_N("obs:elements", st.elements);
  VF_COUNT_N("obs:ops", st.ops);
  VF_COUNT_N("obs:try_short", st.try_short);
  VF_COUNT_N("obs:try_short_not_overlapped", st.try_short_solo);
  // distinct = distinct op sequences; non-trivial = at least one short try_ and one compensation
  uint64_t fp = vf::mix(seed, index, ep.capacity, nops);
  vf::evaluated(fp, st.try_short > 0);
  teardown(w);
  g_world = nullptr;
}

////////////////////////////////////////////////////////////////////////////////
// mode: timed — single exclusive consumer with try_pop_n_exclusively_until
void run_timed(uint64_t seed, uint64_t index) {
  vf::Rng r(vf::mix(seed, index, 44));
  Episode ep;
  ep.seed = seed; ep.index = index; ep.mode = "timed";
  ep.capacity = r.pick<size_t>({1, 2, 4, 16, 64});
  ep.producers = int(r.range(1, 4));
  ep.consumers = 1;
  ep.total = r.range(100, 400);
  ep.push_wait_futex = r.chance(1, 2);
  ep.pop_wait_futex = true;  // the timed pop always futex-waits => pushes must wake
  ep.push_concurrent = ep.producers > 1 || r.chance(1, 2);
  ep.pop_concurrent = false;
  ep.max_batch = ep.capacity;
  ep.policy = vf::draw_policy(r, kStallPoints, 200, 8000);
  int threads = ep.producers + 1;
  World w;
  g_world = &w;
  w.as_c02 = true;
  std::vector<uint64_t> quota(size_t(ep.producers), 0);
  for (uint64_t i = 0; i < ep.total; ++i) quota[r.below(uint64_t(ep.producers))]++;
  uint64_t stride = 0;
  for (auto q : quota) stride = std::max(stride, q);
  setup(w, ep, threads, stride + 1);
  uint64_t rare_before = rare_total();
  vf::watchdog().set_context(w.ep.describe());
  vf::watchdog().arm(true);
  uint64_t ep_seed = vf::mix(seed, index, 0x71ed);
  struct Timed { uint64_t call, ret; double t0, t1, timeout_s; uint32_t want, done; };
  std::vector<Timed> timed;
  vf::run_threads(threads, ep_seed, [&](int t) {
    vf::Rng tr(vf::mix(ep_seed, uint64_t(t), 7));
    Performer p(w, t);
    if (t < w.ep.producers) {
      uint64_t left = quota[size_t(t)];
      while (left > 0 && !vf::failed()) {
        uint32_t n = 1;
        OpKind k = OpKind(tr.pick<int>({PUSH_V, PUSH_CB, PUSH_N_CB, PUSH_N_IT, TRY_PUSH_N, TRY_PUSH_CB}));
        if (k == PUSH_N_CB || k == PUSH_N_IT || k == TRY_PUSH_N) n = uint32_t(tr.range(1, std::min<uint64_t>(left, w.ep.max_batch)));
        // the consumer wakes producers only if its pop uses USE_FUTEX_WAKE; it does when push_wait_futex
        left -= p.run(k, mk_flags(w.ep.push_concurrent, w.ep.push_wait_futex, true), n);
        if (tr.chance(1, 8)) vf::raw_sleep_us(tr.range(10, 3000));
      }
      w.producers_done.fetch_add(1, std::memory_order_relaxed);
    } else {
      uint64_t got = 0;
      while (got < w.ep.total && !vf::failed()) {
        uint32_t n = uint32_t(tr.range(1, w.ep.capacity));
        long us = long(tr.pick<long>({0, 50, 200, 1000, 1000, 5000, 20000}));
        struct ::timespec ts {us / 1000000, (us % 1000000) * 1000};
        double t0 = vf::now_s();
        uint8_t flags = uint8_t(w.ep.push_wait_futex ? 1 : tr.below(2));
        uint32_t done = p.run(TIMED_POP_N, flags, n, &ts);
        double t1 = vf::now_s();
        auto& o = w.ops[size_t(t)].back();
        timed.push_back({o.call, o.ret, t0, t1, double(us) * 1e-6, n, done});
        got += done;
        if (done < n) VF_COUNT("rare:timed_pop_short"); else VF_COUNT("obs:timed_pop_full");
      }
    }
  });
  vf::watchdog().arm(false);
  // timed-pop oracle
  if (!vf::failed()) {
    std::vector<OpRec> pushes;
    for (int t = 0; t < ep.producers; ++t) pushes.insert(pushes.end(), w.ops[size_t(t)].begin(), w.ops[size_t(t)].end());
    std::sort(pushes.begin(), pushes.end(), [](const OpRec& a, const OpRec& b) { return a.call < b.call; });
    uint64_t popped_before = 0;
    for (auto& x : timed) {
      double late = (x.t1 - x.t0) - x.timeout_s;
      if (late > 5.0) {
        vf::violation("timed-pop-late", vf::fmt("try_pop_n_exclusively_until(timeout %.3fs) returned %.3fs after its deadline", x.timeout_s, late),
                      w.ep.describe());
      }
      if (late > 0.25) VF_COUNT("obs:timed_pop_late_250ms");
      // lower bound: if no push was in flight at the call, everything pushed before is available
      uint64_t completed = 0;
      bool inflight = false;
      for (auto& pu : pushes) {
        if (pu.call >= x.call) break;
        if (pu.ret < x.call) completed += pu.done; else inflight = true;
      }
      if (!inflight) {
        uint64_t avail = completed - popped_before;
        if (x.done < std::min<uint64_t>(x.want, avail)) {
          vf::violation("timed-pop-short",
                        vf::fmt("try_pop_n_exclusively_until(n=%u) returned %u although %lu elements had been completely pushed "
                                "and no push was in flight when it was called", x.want, x.done, (unsigned long)avail), w.ep.describe());
        }
        VF_COUNT("obs:timed_pop_lower_bound_checked");
      }
      popped_before += x.done;
    }
  }
  finish_episode(w, true, rare_before);
  teardown(w);
  g_world = nullptr;
}

}  // namespace

int main(int argc, char** argv) {
  vf::init(argc, argv, "C01", "c01_queue");
  auto& a = vf::args();
  bool as_c02 = a.kv.count("as") && a.kv.at("as") == "C02";
  if (as_c02) vf::report().property = "C02";
  std::string mode = a.mode.empty() ? "all" : a.mode;
  auto& wd = vf::watchdog();
  wd.changed_word_is_lost_wakeup = as_c02;
  wd.classify = [as_c02]() -> std::string {
    World* w = g_world;
    if (!w) return "";
    if (w->ep.mode == "solo") return "stuck:sequential-op-never-returned";
    if (as_c02) return "stuck:balanced-workload";
    // C01: only a provable loss — every producer finished all its pushes, consumers still wait
    if ((w->ep.mode == "blocking" || w->ep.mode == "wrap") && w->producers_done.load() == w->ep.producers &&
        !vf::any_sleeper_with_changed_word())
      return "stuck:elements-pushed-but-never-delivered";
    return "";
  };
  wd.dump_extra = []() -> std::string {
    World* w = g_world;
    if (!w || !w->q) return "";
    std::string o = vf::fmt("queue: next_push_index=%zu next_pop_index=%zu capacity=%zu pushed_returned=%lu popped_returned=%lu\nslots:",
                            w->q->_next_push_index.load(), w->q->_next_pop_index.load(), w->q->capacity(),
                            (unsigned long)w->pushed_returned.load(), (unsigned long)w->popped_returned.load());
    for (size_t i = 0; i < w->q->capacity() && i < 64; ++i) o += vf::fmt(" [%zu]=0x%x", i, w->q->_slots.futex(i)._futex.value().load());
    return o + "\n";
  };
  wd.start();

  uint64_t n_block = 0, n_comp = 0, n_solo = 0, n_timed = 0, n_wrap = 0;
  if (mode == "all") {
    n_block = vf::budget(as_c02 ? 120 : 90, 4000);
    n_comp = as_c02 ? 0 : vf::budget(40, 2000);
    n_solo = as_c02 ? 0 : vf::budget(60, 4000);
    n_timed = as_c02 ? vf::budget(30, 1500) : 0;
    n_wrap = vf::budget(1, 16);
  } else if (mode == "blocking") n_block = vf::budget(60, 3000);
  else if (mode == "compensating") n_comp = vf::budget(40, 2000);
  else if (mode == "solo") n_solo = vf::budget(60, 5000);
  else if (mode == "timed") n_timed = vf::budget(30, 1500);
  else if (mode == "wrap") n_wrap = vf::budget(1, 16);
  uint64_t e = 0;
  auto want = [&](uint64_t idx) { return a.only_episode < 0 || uint64_t(a.only_episode) == idx; };
  for (uint64_t i = 0; i < n_block && !vf::failed(); ++i, ++e) if (want(e)) run_blocking(a.seed, e, false);
  for (uint64_t i = 0; i < n_comp && !vf::failed(); ++i, ++e) if (want(e)) run_compensating(a.seed, e);
  for (uint64_t i = 0; i < n_solo && !vf::failed(); ++i, ++e) if (want(e)) run_solo(a.seed, e);
  for (uint64_t i = 0; i < n_timed && !vf::failed(); ++i, ++e) if (want(e)) run_timed(a.seed, e);
  for (uint64_t i = 0; i < n_wrap && !vf::failed(); ++i, ++e) if (want(e)) run_blocking(a.seed, e, true);
  wd.shutdown();
  vf::extra("fence_paths", "\"TSan-annotated batch paths: fence strength not decidable by this family on x86 (DESIGN §1)\"");
  return vf::finish();
}
