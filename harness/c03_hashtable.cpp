// C03 — ConcurrentFixedSwissTable / ConcurrentTransientHashSet / ConcurrentTransientHashMap:
// linearizable insert-if-absent, one winner per key (DESIGN §5 C03).
//
// Many short episodes: construct a table, run 2..16 threads over a small key
// universe with an adversarial hasher (identity / constant 7-bit tag / constant
// group / full collision / mixed), join, run the per-key oracle over the stamped
// call/return history, check membership at quiescence through find() only,
// destroy the table, check constructor/destructor and operator new/delete balance.
//
// modes: fixed (ConcurrentFixedSwissTable filled to exactly full, move-only element),
//        set   (ConcurrentTransientHashSet, default / 16 / 32 / 1024 initial buckets, growth),
//        map   (ConcurrentTransientHashMap with move-only mapped value),
//        all   (default: the three in turn).
//
// size()/empty()/iteration/copy of the growing containers are C18's business and
// are deliberately not used here (membership only through find()).
#include <malloc.h>

#include <memory>
#include <new>
#include <unordered_map>

#include "common/vf.h"

#include "babylon/concurrent/transient_hash_table.h"

////////////////////////////////////////////////////////////////////////////////
// Allocation accounting (DESIGN §2.5): global operator new/delete replaced by
// wrappers that follow the table blocks of the current episode *by pointer
// identity* (block sizes collide with unrelated allocations, e.g. the
// thread-local storage blocks of ConcurrentAdder):
//  * the buffer of the head / fixed table is registered after construction;
//  * a growth step allocates `new TableNode{...}` between the library hook points
//    ht:grow_before_new and ht:grow_before_cas; the harness' point hook opens a
//    thread-local recording window there, picks the TableNode allocation out of
//    it and registers the node and its table buffer (CAS losers included).
// At the end of the episode every registered block must have been freed exactly
// by the destruction of the container (or by the loser's `delete new_node`).
// Monitor state is relaxed atomics only: no happens-before edge is added
// between the threads under test.
namespace vfacct {
constexpr int kMax = 1024;
struct State {
  std::atomic<bool> on;
  std::atomic<int> n;
  std::atomic<uintptr_t> ptr[kMax];
  std::atomic<uint32_t> freed[kMax];
  std::atomic<uint8_t> is_node[kMax];
  std::atomic<uint64_t> overflow;
  std::atomic<uint64_t> window_without_node;
};
static State g;  // zero-initialised static storage: usable before main()

struct Rec { void* p; size_t sz; size_t al; };
struct Window {
  bool open;
  int n;
  Rec rec[8];
};
static thread_local Window tl_win;  // constant-initialised: safe inside operator new

inline void track(void* p, bool node) {
  int i = g.n.fetch_add(1, std::memory_order_relaxed);
  if (i >= kMax) { g.overflow.fetch_add(1, std::memory_order_relaxed); return; }
  g.freed[i].store(0, std::memory_order_relaxed);
  g.is_node[i].store(node ? 1 : 0, std::memory_order_relaxed);
  g.ptr[i].store(reinterpret_cast<uintptr_t>(p), std::memory_order_relaxed);
}
inline void note_free(void* p) {
  int n = g.n.load(std::memory_order_relaxed);
  if (n > kMax) n = kMax;
  for (int i = n - 1; i >= 0; --i) {  // newest first: an address may be reused after a loser's delete
    if (g.ptr[i].load(std::memory_order_relaxed) == reinterpret_cast<uintptr_t>(p)) {
      uint32_t expect = 0;  // an already freed entry: the address was reused by an untracked block
      if (g.freed[i].compare_exchange_strong(expect, 1, std::memory_order_relaxed)) return;
    }
  }
}
inline void* alloc(size_t sz, size_t al) {
  void* p = nullptr;
  if (al <= alignof(std::max_align_t)) {
    p = ::malloc(sz ? sz : 1);
  } else if (::posix_memalign(&p, al, sz ? sz : 1) != 0) {
    p = nullptr;
  }
  Window& w = tl_win;
  if (w.open && p && w.n < 8) w.rec[w.n++] = Rec {p, sz, al};
  return p;
}
inline void dealloc(void* p) {
  if (!p) return;
  if (g.on.load(std::memory_order_relaxed)) note_free(p);
  ::free(p);
}
// quiescent only
inline void begin() {
  g.on.store(false, std::memory_order_relaxed);
  int used = std::min(g.n.load(std::memory_order_relaxed), kMax);
  for (int i = 0; i < used; ++i) g.ptr[i].store(0, std::memory_order_relaxed);
  g.n.store(0, std::memory_order_relaxed);
  g.overflow.store(0, std::memory_order_relaxed);
  g.window_without_node.store(0, std::memory_order_relaxed);
  g.on.store(true, std::memory_order_relaxed);
}
inline void end() { g.on.store(false, std::memory_order_relaxed); }
}  // namespace vfacct

void* operator new(size_t sz) {
  void* p = vfacct::alloc(sz, 0);
  if (!p) throw std::bad_alloc();
  return p;
}
void* operator new[](size_t sz) {
  void* p = vfacct::alloc(sz, 0);
  if (!p) throw std::bad_alloc();
  return p;
}
void* operator new(size_t sz, const std::nothrow_t&) noexcept { return vfacct::alloc(sz, 0); }
void* operator new[](size_t sz, const std::nothrow_t&) noexcept { return vfacct::alloc(sz, 0); }
void* operator new(size_t sz, std::align_val_t al) {
  void* p = vfacct::alloc(sz, size_t(al));
  if (!p) throw std::bad_alloc();
  return p;
}
void* operator new[](size_t sz, std::align_val_t al) {
  void* p = vfacct::alloc(sz, size_t(al));
  if (!p) throw std::bad_alloc();
  return p;
}
void* operator new(size_t sz, std::align_val_t al, const std::nothrow_t&) noexcept { return vfacct::alloc(sz, size_t(al)); }
void* operator new[](size_t sz, std::align_val_t al, const std::nothrow_t&) noexcept { return vfacct::alloc(sz, size_t(al)); }
void operator delete(void* p) noexcept { vfacct::dealloc(p); }
void operator delete[](void* p) noexcept { vfacct::dealloc(p); }
void operator delete(void* p, size_t) noexcept { vfacct::dealloc(p); }
void operator delete[](void* p, size_t) noexcept { vfacct::dealloc(p); }
void operator delete(void* p, std::align_val_t) noexcept { vfacct::dealloc(p); }
void operator delete[](void* p, std::align_val_t) noexcept { vfacct::dealloc(p); }
void operator delete(void* p, size_t, std::align_val_t) noexcept { vfacct::dealloc(p); }
void operator delete[](void* p, size_t, std::align_val_t) noexcept { vfacct::dealloc(p); }
void operator delete(void* p, const std::nothrow_t&) noexcept { vfacct::dealloc(p); }
void operator delete[](void* p, const std::nothrow_t&) noexcept { vfacct::dealloc(p); }
void operator delete(void* p, std::align_val_t, const std::nothrow_t&) noexcept { vfacct::dealloc(p); }
void operator delete[](void* p, std::align_val_t, const std::nothrow_t&) noexcept { vfacct::dealloc(p); }

namespace {

////////////////////////////////////////////////////////////////////////////////
// Episode-global configuration read by the (stateless) hasher and the elements.
// Written by the main thread between episodes only (thread creation orders it).
enum HashMode { H_IDENTITY, H_CONST_TAG, H_CONST_GROUP, H_FULL_COLLISION, H_MIXED, H_NMODES };
const char* kHashName[] = {"identity", "const-tag(H2)", "const-group(H1)", "full-collision", "mixed"};
struct HashCfg {
  int mode = H_MIXED;
  uint64_t salt = 0;
  uint64_t ctag = 0;
  uint64_t cgroup = 0;
};
HashCfg g_hc;

inline size_t hash_key(uint64_t k) {
  vf::perturb("cb:ht_hash");
  switch (g_hc.mode) {
    case H_IDENTITY: return size_t(k);
    case H_CONST_TAG: return size_t((vf::mix(k, g_hc.salt) << 7) | (g_hc.ctag & 0x7f));
    case H_CONST_GROUP: return size_t((g_hc.cgroup << 7) | (vf::mix(k, g_hc.salt) & 0x7f));
    case H_FULL_COLLISION: return size_t((g_hc.cgroup << 7) | (g_hc.ctag & 0x7f));
    default: return size_t(vf::mix(k, g_hc.salt));
  }
}

// Growth-window hook (see vfacct): wraps vf::perturb. Episode-global, written at quiescence.
size_t g_node_size = 0;
void* (*g_node_controls)(void*) = nullptr;
void c03_point_hook(const char* name) noexcept {
  if (name[0] == 'h' && name[1] == 't' && name[3] == 'g') {
    if (strcmp(name, "ht:grow_before_new") == 0) {
      vf::perturb(name);  // first: perturb may allocate its counter on first use
      vfacct::Window& w = vfacct::tl_win;
      w.n = 0;
      w.open = true;
      return;
    }
    if (strcmp(name, "ht:grow_before_cas") == 0) {
      vfacct::Window& w = vfacct::tl_win;
      w.open = false;
      void* node = nullptr;
      for (int i = 0; i < w.n; ++i) {
        if (w.rec[i].sz == g_node_size && w.rec[i].al <= alignof(std::max_align_t)) { node = w.rec[i].p; break; }
      }
      if (node != nullptr && g_node_controls != nullptr) {
        vfacct::track(node, true);
        vfacct::track(g_node_controls(node), false);
      } else {
        vfacct::g.window_without_node.fetch_add(1, std::memory_order_relaxed);
      }
      w.n = 0;
    }
  }
  vf::perturb(name);
}

// in-table constructions / destructions (relaxed: monitor state)
std::atomic<uint64_t> g_constructed {0}, g_destroyed {0};

struct Temp {};
inline uint64_t pay(uint64_t key, int j) { return vf::mix(key, 0x51ab + uint64_t(j)); }

// Set / fixed-table element. Plain fields written in the BUSY window with the
// perturbation policy in between: a reader that gets at the slot before the tag
// is published sees a half-written element (checksum failure in plain/asan, a
// data race under TSan).
template <bool COPYABLE>
struct ElemT {
  uint64_t key;
  uint64_t p[4];
  uint64_t sum;
  bool in_table;
  bool moved_from = false;

  void fill(uint64_t k) {
    key = k;
    vf::perturb("cb:ht_ctor");
    p[0] = pay(k, 0);
    p[1] = pay(k, 1);
    vf::perturb("cb:ht_ctor");
    p[2] = pay(k, 2);
    p[3] = pay(k, 3);
    vf::perturb("cb:ht_ctor");
    sum = p[0] ^ p[1] ^ p[2] ^ p[3] ^ k;
    g_constructed.fetch_add(1, std::memory_order_relaxed);
  }
  explicit ElemT(uint64_t k) : in_table(true) { fill(k); }
  ElemT(uint64_t k, Temp) noexcept : key(k), in_table(false) {
    for (int j = 0; j < 4; ++j) p[j] = pay(k, j);
    sum = p[0] ^ p[1] ^ p[2] ^ p[3] ^ k;
  }
  ElemT(const ElemT& o) requires COPYABLE : in_table(true) { fill(o.key); }
  ElemT(ElemT&& o) noexcept : in_table(true) {
    fill(o.key);
    o.moved_from = true;
  }
  ElemT& operator=(const ElemT&) = delete;
  ElemT& operator=(ElemT&&) = delete;
  ~ElemT() {
    if (in_table) g_destroyed.fetch_add(1, std::memory_order_relaxed);
  }
  bool valid_for(uint64_t k) const {
    return key == k && p[0] == pay(k, 0) && p[1] == pay(k, 1) && p[2] == pay(k, 2) && p[3] == pay(k, 3) &&
           sum == (p[0] ^ p[1] ^ p[2] ^ p[3] ^ k);
  }
  std::string dump() const {
    return vf::fmt("{key=%lx p=[%lx,%lx,%lx,%lx] sum=%lx}", (unsigned long)key, (unsigned long)p[0],
                   (unsigned long)p[1], (unsigned long)p[2], (unsigned long)p[3], (unsigned long)sum);
  }
};
template <bool C>
inline bool operator==(const ElemT<C>& a, const ElemT<C>& b) {
  vf::perturb("cb:ht_eq");
  return a.key == b.key;
}
template <bool C>
inline bool operator==(const ElemT<C>& a, const uint64_t& k) {
  vf::perturb("cb:ht_eq");
  return a.key == k;
}
using MoElem = ElemT<false>;
using CpElem = ElemT<true>;

// Map key / move-only mapped value
struct MKey {
  uint64_t k;
  uint64_t chk;
  explicit MKey(uint64_t kk) {
    k = kk;
    vf::perturb("cb:ht_ctor");
    chk = ~kk;
  }
  MKey(const MKey& o) {
    k = o.k;
    vf::perturb("cb:ht_ctor");
    chk = o.chk;
  }
};
inline bool operator==(const MKey& a, const MKey& b) {
  vf::perturb("cb:ht_eq");
  return a.k == b.k;
}
inline bool operator==(const MKey& a, const uint64_t& k) {
  vf::perturb("cb:ht_eq");
  return a.k == k;
}
struct MVal {
  uint64_t a, b, c;
  bool in_table;
  bool moved_from = false;
  void fill(uint64_t aa, uint64_t bb) {
    a = aa;
    vf::perturb("cb:ht_ctor");
    b = bb;
    vf::perturb("cb:ht_ctor");
    c = vf::mix(aa, bb, 0xc0de);
    g_constructed.fetch_add(1, std::memory_order_relaxed);
  }
  MVal() : in_table(true) { fill(0, 0); }                                // operator[] / emplace(key)
  explicit MVal(uint64_t seed) : in_table(true) { fill(seed, ~seed); }  // emplace(key, seed)
  MVal(uint64_t seed, Temp) noexcept : a(seed), b(seed + 1), c(vf::mix(seed, seed + 1, 0xc0de)), in_table(false) {}
  MVal(MVal&& o) noexcept : in_table(true) {
    fill(o.a, o.b);
    o.moved_from = true;
  }
  MVal(const MVal&) = delete;
  MVal& operator=(const MVal&) = delete;
  MVal& operator=(MVal&&) = delete;
  ~MVal() {
    if (in_table) g_destroyed.fetch_add(1, std::memory_order_relaxed);
  }
  bool valid() const { return c == vf::mix(a, b, 0xc0de); }
};

struct Hasher {
  size_t operator()(const uint64_t& k) const { return hash_key(k); }
  size_t operator()(const MoElem& e) const { return hash_key(e.key); }
  size_t operator()(const CpElem& e) const { return hash_key(e.key); }
  size_t operator()(const MKey& k) const { return hash_key(k.k); }
};

////////////////////////////////////////////////////////////////////////////////
// History
enum Op : uint8_t {
  OP_EMPLACE,      // emplace(key)                     (fixed, set, map: mapped default-constructed)
  OP_INSERT_CREF,  // insert(const value_type&)        (set)
  OP_INSERT_RREF,  // insert(value_type&&)             (fixed, set, map)
  OP_EMPLACE_KV,   // emplace(key, seed)               (map)
  OP_TRY_EMPLACE,  // try_emplace(key, MVal&&)         (map)
  OP_INDEX,        // operator[](key)                  (map)
  OP_FIND,         // find(key)
  OP_CFIND,        // const find(key)
  OP_CONTAINS,     // contains(key)
  OP_COUNT,        // count(key)
  OP_N
};
const char* kOpName[] = {"emplace", "insert(const&)", "insert(&&)", "emplace(k,v)", "try_emplace", "operator[]",
                         "find", "find const", "contains", "count"};
inline bool is_insert(uint8_t op) { return op <= OP_INDEX; }
enum Res : uint8_t { R_ABSENT, R_PRESENT, R_INSERTED, R_FULL };
const char* kResName[] = {"absent", "present", "inserted", "full"};

struct Ev {
  uint64_t call = 0, ret = 0;
  const void* addr = nullptr;
  uint32_t kid = 0;
  uint16_t thread = 0;
  uint8_t op = 0, res = 0;
};

struct EpCfg {
  std::string kind;
  uint64_t episode = 0;
  int threads = 2;
  int nkeys = 16;       // universe (every key emplaced at least once)
  int foreign = 4;      // keys never emplaced
  uint64_t stride = 1, offset = 0;
  size_t initial = 0;   // fixed: bucket count; set/map: 0 = default-constructed placeholder
  int pattern = 0;      // 0 wave, 1 random, 2 hot
  int find_pct = 40;
  int ops_per_thread = 0;
  int rendezvous = 0;   // threads meet every `rendezvous` ops (0 = never)
  bool sweep = true;    // final phase: thread i inserts every key with kid % threads == i
  int cpus = 0;
  std::string policy;
  uint64_t key_of(int kid) const { return offset + uint64_t(kid) * stride; }
  std::string str() const {
    return vf::fmt("kind=%s episode=%lu threads=%d nkeys=%d initial=%zu hasher=%s pattern=%d find_pct=%d ops/thread=%d "
                   "rendezvous=%d sweep=%d cpus=%d stride=%lu offset=%lu policy=[%s]",
                   kind.c_str(), (unsigned long)episode, threads, nkeys, initial, kHashName[g_hc.mode], pattern,
                   find_pct, ops_per_thread, rendezvous, int(sweep), cpus, (unsigned long)stride, (unsigned long)offset,
                   policy.c_str());
  }
};

std::string ev_str(const Ev& e, uint64_t t0) {
  return vf::fmt("t%u %s(k%u) -> %s addr=%p [call=%lu ret=%lu]", e.thread, kOpName[e.op], e.kid, kResName[e.res],
                 e.addr, (unsigned long)(e.call - t0), (unsigned long)(e.ret - t0));
}

uint64_t g_tsc_slack = 0;  // |most negative causal TSC delta| measured at start-up (normally 0)
inline bool before(uint64_t ret_a, uint64_t call_b) { return ret_a + g_tsc_slack < call_b; }

// Causal consistency of the TSC across cores (DESIGN §2.2): a stamp taken after
// observing another thread's store must not be smaller than the stamp that
// thread took before the store.
void calibrate_tsc() {
  int ncpu = int(sysconf(_SC_NPROCESSORS_ONLN));
  int64_t min_delta = INT64_MAX;
  for (int other = 1; other < ncpu && other < 16; ++other) {
    for (int dir = 0; dir < 2; ++dir) {
      std::atomic<uint64_t> flag {0};
      std::atomic<uint64_t> stamp {0};
      const int rounds = 300;
      int64_t local_min = INT64_MAX;
      std::thread a([&] {
        cpu_set_t s; CPU_ZERO(&s); CPU_SET(dir ? other : 0, &s);
        sched_setaffinity(0, sizeof s, &s);
        for (int i = 1; i <= rounds; ++i) {
          uint64_t t = vf::stamp_ret();
          stamp.store(t, std::memory_order_relaxed);
          flag.store(uint64_t(i), std::memory_order_release);
          while (flag.load(std::memory_order_acquire) != uint64_t(i) + (1ull << 32)) {}
        }
      });
      std::thread b([&] {
        cpu_set_t s; CPU_ZERO(&s); CPU_SET(dir ? 0 : other, &s);
        sched_setaffinity(0, sizeof s, &s);
        for (int i = 1; i <= rounds; ++i) {
          while (flag.load(std::memory_order_acquire) != uint64_t(i)) {}
          uint64_t t = vf::stamp_call();
          int64_t d = int64_t(t - stamp.load(std::memory_order_relaxed));
          if (d < local_min) local_min = d;
          flag.store(uint64_t(i) + (1ull << 32), std::memory_order_release);
        }
      });
      a.join();
      b.join();
      if (local_min < min_delta) min_delta = local_min;
    }
  }
  if (min_delta != INT64_MAX && min_delta < 0) g_tsc_slack = uint64_t(-min_delta);
  vf::extra("tsc_min_causal_delta_cycles", min_delta == INT64_MAX ? "null" : std::to_string(min_delta));
  vf::pin_cpus(0);
}

// Oversubscription: restrict the process to `k` CPUs starting at a drawn CPU (vf::pin_cpus always
// takes CPUs 0..k-1, which every other pinned harness process on this machine competes for).
void pin_some_cpus(int k, uint64_t draw) {
  int ncpu = int(sysconf(_SC_NPROCESSORS_ONLN));
  if (k <= 0 || k >= ncpu) { vf::pin_cpus(0); return; }
  cpu_set_t set;
  CPU_ZERO(&set);
  int first = int(draw % uint64_t(ncpu));
  for (int i = 0; i < k; ++i) CPU_SET((first + i) % ncpu, &set);
  sched_setaffinity(0, sizeof set, &set);
}

void report(const EpCfg& cfg, const std::string& key, const std::string& msg, const std::vector<Ev>& slice,
            uint64_t t0) {
  std::string d = cfg.str() + "\nhistory slice (cycles relative to episode start):\n";
  size_t n = 0;
  for (auto& e : slice) {
    d += "  " + ev_str(e, t0) + "\n";
    if (++n >= 60) { d += "  ...\n"; break; }
  }
  vf::violation(key, msg, d);
}

////////////////////////////////////////////////////////////////////////////////
// Drivers: one per container type. exec() performs one stamped operation,
// validates the element it got back, and fills the event.
struct Obs {  // what a driver saw
  bool found = false, inserted = false;
  const void* addr = nullptr;
  bool elem_ok = true;
  std::string elem_dump;
  bool arg_consumed = false;
};

struct FixedDriver {
  using Table = babylon::ConcurrentFixedSwissTable<MoElem, Hasher>;
  static const char* kind() { return "fixed"; }
  static bool is_fixed() { return true; }
  static std::vector<Op> insert_ops() { return {OP_EMPLACE, OP_INSERT_RREF}; }
  std::unique_ptr<Table> t;
  void construct(size_t initial) { t.reset(new Table(initial)); }
  void destroy() { t.reset(); }
  static size_t node_size() { return 0; }
  static void* controls_of_node(void*) { return nullptr; }
  void* head_buffer() { return static_cast<void*>(t->_controls); }
  size_t chain_len() const { return 1; }
  size_t capacity() const { return t->bucket_count(); }
  template <typename I>
  void see(Obs& o, I it, uint64_t key) {
    o.found = (it != t->end());
    if (o.found) {
      const MoElem& e = *it;
      o.addr = &e;
      o.elem_ok = e.valid_for(key);
      if (!o.elem_ok) o.elem_dump = e.dump();
    }
  }
  Obs exec(Op op, uint64_t key, uint64_t& call, uint64_t& ret) {
    Obs o;
    switch (op) {
      case OP_EMPLACE: {
        call = vf::stamp_call();
        auto r = t->emplace(key);
        ret = vf::stamp_ret();
        o.inserted = r.second;
        see(o, r.first, key);
      } break;
      case OP_INSERT_RREF: {
        MoElem tmp(key, Temp {});
        call = vf::stamp_call();
        auto r = t->insert(std::move(tmp));
        ret = vf::stamp_ret();
        o.inserted = r.second;
        o.arg_consumed = tmp.moved_from;
        see(o, r.first, key);
      } break;
      case OP_FIND: {
        call = vf::stamp_call();
        auto it = t->find(key);
        ret = vf::stamp_ret();
        see(o, it, key);
      } break;
      case OP_CFIND: {
        const Table& ct = *t;
        call = vf::stamp_call();
        auto it = ct.find(key);
        ret = vf::stamp_ret();
        o.found = (it != ct.end());
        if (o.found) {
          const MoElem& e = *it;
          o.addr = &e;
          o.elem_ok = e.valid_for(key);
          if (!o.elem_ok) o.elem_dump = e.dump();
        }
      } break;
      case OP_CONTAINS: {
        call = vf::stamp_call();
        o.found = t->contains(key);
        ret = vf::stamp_ret();
      } break;
      default: {
        call = vf::stamp_call();
        size_t c = t->count(key);
        ret = vf::stamp_ret();
        o.found = c != 0;
        if (c > 1) o.elem_ok = false, o.elem_dump = "count() > 1";
      } break;
    }
    return o;
  }
  // every stored element of every table: f(key, addr, table_index)
  template <typename F>
  void scan(F&& f) {
    for (auto it = t->begin(); it != t->end(); ++it) f((*it).key, static_cast<const void*>(&*it), 0);
  }
};

template <typename SET>
struct ChainWalk {
  template <typename F>
  static void each_table(SET& s, F&& f) {
    auto* node = &s._head;
    int i = 0;
    while (node != nullptr) {
      f(node->table, i++);
      node = node->next.load(std::memory_order_acquire);
    }
  }
};

struct SetDriver {
  using Table = babylon::ConcurrentTransientHashSet<CpElem, Hasher>;
  using Fixed = babylon::ConcurrentFixedSwissTable<CpElem, Hasher>;
  static const char* kind() { return "set"; }
  static bool is_fixed() { return false; }
  static std::vector<Op> insert_ops() { return {OP_EMPLACE, OP_INSERT_CREF, OP_INSERT_RREF}; }
  std::unique_ptr<Table> t;
  void construct(size_t initial) {
    if (initial == 0) t.reset(new Table());
    else t.reset(new Table(initial));
  }
  void destroy() { t.reset(); }
  static size_t node_size() { return sizeof(typename Table::TableNode); }
  static void* controls_of_node(void* n) { return static_cast<void*>(static_cast<typename Table::TableNode*>(n)->table._controls); }
  void* head_buffer() {
    using G = babylon::internal::concurrent_transient_hash_table::Group;
    return t->_head.table._controls == G::s_dummy_controls ? nullptr : static_cast<void*>(t->_head.table._controls);
  }
  size_t chain_len() {
    size_t n = 0;
    ChainWalk<Table>::each_table(*t, [&](Fixed&, int) { ++n; });
    return n;
  }
  size_t capacity() const { return 0; }
  template <typename I, typename E>
  void see(Obs& o, I it, E end, uint64_t key) {
    o.found = (it != end);
    if (o.found) {
      const CpElem& e = *it;
      o.addr = &e;
      o.elem_ok = e.valid_for(key);
      if (!o.elem_ok) o.elem_dump = e.dump();
    }
  }
  Obs exec(Op op, uint64_t key, uint64_t& call, uint64_t& ret) {
    Obs o;
    switch (op) {
      case OP_EMPLACE: {
        call = vf::stamp_call();
        auto r = t->emplace(key);
        ret = vf::stamp_ret();
        o.inserted = r.second;
        see(o, r.first, t->end(), key);
      } break;
      case OP_INSERT_CREF: {
        const CpElem tmp(key, Temp {});
        call = vf::stamp_call();
        auto r = t->insert(tmp);
        ret = vf::stamp_ret();
        o.inserted = r.second;
        see(o, r.first, t->end(), key);
      } break;
      case OP_INSERT_RREF: {
        CpElem tmp(key, Temp {});
        call = vf::stamp_call();
        auto r = t->insert(std::move(tmp));
        ret = vf::stamp_ret();
        o.inserted = r.second;
        o.arg_consumed = tmp.moved_from;
        see(o, r.first, t->end(), key);
      } break;
      case OP_FIND: {
        call = vf::stamp_call();
        auto it = t->find(key);
        ret = vf::stamp_ret();
        see(o, it, t->end(), key);
      } break;
      case OP_CFIND: {
        const Table& ct = *t;
        call = vf::stamp_call();
        auto it = ct.find(key);
        ret = vf::stamp_ret();
        see(o, it, ct.end(), key);
      } break;
      case OP_CONTAINS: {
        call = vf::stamp_call();
        o.found = t->contains(key);
        ret = vf::stamp_ret();
      } break;
      default: {
        call = vf::stamp_call();
        size_t c = t->count(key);
        ret = vf::stamp_ret();
        o.found = c != 0;
        if (c > 1) o.elem_ok = false, o.elem_dump = "count() > 1";
      } break;
    }
    return o;
  }
  template <typename F>
  void scan(F&& f) {
    ChainWalk<Table>::each_table(*t, [&](Fixed& ft, int ti) {
      for (auto it = ft.begin(); it != ft.end(); ++it) f((*it).key, static_cast<const void*>(&*it), ti);
    });
  }
};

struct MapDriver {
  using Table = babylon::ConcurrentTransientHashMap<MKey, MVal, Hasher>;
  using Base = babylon::ConcurrentTransientHashSet<
      std::pair<const MKey, MVal>, Hasher,
      babylon::internal::concurrent_transient_hash_table::PairKeyExtractor<MKey, MVal>>;
  using Fixed = babylon::ConcurrentFixedSwissTable<
      std::pair<const MKey, MVal>, Hasher,
      babylon::internal::concurrent_transient_hash_table::PairKeyExtractor<MKey, MVal>>;
  using Pair = std::pair<const MKey, MVal>;
  static const char* kind() { return "map"; }
  static bool is_fixed() { return false; }
  static std::vector<Op> insert_ops() { return {OP_EMPLACE, OP_EMPLACE_KV, OP_TRY_EMPLACE, OP_INDEX, OP_INSERT_RREF}; }
  std::unique_ptr<Table> t;
  void construct(size_t initial) {
    if (initial == 0) t.reset(new Table());
    else t.reset(new Table(initial));
  }
  void destroy() { t.reset(); }
  static size_t node_size() { return sizeof(typename Base::TableNode); }
  static void* controls_of_node(void* n) { return static_cast<void*>(static_cast<typename Base::TableNode*>(n)->table._controls); }
  void* head_buffer() {
    using G = babylon::internal::concurrent_transient_hash_table::Group;
    return t->_head.table._controls == G::s_dummy_controls ? nullptr : static_cast<void*>(t->_head.table._controls);
  }
  size_t chain_len() {
    size_t n = 0;
    ChainWalk<Base>::each_table(*t, [&](Fixed&, int) { ++n; });
    return n;
  }
  size_t capacity() const { return 0; }
  void see_pair(Obs& o, const Pair& e, uint64_t key) {
    o.addr = &e.second;
    o.elem_ok = e.first.k == key && e.first.chk == ~key && e.second.valid();
    if (!o.elem_ok)
      o.elem_dump = vf::fmt("{first={k=%lx chk=%lx} second={a=%lx b=%lx c=%lx}}", (unsigned long)e.first.k,
                            (unsigned long)e.first.chk, (unsigned long)e.second.a, (unsigned long)e.second.b,
                            (unsigned long)e.second.c);
  }
  template <typename I, typename E>
  void see(Obs& o, I it, E end, uint64_t key) {
    o.found = (it != end);
    if (o.found) see_pair(o, *it, key);
  }
  Obs exec(Op op, uint64_t key, uint64_t& call, uint64_t& ret) {
    Obs o;
    switch (op) {
      case OP_EMPLACE: {
        call = vf::stamp_call();
        auto r = t->emplace(key);
        ret = vf::stamp_ret();
        o.inserted = r.second;
        see(o, r.first, t->end(), key);
      } break;
      case OP_EMPLACE_KV: {
        uint64_t seed = key * 3 + 1;
        call = vf::stamp_call();
        auto r = t->emplace(key, seed);
        ret = vf::stamp_ret();
        o.inserted = r.second;
        see(o, r.first, t->end(), key);
      } break;
      case OP_TRY_EMPLACE: {
        MVal tmp(key * 5 + 2, Temp {});
        call = vf::stamp_call();
        auto r = t->try_emplace(key, std::move(tmp));
        ret = vf::stamp_ret();
        o.inserted = r.second;
        o.arg_consumed = tmp.moved_from;
        see(o, r.first, t->end(), key);
      } break;
      case OP_INDEX: {
        call = vf::stamp_call();
        MVal& v = (*t)[key];
        ret = vf::stamp_ret();
        // operator[] does not say whether it inserted; it is treated as an
        // insertion attempt that observed the key present on return.
        o.found = true;
        o.addr = &v;
        o.elem_ok = v.valid();
        if (!o.elem_ok) o.elem_dump = vf::fmt("{a=%lx b=%lx c=%lx}", (unsigned long)v.a, (unsigned long)v.b, (unsigned long)v.c);
      } break;
      case OP_INSERT_RREF: {
        std::pair<const MKey, MVal> tmp(std::piecewise_construct, std::forward_as_tuple(key),
                                        std::forward_as_tuple(key * 7 + 3, Temp {}));
        call = vf::stamp_call();
        auto r = t->insert(std::move(tmp));
        ret = vf::stamp_ret();
        o.inserted = r.second;
        o.arg_consumed = tmp.second.moved_from;
        see(o, r.first, t->end(), key);
      } break;
      case OP_FIND: {
        call = vf::stamp_call();
        auto it = t->find(key);
        ret = vf::stamp_ret();
        see(o, it, t->end(), key);
      } break;
      case OP_CFIND: {
        const Table& ct = *t;
        call = vf::stamp_call();
        auto it = ct.find(key);
        ret = vf::stamp_ret();
        see(o, it, ct.end(), key);
      } break;
      case OP_CONTAINS: {
        call = vf::stamp_call();
        o.found = t->contains(key);
        ret = vf::stamp_ret();
      } break;
      default: {
        call = vf::stamp_call();
        size_t c = t->count(key);
        ret = vf::stamp_ret();
        o.found = c != 0;
        if (c > 1) o.elem_ok = false, o.elem_dump = "count() > 1";
      } break;
    }
    return o;
  }
  template <typename F>
  void scan(F&& f) {
    ChainWalk<Base>::each_table(*t, [&](Fixed& ft, int ti) {
      for (auto it = ft.begin(); it != ft.end(); ++it) f((*it).first.k, static_cast<const void*>(&(*it).second), ti);
    });
  }
};

////////////////////////////////////////////////////////////////////////////////
// One episode
std::atomic<const char*> g_phase {"idle"};
std::string g_ctx;

// Soft barrier: aligns the threads so that they reach the same keys at the same time. Best effort
// only (bounded wait): on an oversubscribed machine a thread gives up and goes on alone.
struct Rendezvous {
  std::atomic<uint64_t> arrived {0};
  int n = 1;
  void wait(uint64_t round) {
    arrived.fetch_add(1, std::memory_order_relaxed);
    uint64_t want = (round + 1) * uint64_t(n);
    int spins = 0, yields = 0;
    while (arrived.load(std::memory_order_relaxed) < want) {
      if (++spins > 200) {
        if (++yields > 64) { VF_COUNT("obs:rendezvous_gave_up"); return; }
        ::sched_yield();
        spins = 0;
      }
      if (vf::failed()) return;
    }
  }
};

const std::vector<std::string>& stall_points() {
  static const std::vector<std::string> pts = {
      "cb:ht_ctor", "cb:ht_ctor", "cb:ht_eq", "cb:ht_hash", "ht:busy_acquired", "ht:busy_observed",
      "ht:cas_lost_to_published", "ht:between_control_stores", "ht:between_control_stores",
      "ht:emplace_group_loaded", "ht:find_group_loaded", "ht:grow_before_new", "ht:grow_before_cas",
      "ht:grow_before_cas", "ht:grow_cas_lost"};
  return pts;
}

template <typename D>
void run_episode(uint64_t seed, uint64_t episode, int sub) {
  vf::Rng rng(vf::mix(seed, episode, 0xc03));
  const double wall0 = vf::now_s();
  EpCfg cfg;
  cfg.kind = D::kind();
  cfg.episode = episode;
  // ---- configuration
  g_hc.mode = int(episode % H_NMODES);
  if (rng.chance(1, 4)) g_hc.mode = int(rng.below(H_NMODES));
  g_hc.salt = rng.next();
  g_hc.ctag = rng.below(128);
  g_hc.cgroup = rng.next() >> 20;
  cfg.threads = int(rng.pick<int>({2, 2, 3, 4, 4, 6, 8, 8, 11, 16}));
  bool big = false;
  if (D::is_fixed()) {
    cfg.initial = rng.pick<size_t>({16, 16, 32, 64, 128, 256});
    int extra = int(rng.pick<int>({-3, 0, 0, 1, 2, 5, 8}));
    cfg.nkeys = std::max<int>(4, int(cfg.initial) + extra);
    if (rng.chance(1, 6)) cfg.nkeys = int(rng.range(4, cfg.initial));  // not full
  } else {
    cfg.initial = rng.pick<size_t>({0, 0, 0, 16, 16, 32, 1024});
    if (sub % 8 == 7) {  // deep-growth episode: up to 6 chained growth steps
      big = true;
      cfg.initial = rng.pick<size_t>({0, 0, 16, 32, 1024});
      cfg.nkeys = cfg.initial == 1024 ? int(rng.range(1025, 1200)) : int(rng.range(250, 1100));
      cfg.threads = int(rng.pick<int>({2, 3, 4, 8}));
    } else {
      cfg.nkeys = int(rng.pick<int>({4, 8, 15, 16, 17, 31, 33, 40, 48, 64, 97, 130, 200}));
    }
  }
  cfg.foreign = 4;
  cfg.stride = rng.pick<uint64_t>({1, 1, 2, 128, 129, 0x9e3779b97f4a7c15ULL});
  cfg.offset = rng.chance(1, 2) ? 0 : rng.next() >> 8;
  cfg.pattern = int(rng.pick<int>({0, 0, 0, 1, 2}));
  cfg.find_pct = int(rng.pick<int>({20, 40, 50, 70}));
  int rounds = big ? 1 : int(rng.range(1, 3));
  cfg.ops_per_thread = std::min(4000, cfg.nkeys * rounds + 8);
  cfg.rendezvous = int(rng.pick<int>({0, 1, 4, 16, 64}));
  cfg.cpus = rng.chance(1, 5) ? int(rng.range(1, 3)) : 0;
  if (cfg.rendezvous == 1 && (cfg.threads > 8 || cfg.cpus)) cfg.rendezvous = 8;
  cfg.sweep = !rng.chance(1, 5);
  // under the heaviest collisions every probe compares against every stored key
  if ((g_hc.mode == H_FULL_COLLISION || g_hc.mode == H_CONST_GROUP) && cfg.nkeys > 300) cfg.nkeys = 300, cfg.ops_per_thread = 308;
  cfg.policy = vf::draw_policy(rng, stall_points(), uint64_t(std::max(8, cfg.nkeys * 2)), 10000);
  vf::disable_policy();

  const int K = cfg.nkeys, U = cfg.nkeys + cfg.foreign, T = cfg.threads;
  std::vector<int> perm(size_t(K), 0);
  for (int i = 0; i < K; ++i) perm[size_t(i)] = i;
  for (int i = K - 1; i > 0; --i) std::swap(perm[size_t(i)], perm[rng.below(uint64_t(i) + 1)]);
  std::vector<Op> ins_ops = D::insert_ops();
  std::vector<Op> find_ops = {OP_FIND, OP_FIND, OP_CFIND, OP_CONTAINS, OP_COUNT};

  // ---- construct
  g_constructed.store(0, std::memory_order_relaxed);
  g_destroyed.store(0, std::memory_order_relaxed);
  g_node_size = D::node_size();
  g_node_controls = &D::controls_of_node;
  vfacct::begin();
  D d;
  d.construct(cfg.initial);
  if (void* hb = d.head_buffer()) vfacct::track(hb, false);
  std::vector<std::vector<Ev>> logs;
  logs.resize(static_cast<size_t>(T));
  for (auto& l : logs) l.reserve(size_t(cfg.ops_per_thread) + size_t(K) + 8);
  std::unordered_map<uint64_t, int> kid_of_key;
  for (int i = 0; i < U; ++i) kid_of_key[cfg.key_of(i)] = i;
  Rendezvous rv;
  rv.n = T;
  std::atomic<uint64_t> consumed_on_present {0};
  vf::watchdog().set_context(cfg.str());
  if (cfg.cpus) pin_some_cpus(cfg.cpus, vf::mix(seed, episode, 0xc9));
  uint64_t busy0 = vf::counter_value("point:ht:busy_observed"), lost0 = vf::counter_value("point:ht:cas_lost_to_published");
  vf::policy().enabled.store(true, std::memory_order_release);
  g_phase.store("threads", std::memory_order_relaxed);
  vf::watchdog().arm(true);
  uint64_t t0 = vf::stamp_call();

  // ---- run
  vf::run_threads(T, vf::mix(seed, episode, 0x7c03), [&](int ti) {
    vf::Rng& r = vf::tl_rng();
    auto& log = logs[size_t(ti)];
    uint64_t round = 0;
    const int sweep_ops = cfg.sweep ? (K - ti + T - 1) / T : 0;
    for (int i = 0; i < cfg.ops_per_thread + sweep_ops && !vf::failed(); ++i) {
      if (cfg.rendezvous && i % cfg.rendezvous == 0 && i < cfg.ops_per_thread) rv.wait(round++);
      int kid;
      bool lookup_old = false;
      const bool sweeping = i >= cfg.ops_per_thread;
      if (sweeping) {
        kid = perm[size_t(ti + (i - cfg.ops_per_thread) * T)];
      } else if (cfg.pattern == 0) {  // wave: everybody walks the same permutation, roughly in step
        if (i < K || !r.chance(1, 2)) kid = perm[size_t((i + int(r.below(3))) % K)];
        else kid = perm[r.below(uint64_t(K))];
        if (i > 4 && r.chance(1, 5)) { kid = perm[r.below(uint64_t(std::min(i, K)))]; lookup_old = true; }
      } else if (cfg.pattern == 1) {
        kid = int(r.below(uint64_t(K)));
      } else {  // hot: a handful of keys take most operations
        kid = r.chance(3, 4) ? perm[r.below(uint64_t(std::min(K, 4)))] : int(r.below(uint64_t(K)));
      }
      bool finding = !sweeping && (lookup_old || int(r.below(100)) < cfg.find_pct);
      if (finding && r.chance(1, 16)) kid = K + int(r.below(uint64_t(cfg.foreign)));  // never-inserted key
      Op op = finding ? find_ops[r.below(find_ops.size())] : ins_ops[r.below(ins_ops.size())];
      uint64_t key = cfg.key_of(kid);
      Ev ev;
      ev.kid = uint32_t(kid);
      ev.thread = uint16_t(ti);
      ev.op = op;
      vf::set_op(kOpName[op], key);
      Obs o = d.exec(op, key, ev.call, ev.ret);
      vf::set_op(nullptr);
      vf::progress();
      ev.addr = o.addr;
      if (is_insert(op)) ev.res = o.inserted ? R_INSERTED : (o.found ? R_PRESENT : R_FULL);
      else ev.res = o.found ? R_PRESENT : R_ABSENT;
      log.push_back(ev);
      if (!o.elem_ok) {
        report(cfg, "element-not-fully-constructed",
               vf::fmt("%s(key %lx) returned an element whose fields are not the fully constructed value: %s",
                       kOpName[op], (unsigned long)key, o.elem_dump.c_str()), {ev}, t0);
      }
      if (o.inserted && !o.found) {
        report(cfg, "inserted-but-end-iterator", vf::fmt("%s reported inserted=true with an end() iterator", kOpName[op]), {ev}, t0);
      }
      if (ev.res == R_FULL) {
        if (!D::is_fixed()) {
          report(cfg, "growing-container-emplace-returned-end",
                 vf::fmt("%s(key %lx) on a growing set/map returned end()", kOpName[op], (unsigned long)key), {ev}, t0);
        }
        if (o.arg_consumed) {
          report(cfg, "full-table-consumed-argument",
                 vf::fmt("%s(key %lx) into a full table returned end() but moved from its argument", kOpName[op],
                         (unsigned long)key), {ev}, t0);
        }
        VF_COUNT("rare:table_full_returned");
      } else if (ev.res == R_PRESENT && o.arg_consumed) {
        consumed_on_present.fetch_add(1, std::memory_order_relaxed);
      }
    }
  });
  uint64_t t_end = vf::stamp_ret();
  (void)t_end;
  g_phase.store("oracle", std::memory_order_relaxed);
  vf::disable_policy();
  if (cfg.cpus) vf::pin_cpus(0);

  // ---- oracle over the history, per key
  std::vector<std::vector<Ev>> by_key;
  by_key.resize(static_cast<size_t>(U));
  uint64_t nev = 0;
  for (auto& l : logs)
    for (auto& e : l) { by_key[e.kid].push_back(e); ++nev; }
  VF_COUNT_N("obs:events", nev);
  uint64_t winners_total = 0, overlaps = 0, find_overlap_winner = 0, miss_in_window = 0, hit_before_winner_ret = 0;
  uint64_t min_full_ret = UINT64_MAX;
  std::vector<const Ev*> winner_of(size_t(U), nullptr);
  uint64_t fp = vf::mix(uint64_t(g_hc.mode), uint64_t(T), uint64_t(K), cfg.initial);
  for (int kid = 0; kid < U && !vf::failed(); ++kid) {
    auto& evs = by_key[size_t(kid)];
    if (evs.empty()) continue;
    VF_COUNT("obs:keys_checked");
    std::sort(evs.begin(), evs.end(), [](const Ev& a, const Ev& b) { return a.call < b.call; });
    const Ev* winner = nullptr;
    int nwin = 0;
    const void* addr = nullptr;
    bool addr_differs = false;
    uint64_t min_present_ret = UINT64_MAX, min_insert_ret = UINT64_MAX, min_hit_ret = UINT64_MAX;
    uint64_t min_emplace_call = UINT64_MAX;
    bool any_full = false, any_present = false;
    for (auto& e : evs) {
      if (is_insert(e.op)) min_emplace_call = std::min(min_emplace_call, e.call);
      if (e.res == R_INSERTED) { ++nwin; if (!winner) winner = &e; }
      if (e.res == R_INSERTED || e.res == R_PRESENT) {
        any_present = true;
        if (e.addr) {
          if (addr && addr != e.addr) addr_differs = true;
          if (!addr) addr = e.addr;
        }
        if (e.res == R_PRESENT) min_present_ret = std::min(min_present_ret, e.ret);
        if (is_insert(e.op)) min_insert_ret = std::min(min_insert_ret, e.ret);
        else min_hit_ret = std::min(min_hit_ret, e.ret);
      }
      if (e.res == R_FULL) { any_full = true; min_full_ret = std::min(min_full_ret, e.ret); }
    }
    // operator[] does not report who inserted: with operator[] in the mix the winner may be anonymous
    bool index_used = false;
    for (auto& e : evs) if (e.op == OP_INDEX) index_used = true;
    if (nwin > 1) {
      std::vector<Ev> sl;
      for (auto& e : evs) if (e.res == R_INSERTED) sl.push_back(e);
      report(cfg, "two-winners-one-key", vf::fmt("%d insertions of key k%d reported inserted=true", nwin, kid), sl, t0);
    }
    if (nwin == 0 && any_present && !index_used) {
      report(cfg, "present-without-winner",
             vf::fmt("key k%d was observed present but no insertion reported inserted=true", kid), evs, t0);
    }
    if (kid >= K && any_present) {
      report(cfg, "never-inserted-key-found", vf::fmt("key k%d was never inserted but a lookup found it", kid), evs, t0);
    }
    if (addr_differs) {
      report(cfg, "address-differs", vf::fmt("operations on key k%d returned different element addresses", kid), evs, t0);
    }
    if (any_full && any_present) {
      report(cfg, "full-but-key-present",
             vf::fmt("an insertion of key k%d returned end() (table full) although the key is or became present", kid),
             evs, t0);
    }
    if (winner) {
      ++winners_total;
      winner_of[size_t(kid)] = winner;
      fp = vf::mix(fp, uint64_t(kid), winner->thread);
    } else if (any_present) {
      ++winners_total;  // anonymous winner through operator[]
    }
    // real-time order
    for (auto& e : evs) {
      if (e.res == R_ABSENT) {
        if (min_insert_ret != UINT64_MAX && before(min_insert_ret, e.call)) {
          report(cfg, "find-missed-after-insert-returned",
                 vf::fmt("a lookup of key k%d missed although it was called %lu cycles after an insertion of that key returned",
                         kid, (unsigned long)(e.call - min_insert_ret)), evs, t0);
          break;
        }
        if (min_hit_ret != UINT64_MAX && before(min_hit_ret, e.call)) {
          report(cfg, "find-missed-after-find-hit",
                 vf::fmt("a lookup of key k%d missed although it was called %lu cycles after another lookup that found it returned",
                         kid, (unsigned long)(e.call - min_hit_ret)), evs, t0);
          break;
        }
        if (winner && e.ret > winner->call && e.call < winner->ret) ++miss_in_window;
      } else if (e.res == R_PRESENT) {
        if (min_emplace_call == UINT64_MAX || before(e.ret, min_emplace_call)) {
          report(cfg, "found-before-insert-called",
                 vf::fmt("key k%d was observed present by an operation that returned before any insertion of it was called", kid),
                 evs, t0);
          break;
        }
        if (winner && &e != winner && e.ret < winner->ret && e.ret > winner->call) ++hit_before_winner_ret;
      }
      if (winner && &e != winner && e.call < winner->ret && e.ret > winner->call) {
        if (is_insert(e.op)) ++overlaps;
        else ++find_overlap_winner;
      }
    }
  }
  VF_COUNT_N("rare:same_key_insert_overlaps_winner", overlaps);
  VF_COUNT_N("rare:find_overlaps_winning_insert", find_overlap_winner);
  VF_COUNT_N("rare:find_missed_inside_winner_window", miss_in_window);
  VF_COUNT_N("rare:present_seen_before_winner_returned", hit_before_winner_ret);
  VF_COUNT_N("obs:consumed_argument_on_present_key", consumed_on_present.load());

  // ---- full fixed table
  if (D::is_fixed() && !vf::failed()) {
    size_t cap = d.capacity();
    if (min_full_ret != UINT64_MAX) {
      if (winners_total != cap) {
        report(cfg, "full-returned-but-table-not-full",
               vf::fmt("an insertion returned end() but only %lu of %zu buckets hold a key", (unsigned long)winners_total, cap),
               {}, t0);
      }
      for (int kid = 0; kid < K; ++kid) {
        const Ev* w = winner_of[size_t(kid)];
        if (w && before(min_full_ret, w->call)) {
          report(cfg, "inserted-after-full-reported",
                 vf::fmt("key k%d was inserted by a call that began after another insertion had already returned table-full", kid),
                 {*w}, t0);
          break;
        }
      }
    }
    if (winners_total > cap) {
      report(cfg, "more-winners-than-buckets", vf::fmt("%lu winners in %zu buckets", (unsigned long)winners_total, cap), {}, t0);
    }
    if (size_t(K) >= cap && winners_total == cap) {
      VF_COUNT("rare:table_exactly_full");
      // sequential epilogue on the exactly-full table: absent key -> end(), argument untouched
      uint64_t absent = cfg.key_of(K + cfg.foreign + 1);
      for (Op op : {OP_EMPLACE, OP_INSERT_RREF}) {
        Ev ev;
        ev.kid = uint32_t(U - 1);
        ev.op = op;
        Obs o = d.exec(op, absent, ev.call, ev.ret);
        if (o.found || o.inserted) {
          report(cfg, "full-table-accepted-absent-key", vf::fmt("%s of an absent key into an exactly full table did not return end()", kOpName[op]), {ev}, t0);
        }
        if (o.arg_consumed) {
          report(cfg, "full-table-consumed-argument", vf::fmt("%s into an exactly full table moved from its argument", kOpName[op]), {ev}, t0);
        }
        VF_COUNT("obs:full_table_sequential_probe");
      }
    }
  }

  // ---- quiescent membership through find only; per-table scan for duplicates
  uint64_t constructed = g_constructed.load(std::memory_order_relaxed);
  if (!vf::failed()) {
    std::vector<int> seen(size_t(U) + 8, 0);
    for (int kid = 0; kid < U + 2 && !vf::failed(); ++kid) {
      uint64_t key = cfg.key_of(kid);
      bool expect = kid < U && winner_of[size_t(kid)] != nullptr;
      if (kid < U && !expect) {
        for (auto& e : by_key[size_t(kid)]) if (e.res == R_PRESENT) expect = true;  // anonymous operator[] winner
      }
      Ev ev;
      ev.kid = uint32_t(kid);
      ev.op = OP_FIND;
      Obs o = d.exec(OP_FIND, key, ev.call, ev.ret);
      ev.res = o.found ? R_PRESENT : R_ABSENT;
      ev.addr = o.addr;
      VF_COUNT("obs:quiescent_finds");
      if (expect && !o.found) {
        report(cfg, "quiescent-key-missing", vf::fmt("key k%d was inserted but find() misses it after all threads joined", kid), by_key[size_t(kid)], t0);
      } else if (!expect && o.found) {
        report(cfg, "quiescent-foreign-key-found", vf::fmt("key k%d was never inserted but find() returns it at quiescence", kid), {ev}, t0);
      } else if (o.found) {
        if (!o.elem_ok) report(cfg, "element-not-fully-constructed", "element invalid at quiescence: " + o.elem_dump, {ev}, t0);
        const Ev* w = kid < U ? winner_of[size_t(kid)] : nullptr;
        if (w && w->addr && w->addr != o.addr) {
          report(cfg, "address-differs", vf::fmt("find(k%d) at quiescence returns another address than the winning insertion", kid), {*w, ev}, t0);
        }
      }
    }
    uint64_t stored = 0;
    int tables = 0;
    d.scan([&](uint64_t key, const void*, int ti) {
      ++stored;
      tables = std::max(tables, ti + 1);
      auto kit = kid_of_key.find(key);
      int kid = kit == kid_of_key.end() ? -1 : kit->second;
      if (kid < 0) {
        report(cfg, "unknown-key-stored", vf::fmt("table %d stores key %lx which nobody inserted", ti, (unsigned long)key), {}, t0);
      } else if (++seen[size_t(kid)] > 1) {
        report(cfg, "key-duplicated-across-tables", vf::fmt("key k%d is stored twice (second copy in table %d)", kid, ti), by_key[size_t(kid)], t0);
      }
    });
    if (!vf::failed() && stored != winners_total) {
      report(cfg, "stored-count-differs-from-winners",
             vf::fmt("%lu elements stored in the tables but %lu keys were won", (unsigned long)stored, (unsigned long)winners_total), {}, t0);
    }
    if (!vf::failed() && constructed != winners_total) {
      report(cfg, "construct-count-mismatch",
             vf::fmt("%lu elements were constructed inside the table for %lu successful insertions", (unsigned long)constructed,
                     (unsigned long)winners_total), {}, t0);
    }
  }

  // ---- growth bookkeeping
  size_t chain = d.chain_len();
  uint64_t node_allocs = 0;
  {
    int n = std::min(vfacct::g.n.load(std::memory_order_relaxed), vfacct::kMax);
    for (int i = 0; i < n; ++i) node_allocs += vfacct::g.is_node[i].load(std::memory_order_relaxed);
  }
  uint64_t grown = chain - 1;
  uint64_t losers = node_allocs > grown ? node_allocs - grown : 0;
  if (!D::is_fixed()) {
    VF_COUNT_N("rare:growth_steps", grown);
    VF_COUNT_N("rare:growth_cas_lost_node_deleted", losers);
    if (chain >= 4) VF_COUNT("rare:chained_tables_ge3");
    if (chain >= 7) VF_COUNT("rare:chained_tables_ge6");
    if (cfg.initial == 0) VF_COUNT("obs:episodes_default_constructed");
  }

  // ---- destroy, balances
  g_phase.store("destroy", std::memory_order_relaxed);
  d.destroy();
  vfacct::end();
  vf::watchdog().arm(false);
  if (!vf::failed()) {
    uint64_t c = g_constructed.load(std::memory_order_relaxed), de = g_destroyed.load(std::memory_order_relaxed);
    if (c != de) {
      report(cfg, "element-destructor-imbalance",
             vf::fmt("%lu elements constructed in the table, %lu destroyed after the table was destroyed", (unsigned long)c, (unsigned long)de), {}, t0);
    }
    std::string leak;
    int ntracked = std::min(vfacct::g.n.load(std::memory_order_relaxed), vfacct::kMax);
    for (int i = 0; i < ntracked; ++i) {
      uint32_t f = vfacct::g.freed[i].load(std::memory_order_relaxed);
      VF_COUNT("obs:table_blocks_tracked");
      if (f != 1) {
        leak += vf::fmt(" %s %p never freed;", vfacct::g.is_node[i].load() ? "TableNode" : "table buffer",
                        reinterpret_cast<void*>(vfacct::g.ptr[i].load()));
      }
    }
    if (vfacct::g.window_without_node.load() != 0) {
      vf::note(vf::fmt("episode %lu: %lu growth windows in which no TableNode allocation was recognised",
                       (unsigned long)episode, (unsigned long)vfacct::g.window_without_node.load()));
      VF_COUNT("obs:growth_window_without_node");
    }
    if (!leak.empty() && vfacct::g.overflow.load() == 0) {
      report(cfg, "table-memory-imbalance",
             "table nodes / buffers allocated in this episode were not freed by the end of destruction:" + leak, {}, t0);
    }
  }
  g_phase.store("idle", std::memory_order_relaxed);
  if (vf::args().get("verbose", 0)) {
    fprintf(stderr, "[c03] %.3fs events=%lu %s\n", vf::now_s() - wall0, (unsigned long)nev, cfg.str().c_str());
  }

  bool nontrivial = overlaps + find_overlap_winner > 0 || losers > 0 || min_full_ret != UINT64_MAX ||
                    vf::counter_value("point:ht:busy_observed") != busy0 || vf::counter_value("point:ht:cas_lost_to_published") != lost0;
  vf::evaluated(fp, nontrivial);
  if (episode % 7 == 0 || big) {
    std::string s = "{\"config\": " + vf::jstr(cfg.str()) +
                    vf::fmt(", \"events\": %lu, \"winners\": %lu, \"chained_tables\": %zu, \"loser_nodes_deleted\": %lu, "
                            "\"same_key_insert_overlaps\": %lu, \"finds_overlapping_winner\": %lu, \"first_events_t0\": [",
                            (unsigned long)nev, (unsigned long)winners_total, chain - 1, (unsigned long)losers,
                            (unsigned long)overlaps, (unsigned long)find_overlap_winner);
    for (size_t i = 0; i < logs[0].size() && i < 12; ++i) s += std::string(i ? ", " : "") + vf::jstr(ev_str(logs[0][i], t0));
    s += "]}";
    vf::sample(s, 4);
  }
}

}  // namespace

int main(int argc, char** argv) {
  vf::init(argc, argv, "C03", "c03_hashtable");
#ifdef BABYLON_VERIF
  ::babylon::verif::point_hook = &c03_point_hook;  // vf::perturb + growth-window accounting
#endif
  auto& a = vf::args();
  std::string mode = a.mode.empty() ? "all" : a.mode;
  calibrate_tsc();
  auto& wd = vf::watchdog();
  wd.classify = []() -> std::string {
    // every operation of these containers is non-blocking for its caller except for
    // waiting on a slot whose owner is inside the (finite) element constructor
    const char* ph = g_phase.load(std::memory_order_relaxed);
    // the machine may be heavily oversubscribed by other processes: insist on two more grace
    // periods without a single completed operation before calling it stuck
    uint64_t p0 = vf::progress_counter().load(std::memory_order_relaxed);
    for (int i = 0; i < 240; ++i) {
      vf::raw_sleep_us(100000);
      if (vf::progress_counter().load(std::memory_order_relaxed) != p0) return "";
    }
    if (std::string(ph) == "threads") return "stuck:hash-table-operation-never-returned";
    if (std::string(ph) == "oracle" || std::string(ph) == "destroy") return "stuck:quiescent-operation-never-returned";
    return "";
  };
  wd.start();
  uint64_t n_fixed = 0, n_set = 0, n_map = 0;
  if (mode == "all") {
    n_fixed = vf::budget(60, 3000);
    n_set = vf::budget(100, 5000);
    n_map = vf::budget(60, 3000);
  } else if (mode == "fixed") n_fixed = vf::budget(200, 8000);
  else if (mode == "set") n_set = vf::budget(200, 8000);
  else if (mode == "map") n_map = vf::budget(200, 8000);
  uint64_t e = 0;
  auto want = [&](uint64_t idx) { return a.only_episode < 0 || uint64_t(a.only_episode) == idx; };
  for (uint64_t i = 0; i < n_fixed && !vf::failed(); ++i, ++e) if (want(e)) run_episode<FixedDriver>(a.seed, e, int(i));
  for (uint64_t i = 0; i < n_set && !vf::failed(); ++i, ++e) if (want(e)) run_episode<SetDriver>(a.seed, e, int(i));
  for (uint64_t i = 0; i < n_map && !vf::failed(); ++i, ++e) if (want(e)) run_episode<MapDriver>(a.seed, e, int(i));
  wd.shutdown();
  vf::extra("fence_paths", "\"find/do_emplace acquire fence is TSan-annotated; the publishing tag stores are real release stores\"");
  return vf::finish();
}
