// C04 — ConcurrentVector: stable addresses, one element per index, elements built
// and destroyed exactly once, retired block tables survive one cooling period.
//
// Modes (one executable, `--mode all|grow|cooling`):
//   grow     virtual time frozen, no harness lock at all (maximum TSan reach): 2..16
//            threads race ensure/reserve/[]/snapshot/reserved_snapshot/fill_n/copy_n/
//            for_each/gc/size over static block sizes {1,2,128} and dynamic
//            {1,3->4,1024}, element type with observable constructor/destructor or a
//            trivial type (memset path).
//   cooling  the executable owns clock_gettime(CLOCK_MONOTONIC_RAW): a virtual clock
//            that a clock thread advances (seconds .. days, across the 16-bit
//            timestamp wrap) ONLY while no vector operation of any thread is in flight
//            (every operation holds a shared lock, the jump takes it exclusively: the
//            documented premise that no single operation outlasts the cooling period).
//            Workers keep snapshots taken at virtual time t0 and use them while
//            vnow < t0 + 64 s; tables are retired continuously; gc() is called.
//
// Oracles:
//   (1) index -> address map: every observation of every thread equals the first;
//       address -> index map: no element serves two indices.
//   (2) element registry keyed by address: constructed exactly once before it is
//       visible (LIVE + magic, plain field => TSan checks publication), never destroyed
//       while the vector lives once it was handed out, destroyed exactly once when the
//       vector dies; total ctor == total dtor (speculative blocks of CAS losers are
//       built and destroyed, never visible); every allocation made inside the library
//       is returned after destruction (replaced operator new/delete, registry keyed by
//       pointer; sized/aligned delete arguments must match the allocation).
//   (3) cooling period: every table that was *seen current* at virtual time ts (pointer
//       of a snapshot) and is freed at virtual time tf while the vector lives must
//       satisfy tf - ts >= 64 s (independent of any reader); readers inside their
//       window dereference the table (ASan use-after-free / TSan race with free /
//       poisoned content in plain) and compare it with what they saw at t0.
#include <pthread.h>

#include <new>

#include "babylon/concurrent/vector.h"
#include "common/vf.h"

namespace c04 {

constexpr int64_t kNs = 1000000000LL;
constexpr int64_t kCoolingNs = 64 * kNs;
// Virtual time may also pass WHILE operations are in flight ("drift", no exclusive lock), but at most this much
// between two exclusive jumps: an operation can then never see more than 8 s go by — far below the cooling
// period, so the documented premise (no operation outlasts it) still holds — and 64 s can never elapse without
// an exclusive jump in between (which is what orders a reader's last use before a legitimate free for TSan).
// Added after the seeded change C04-a2 (clock sampled before the head load in RetireList::retire) escaped: it
// needs the clock to cross a 64 s unit boundary during one retire() call.
constexpr int64_t kDriftBudgetNs = 8 * kNs;
constexpr size_t kMaxIndex = size_t(1) << 17;

////////////////////////////////////////////////////////////////////////////////
// per-thread context (trivial thread_local: usable inside operator new/delete)
enum Op : int {
  OP_NONE = 0, OP_CTOR, OP_DTOR, OP_ENSURE, OP_RESERVE, OP_INDEX, OP_SNAPSHOT, OP_RSNAPSHOT, OP_FILL,
  OP_COPY, OP_FOREACH, OP_CFOREACH, OP_GC, OP_SIZE, OP_HELD, OP_MOVE, OP_COUNT
};
const char* const kOpNames[OP_COUNT] = {"none", "construct", "destroy", "ensure", "reserve", "index", "snapshot",
                                        "reserved_snapshot", "fill_n", "copy_n", "for_each", "const_for_each",
                                        "gc", "size", "held_snapshot_use", "move"};
struct Tl {
  int in_lib;             // inside a library call issued by the harness
  int in_cb;              // inside harness code called back from the library (ctor/dtor/hook)
  int op;
  int thread;
  uint32_t ctor_serial;
  uint32_t spec_dtor_in_op;  // speculative elements destroyed during the current op
  uint32_t retry_in_op;      // a constructor ran after a speculative destruction in the same op
};
static thread_local Tl tl;

static std::atomic<int64_t> g_vnow_ns {0};   // the virtual CLOCK_MONOTONIC_RAW
static std::atomic<int64_t> g_drift_since_jump {0};  // virtual time that passed while operations were in flight
static std::atomic<bool> g_drift_enabled {false};    // cooling episodes only
static std::atomic<bool> g_dying {false};    // the vector is being destroyed (frees are legitimate)
static std::atomic<bool> g_poison {false};   // overwrite library blocks before freeing (plain/tsan)
static std::atomic<uint32_t> g_ctor_stride_mask {0};
static std::string* g_cfg_desc = nullptr;    // current episode description (for witnesses)

static std::string ctx() {
  return (g_cfg_desc ? *g_cfg_desc : std::string("?")) +
         vf::fmt(" | thread=%d op=%s vnow=%.3fs", tl.thread, kOpNames[tl.op],
                 double(g_vnow_ns.load(std::memory_order_relaxed)) / 1e9);
}
struct CbScope {
  CbScope() { ++tl.in_cb; }
  ~CbScope() { --tl.in_cb; }
};
static void report(const std::string& key, const std::string& msg, const std::string& detail = "") {
  CbScope cb;  // allocations of the report are not library allocations
  vf::violation(key, msg, ctx() + (detail.empty() ? "" : "\n" + detail));
}

////////////////////////////////////////////////////////////////////////////////
// Registry of allocations made inside library calls (pointer -> size/alignment,
// last virtual time at which the block was seen to be the current block table).
struct AllocReg {
  static constexpr size_t N = size_t(1) << 17;
  std::atomic<uintptr_t> key[N];   // 0 empty, 1 tombstone
  std::atomic<uint64_t> meta[N];   // size << 16 | alignment
  std::atomic<int64_t> seen[N];    // (vtime ns + 1) last seen current; 0 = never a current table
  std::atomic<int64_t> live {0};
  std::atomic<int64_t> live_bytes {0};
  std::atomic<uint64_t> inserted {0};
  std::atomic<bool> overflow {false};

  static size_t hash(uintptr_t p) { return size_t(((p >> 4) * 0x9E3779B97F4A7C15ULL) >> (64 - 17)); }
  void insert(void* ptr, size_t size, size_t align) {
    uintptr_t p = reinterpret_cast<uintptr_t>(ptr);
    size_t h = hash(p);
    for (size_t probe = 0; probe < N; ++probe) {
      size_t i = (h + probe) & (N - 1);
      uintptr_t k = key[i].load(std::memory_order_relaxed);
      if (k <= 1 && key[i].compare_exchange_strong(k, p, std::memory_order_relaxed)) {
        meta[i].store((uint64_t(size) << 16) | uint64_t(align), std::memory_order_relaxed);
        seen[i].store(0, std::memory_order_relaxed);
        live.fetch_add(1, std::memory_order_relaxed);
        live_bytes.fetch_add(int64_t(size), std::memory_order_relaxed);
        inserted.fetch_add(1, std::memory_order_relaxed);
        return;
      }
    }
    overflow.store(true, std::memory_order_relaxed);
  }
  long find(const void* ptr) {
    uintptr_t p = reinterpret_cast<uintptr_t>(ptr);
    size_t h = hash(p);
    for (size_t probe = 0; probe < N; ++probe) {
      size_t i = (h + probe) & (N - 1);
      uintptr_t k = key[i].load(std::memory_order_relaxed);
      if (k == p) return long(i);
      if (k == 0) return -1;
    }
    return -1;
  }
  void clear() {
    memset(static_cast<void*>(key), 0, sizeof key);
    live.store(0, std::memory_order_relaxed);
    live_bytes.store(0, std::memory_order_relaxed);
    inserted.store(0, std::memory_order_relaxed);
    overflow.store(false, std::memory_order_relaxed);
  }
};
static AllocReg g_alloc;
static std::atomic<bool> g_track {false};  // an episode is running: register library allocations

static std::atomic<uint64_t> g_tables_freed_live {0};  // seen-current tables freed while the vector lived (per episode)

static void note_table_seen_current(const void* table) {
  long s = g_alloc.find(table);
  if (s < 0) return;  // the static empty table, or allocated before tracking
  int64_t v = g_vnow_ns.load(std::memory_order_relaxed) + 1;
  int64_t cur = g_alloc.seen[s].load(std::memory_order_relaxed);
  while (cur < v && !g_alloc.seen[s].compare_exchange_weak(cur, v, std::memory_order_relaxed)) {
  }
}

static void* vf_new(size_t size, size_t align) {
  void* p = nullptr;
  if (size == 0) size = 1;
  if (align <= alignof(std::max_align_t)) {
    p = ::malloc(size);
  } else if (::posix_memalign(&p, align, size) != 0) {
    p = nullptr;
  }
  if (p == nullptr) {
    fprintf(stderr, "[c04] out of memory (%zu bytes)\n", size);
    abort();
  }
  if (tl.in_lib && !tl.in_cb && g_track.load(std::memory_order_relaxed)) g_alloc.insert(p, size, align);
  return p;
}
// size == 0: unsized delete; align == 0: delete without alignment argument
static void vf_delete(void* p, size_t size, size_t align) noexcept {
  if (p == nullptr) return;
  if (g_track.load(std::memory_order_relaxed) && (tl.in_lib || align > alignof(std::max_align_t))) {
    long s = g_alloc.find(p);
    if (s >= 0) {
      uint64_t m = g_alloc.meta[s].load(std::memory_order_relaxed);
      int64_t seen = g_alloc.seen[s].load(std::memory_order_relaxed);
      size_t asize = size_t(m >> 16), aalign = size_t(m & 0xffff);
      g_alloc.key[s].store(1, std::memory_order_relaxed);
      g_alloc.live.fetch_sub(1, std::memory_order_relaxed);
      g_alloc.live_bytes.fetch_sub(int64_t(asize), std::memory_order_relaxed);
      CbScope cb;  // counters / reports created below are harness allocations
      if ((size != 0 && size != asize) || (align != 0 && align != aalign) ||
          (align == 0 && aalign > alignof(std::max_align_t))) {
        report("delete-arguments-do-not-match-allocation",
               "operator delete was called with a size/alignment different from the allocation",
               vf::fmt("ptr=%p allocated size=%zu align=%zu, deleted with size=%zu align=%zu", p, asize, aalign,
                       size, align));
      }
      if (seen != 0 && !g_dying.load(std::memory_order_relaxed)) {
        // a block table that was the current one at virtual time (seen-1) is freed while the vector lives
        int64_t tf = g_vnow_ns.load(std::memory_order_relaxed), ts = seen - 1;
        g_tables_freed_live.fetch_add(1, std::memory_order_relaxed);
        if (tl.op == OP_GC) VF_COUNT("rare:table_expired_on_gc");
        else VF_COUNT("rare:table_expired_on_retire");
        // slack = the in-flight drift budget: a retire() that sampled the clock, was delayed across a unit
        // boundary and then lost its CAS re-publishes the list with its older stamp, so even the unchanged code
        // may free a table up to one operation's duration short of 64 s (the code's own comment accepts that)
        if (tf - ts < kCoolingNs - kDriftBudgetNs) {
          report("table-freed-inside-cooling-period",
                 "a retired block table was freed less than 64 s (virtual) after it was last the current table",
                 vf::fmt("table=%p size=%zu last seen current at %.3fs, freed at %.3fs (%.3fs later) by op %s", p,
                         asize, double(ts) / 1e9, double(tf) / 1e9, double(tf - ts) / 1e9, kOpNames[tl.op]));
        } else {
          VF_COUNT("obs:table_freed_after_cooling");
        }
      }
      if (g_poison.load(std::memory_order_relaxed)) memset(p, 0xDD, asize);
    } else if (align > alignof(std::max_align_t) && tl.in_lib && !tl.in_cb) {
      report("aligned-delete-of-unknown-block",
             "the library freed an over-aligned block that is not a live library allocation (double free?)",
             vf::fmt("ptr=%p size=%zu align=%zu", p, size, align));
      return;  // do not hand an unknown pointer to free()
    }
  }
  ::free(p);
}

////////////////////////////////////////////////////////////////////////////////
// Element registry keyed by element address.
constexpr uint32_t ST_LIVE = 1, ST_VISIBLE = 2;
struct ElemReg {
  static constexpr size_t N = size_t(1) << 18;
  std::atomic<uintptr_t> key[N];
  std::atomic<uint32_t> state[N];
  std::atomic<uint32_t> idx1[N];  // index + 1 the element was handed out for
  std::atomic<uint64_t> used {0};
  static size_t hash(uintptr_t p) { return size_t(((p >> 3) * 0x9E3779B97F4A7C15ULL) >> (64 - 18)); }
  long find(const void* ptr, bool insert) {
    uintptr_t p = reinterpret_cast<uintptr_t>(ptr);
    size_t h = hash(p);
    for (size_t probe = 0; probe < N; ++probe) {
      size_t i = (h + probe) & (N - 1);
      uintptr_t k = key[i].load(std::memory_order_relaxed);
      if (k == p) return long(i);
      if (k == 0) {
        if (!insert) return -1;
        if (key[i].compare_exchange_strong(k, p, std::memory_order_relaxed)) {
          used.fetch_add(1, std::memory_order_relaxed);
          return long(i);
        }
        if (k == p) return long(i);
      }
    }
    return -1;
  }
  void clear() {
    memset(static_cast<void*>(key), 0, sizeof key);
    memset(static_cast<void*>(state), 0, sizeof state);
    memset(static_cast<void*>(idx1), 0, sizeof idx1);
    used.store(0, std::memory_order_relaxed);
  }
};
static ElemReg g_elems;
static std::atomic<uint64_t> g_ctor_total {0}, g_dtor_total {0}, g_spec_destroyed {0}, g_dtor_visible {0},
    g_dtor_unobserved {0}, g_assigns {0};

constexpr uint64_t kMagic = 0xC04E1E3A5EEDF00DULL, kDead = 0xDEADDEADDEADDEADULL;

struct Elem {
  uint64_t magic;                      // plain on purpose: its publication is the library's job
  std::atomic<uint64_t> payload {0};   // written by fill_n / copy_n of several threads
  uint32_t tag;
  bool harness_made;

  Elem() noexcept { construct(0); }
  explicit Elem(uint32_t t) noexcept { construct(t); }
  Elem(const Elem&) = delete;
  Elem& operator=(const Elem& o) noexcept {
    assigned();
    payload.store(o.payload.load(std::memory_order_relaxed), std::memory_order_relaxed);
    return *this;
  }
  Elem& operator=(uint64_t v) noexcept {
    assigned();
    payload.store(v, std::memory_order_relaxed);
    return *this;
  }
  ~Elem() noexcept;

 private:
  void construct(uint32_t t) noexcept;
  void assigned() noexcept {
    g_assigns.fetch_add(1, std::memory_order_relaxed);
    if (magic != (kMagic ^ reinterpret_cast<uintptr_t>(this))) {
      report("assignment-to-unconstructed-element", "fill_n/copy_n assigned to memory that is not a constructed element",
             vf::fmt("this=%p magic=%lx", (void*)this, (unsigned long)magic));
    }
  }
};

void Elem::construct(uint32_t t) noexcept {
  tag = t;
  if (!tl.in_lib) {  // prototype built by the harness itself (fill_n argument)
    harness_made = true;
    magic = kMagic ^ reinterpret_cast<uintptr_t>(this);
    return;
  }
  harness_made = false;
  CbScope cb;
  long s = g_elems.find(this, true);
  if (s >= 0) {
    uint32_t old = g_elems.state[s].fetch_or(ST_LIVE, std::memory_order_relaxed);
    if (old & ST_LIVE) {
      report("element-constructed-twice", "an element was constructed at an address that holds a live element",
             vf::fmt("this=%p state=%u", (void*)this, old));
    }
  }
  g_ctor_total.fetch_add(1, std::memory_order_relaxed);
  if (tl.spec_dtor_in_op) tl.retry_in_op = 1;
  // window between block-table copy and CAS publish: the element is built but not yet visible
  if ((tl.ctor_serial++ & g_ctor_stride_mask.load(std::memory_order_relaxed)) == 0) vf::perturb("cb:c04_ctor");
  magic = kMagic ^ reinterpret_cast<uintptr_t>(this);
}

Elem::~Elem() noexcept {
  if (harness_made && !tl.in_lib) {
    magic = kDead;
    return;
  }
  CbScope cb;
  bool dying = g_dying.load(std::memory_order_relaxed);
  long s = g_elems.find(this, false);
  if (s < 0) {
    report("destroyed-element-never-constructed", "destructor ran on memory no constructor ever ran on",
           vf::fmt("this=%p", (void*)this));
  } else {
    uint32_t old = g_elems.state[s].fetch_and(~(ST_LIVE | ST_VISIBLE), std::memory_order_relaxed);
    g_elems.idx1[s].store(0, std::memory_order_relaxed);
    if (!(old & ST_LIVE)) {
      report("element-destroyed-twice", "destructor ran on an element that is not alive (destroyed twice)",
             vf::fmt("this=%p state=%u", (void*)this, old));
    }
    if (old & ST_VISIBLE) {
      if (!dying) {
        report("visible-element-destroyed-while-vector-alive",
               "an element that had been handed out was destroyed before the vector died",
               vf::fmt("this=%p", (void*)this));
      } else {
        g_dtor_visible.fetch_add(1, std::memory_order_relaxed);
      }
    } else if (!dying) {
      g_spec_destroyed.fetch_add(1, std::memory_order_relaxed);
      ++tl.spec_dtor_in_op;
    } else {
      g_dtor_unobserved.fetch_add(1, std::memory_order_relaxed);
    }
  }
  if (magic != (kMagic ^ reinterpret_cast<uintptr_t>(this))) {
    report("element-corrupt-at-destruction", "destructor found a wrong magic",
           vf::fmt("this=%p magic=%lx", (void*)this, (unsigned long)magic));
  }
  magic = kDead;
  g_dtor_total.fetch_add(1, std::memory_order_relaxed);
}

struct Triv {  // trivial type: the library memsets blocks instead of constructing
  uint64_t v;
};
static_assert(std::is_trivial<Triv>::value, "");

////////////////////////////////////////////////////////////////////////////////
// index -> address map
static std::atomic<uintptr_t> g_canon[kMaxIndex];
static std::atomic<uint8_t> g_canon_owner[kMaxIndex];
static std::atomic<uint64_t> g_observations {0};
static uint32_t g_expected_tag = 0;
static int g_nthreads = 1;

static inline uint64_t triv_token(size_t i) { return 0x7000000000000000ULL | (uint64_t(i) + 1); }

template <typename T>
static bool observe(size_t i, T* p, const char* how) {
  if (i >= kMaxIndex) return true;
  g_observations.fetch_add(1, std::memory_order_relaxed);
  uintptr_t a = reinterpret_cast<uintptr_t>(p), exp = 0;
  if (g_canon[i].load(std::memory_order_relaxed) != a) {
    if (g_canon[i].compare_exchange_strong(exp, a, std::memory_order_relaxed)) {
      g_canon_owner[i].store(uint8_t(tl.thread + 1), std::memory_order_relaxed);
    } else if (exp != a) {
      report("index-address-changed", "two observations of the same index returned different addresses",
             vf::fmt("index=%zu first=%p now=%p via %s", i, (void*)exp, (void*)a, how));
      return false;  // do not dereference
    }
  }
  if constexpr (std::is_same<typename std::remove_const<T>::type, Elem>::value) {
    long s = g_elems.find(p, false);
    if (s < 0) {
      report("element-visible-but-never-constructed", "an address was handed out that no constructor ran on",
             vf::fmt("index=%zu addr=%p via %s", i, (void*)a, how));
      return false;
    }
    uint32_t st = g_elems.state[s].fetch_or(ST_VISIBLE, std::memory_order_relaxed);
    if (!(st & ST_LIVE)) {
      report("element-visible-but-not-alive", "an address was handed out whose element is not (or no longer) constructed",
             vf::fmt("index=%zu addr=%p state=%u via %s", i, (void*)a, st, how));
      return false;
    }
    uint32_t want = uint32_t(i) + 1, cur = 0;
    if (g_elems.idx1[s].load(std::memory_order_relaxed) != want &&
        !g_elems.idx1[s].compare_exchange_strong(cur, want, std::memory_order_relaxed) && cur != want) {
      report("two-indices-share-one-element", "the same element address was handed out for two indices",
             vf::fmt("addr=%p index=%zu and index=%u via %s", (void*)a, i, cur - 1, how));
      return false;
    }
    uint64_t m = p->magic;  // plain read: must be published by the library's release/acquire
    if (m != (kMagic ^ a) || p->tag != g_expected_tag) {
      report("element-visible-before-constructed", "a handed-out element does not carry its constructor's marks",
             vf::fmt("index=%zu addr=%p magic=%lx tag=%u expected tag=%u via %s", i, (void*)a, (unsigned long)m, p->tag,
                     g_expected_tag, how));
      return false;
    }
  } else {
    // trivial type: only the owner thread of an index touches the value (no harness-made race)
    if (int(i % size_t(g_nthreads)) == tl.thread && tl.thread >= 0) {
      auto* q = const_cast<Triv*>(p);
      uint64_t v = q->v;
      if (v == 0) {
        q->v = triv_token(i);
      } else if (v != triv_token(i)) {
        report("trivial-element-not-zero-initialised", "a fresh element of a trivial type was not zero / lost its value",
               vf::fmt("index=%zu addr=%p value=%lx via %s", i, (void*)a, (unsigned long)v, how));
        return false;
      }
    }
  }
  return true;
}

////////////////////////////////////////////////////////////////////////////////
// The lock that encodes "no single operation lasts longer than the cooling period":
// every vector operation holds it shared, the clock jumps under the exclusive side.
// One flag per thread instead of a reader count on purpose: a shared counter would make
// every pair of operations of different threads ordered for TSan (release sequence on the
// counter) and blind it. With per-thread flags the only edges are worker -> clock thread
// (flag release / acquire scan) and clock thread -> worker (writer flag): operations of
// different threads are ordered only when a clock jump lies between them - the passing of
// (virtual) time is exactly the synchronisation time-based reclamation relies on.
struct TimeLock {
  static constexpr int kSlots = 40;
  struct alignas(64) Slot {
    std::atomic<int> in_op {0};
  };
  Slot slots[kSlots];
  alignas(64) std::atomic<int> writer {0};
  static void backoff(int& spins) {
    // sleep early: in episodes pinned to 1-3 CPUs spinning waiters would starve the thread they wait for
    if (++spins < 3) sched_yield();
    else vf::raw_sleep_us(spins < 50 ? 40 : 200);
  }
  void lock_shared(int slot) {
    auto& f = slots[slot].in_op;
    int spins = 0;
    for (;;) {
      while (writer.load(std::memory_order_acquire)) backoff(spins);
      f.store(1, std::memory_order_seq_cst);
      if (!writer.load(std::memory_order_seq_cst)) return;
      f.store(0, std::memory_order_release);
    }
  }
  void unlock_shared(int slot) { slots[slot].in_op.store(0, std::memory_order_release); }
  void lock() {
    writer.store(1, std::memory_order_seq_cst);
    int spins = 0;
    for (auto& sl : slots) {
      while (sl.in_op.load(std::memory_order_seq_cst) != 0) backoff(spins);
    }
  }
  void unlock() { writer.store(0, std::memory_order_release); }
};
static TimeLock g_time_lock;

struct LibScope {
  explicit LibScope(int op) {
    tl.op = op;
    tl.spec_dtor_in_op = 0;
    tl.retry_in_op = 0;
    vf::set_op(kOpNames[op]);
    tl.in_lib = 1;
  }
  ~LibScope() {
    tl.in_lib = 0;
    if (tl.spec_dtor_in_op) VF_COUNT("rare:cas_lost_speculative_blocks_destroyed");
    if (tl.retry_in_op) VF_COUNT("rare:cas_lost_retry_with_larger_table");
  }
};

// Reads the current block table pointer of the vector of the running episode (set by Runner).
static std::atomic<const void* (*)()> g_peek_table {nullptr};

static void hook(const char* name) noexcept {
  CbScope cb;  // counters created inside vf::perturb are not library allocations
  // A grower about to publish: whatever table is current right now is current at this
  // virtual time. Stamping it here gives (almost) every table that is ever retired a
  // "last seen current" time for the free-time oracle, even if no snapshot caught it.
  if (name[4] == 'b' && strcmp(name, "vec:before_cas") == 0) {
    auto peek = g_peek_table.load(std::memory_order_relaxed);
    if (peek != nullptr) note_table_seen_current(peek());
  }
  vf::perturb(name);
}

////////////////////////////////////////////////////////////////////////////////
struct Cfg {
  int kind = 0;          // index into the type table
  const char* kind_name = "";
  size_t bs_hint = 0;    // dynamic block size hint
  size_t bs = 1;         // effective block size
  bool custom_ctor = false;
  bool cooling = false;
  bool move_mid = false;
  int threads = 2;
  int n_ops = 1000;
  size_t max_index = 1000;
  int pin = 0;
  uint64_t seed = 0;
  std::string policy;
  int64_t base_ns = 0;
  std::string str() const {
    return vf::fmt("{\"type\": \"%s\", \"block_size\": %zu, \"hint\": %zu, \"custom_ctor\": %d, \"mode\": \"%s\", "
                   "\"move_mid\": %d, \"threads\": %d, \"ops_per_thread\": %d, \"max_index\": %zu, \"cpus\": %d, "
                   "\"base_s\": %.3f, \"policy\": \"%s\"}",
                   kind_name, bs, bs_hint, int(custom_ctor), cooling ? "cooling" : "grow", int(move_mid), threads, n_ops,
                   max_index, pin, double(base_ns) / 1e9, policy.c_str());
  }
};

static std::atomic<uint64_t> g_ops {0};
static std::atomic<int> g_workers_done {0};
static std::atomic<uint64_t> g_held_use {0}, g_held_superseded {0}, g_held_superseded_old {0};

template <typename T, size_t BS>
struct Runner {
  using V = babylon::ConcurrentVector<T, BS>;
  using Snap = typename V::Snapshot;
  static constexpr bool kElem = std::is_same<T, Elem>::value;
  struct Held {
    Snap snap;
    int64_t t0;
    size_t nblocks;
    size_t size;
    const void* table;
  };

  const Cfg& cfg;
  V* vec = nullptr;
  explicit Runner(const Cfg& c) : cfg(c) {}
  static inline std::atomic<V*> s_vec {nullptr};
  static const void* peek_table() {
    V* v = s_vec.load(std::memory_order_relaxed);
    return v ? static_cast<const void*>(v->_block_table.load(std::memory_order_relaxed)) : nullptr;
  }
  void set_peek(V* v) {
    s_vec.store(v, std::memory_order_relaxed);
    g_peek_table.store(v ? &peek_table : nullptr, std::memory_order_relaxed);
  }

  V* make() {
    LibScope ls(OP_CTOR);
    if constexpr (kElem) {
      if (cfg.custom_ctor) {
        auto c = [](Elem* p) { new (p) Elem(7u); };
        if constexpr (BS == 0) return new V(cfg.bs_hint, c);
        else return new V(c);
      }
    }
    if constexpr (BS == 0) return new V(cfg.bs_hint);
    else return new V();
  }
  void destroy(V* v) {
    LibScope ls(OP_DTOR);
    delete v;
  }

  size_t pick_index(vf::Rng& r, size_t& frontier) {
    uint64_t x = r.below(100);
    size_t i;
    if (x < 55) {
      i = frontier++;
    } else if (x < 70) {
      frontier += 1 + r.below(r.chance(1, 4) ? 4 * cfg.bs + 40 : cfg.bs + 3);
      i = frontier;
    } else {
      i = r.below(frontier + 1);
    }
    if (frontier >= cfg.max_index) frontier = cfg.max_index - 1;
    if (i >= cfg.max_index) i = cfg.max_index - 1;
    return i;
  }

  void note_snapshot(const Snap& s) { note_table_seen_current(s._block_table); }

  void check_size(size_t n, size_t known, const char* how) {
    if (n < known || (n & (cfg.bs - 1)) != 0) {
      report("size-shrank-or-not-block-multiple", "size() is smaller than an index already ensured, or not n*block_size",
             vf::fmt("size=%zu known=%zu block_size=%zu via %s", n, known, cfg.bs, how));
    }
  }

  void use_held(vf::Rng& r, std::vector<Held>& held, int64_t vnow) {
    if (held.empty()) return;
    size_t k = r.below(held.size());
    Held& h = held[k];
    if (vnow - h.t0 >= kCoolingNs - kDriftBudgetNs) {  // the guaranteed window (minus in-flight drift) is over: never touch it again
      VF_COUNT("obs:held_snapshot_window_over");
      held[k] = held.back();
      held.pop_back();
      return;
    }
    tl.op = OP_HELD;
    vf::set_op(kOpNames[OP_HELD]);
    g_held_use.fetch_add(1, std::memory_order_relaxed);
    bool superseded = vec->_block_table.load(std::memory_order_relaxed) != h.table;
    if (superseded) {
      g_held_superseded.fetch_add(1, std::memory_order_relaxed);
      if (vnow - h.t0 >= kCoolingNs / 2) g_held_superseded_old.fetch_add(1, std::memory_order_relaxed);
    }
    // the table itself is dereferenced here: freed memory => ASan / TSan / poisoned content
    size_t nb = h.snap._block_table->size;
    if (nb != h.nblocks || h.snap.size() != h.size) {
      report("held-snapshot-table-changed-inside-window",
             "a snapshot taken less than 64 s (virtual) ago no longer reads the table it designated (freed/reused)",
             vf::fmt("table=%p blocks then=%zu now=%zu age=%.3fs superseded=%d", h.table, h.nblocks, nb,
                     double(vnow - h.t0) / 1e9, int(superseded)));
      held[k] = held.back();
      held.pop_back();
      return;
    }
    if (h.size == 0) return;
    int n = 1 + int(r.below(4));
    for (int j = 0; j < n; ++j) {
      size_t i = r.below(h.size);
      // compare the block pointer stored in the old table before dereferencing through it
      T* blk = h.snap._block_table->blocks[i / cfg.bs];
      uintptr_t canon = g_canon[i].load(std::memory_order_relaxed);
      uintptr_t a = reinterpret_cast<uintptr_t>(blk + (i & (cfg.bs - 1)));
      if (canon != 0 && canon != a) {
        report("held-snapshot-table-changed-inside-window",
               "a snapshot taken less than 64 s (virtual) ago maps an index to a different address (freed/reused table)",
               vf::fmt("table=%p index=%zu canonical=%p via old table=%p age=%.3fs", h.table, i, (void*)canon, (void*)a,
                       double(vnow - h.t0) / 1e9));
        held[k] = held.back();
        held.pop_back();
        return;
      }
      observe(i, &h.snap[i], "held snapshot[]");
    }
    if (r.chance(1, 8)) {
      size_t b = r.below(h.size), e = std::min(h.size, b + 1 + r.below(2 * cfg.bs + 2));
      size_t cur = b;
      const Snap& cs = h.snap;
      cs.for_each(b, e, [&](const T* it, const T* end) {
        if (it < end) {
          observe(cur, it, "held snapshot.for_each");
          if (end - it > 1) observe(cur + size_t(end - it) - 1, end - 1, "held snapshot.for_each");
        }
        cur += size_t(end - it);
      });
      if (cur != e) {
        report("for_each-range-mismatch", "for_each did not cover exactly [begin, end)",
               vf::fmt("begin=%zu end=%zu covered up to %zu (held snapshot)", b, e, cur));
      }
    }
  }

  void worker(int t) {
    tl = Tl {};
    tl.thread = t;
    vf::Rng& r = vf::tl_rng();
    size_t frontier = 0, known = 0;
    std::vector<Held> held;
    held.reserve(16);
    std::vector<uint64_t> src(512);
    for (size_t i = 0; i < src.size(); ++i) src[i] = (uint64_t(t) << 40) | i;
    // weights
    int w_ensure = 34, w_reserve = 6, w_index = 12, w_snap = 8, w_rsnap = 6, w_fill = kElem ? 4 : 0,
        w_copy = kElem ? 4 : 0, w_foreach = 6, w_cforeach = 4, w_gc = 3, w_size = 3, w_held = 0;
    if (cfg.cooling) {
      w_snap = 14;
      w_held = 34;
      w_ensure = 30;
      w_index = 6;
    }
    int total = w_ensure + w_reserve + w_index + w_snap + w_rsnap + w_fill + w_copy + w_foreach + w_cforeach + w_gc +
                w_size + w_held;
    for (int op = 0; op < cfg.n_ops && !vf::failed(); ++op) {
      if (g_elems.used.load(std::memory_order_relaxed) > ElemReg::N * 6 / 10 ||
          g_alloc.inserted.load(std::memory_order_relaxed) > AllocReg::N / 2) {
        VF_COUNT("obs:episode_cut_registry_full");
        break;
      }
      if (cfg.cooling) g_time_lock.lock_shared(t);
      int64_t vnow = g_vnow_ns.load(std::memory_order_relaxed);
      int x = int(r.below(uint64_t(total)));
      auto take = [&](int w) { bool hit = x >= 0 && x < w; x -= w; return hit; };
      if (take(w_ensure)) {
        size_t i = pick_index(r, frontier);
        T* p;
        {
          LibScope ls(OP_ENSURE);
          p = &vec->ensure(i);
        }
        observe(i, p, "ensure");
        known = std::max(known, i + 1);
      } else if (take(w_reserve)) {
        size_t n = pick_index(r, frontier) + 1;
        size_t sz;
        {
          LibScope ls(OP_RESERVE);
          vec->reserve(n);
          sz = vec->size();
        }
        known = std::max(known, n);
        check_size(sz, known, "reserve+size");
      } else if (take(w_index)) {
        if (known > 0) {
          size_t i = r.below(known);
          LibScope ls(OP_INDEX);
          if (r.chance(1, 2)) {
            observe(i, &(*vec)[i], "operator[]");
          } else {
            const V& cv = *vec;
            observe(i, &cv[i], "const operator[]");
          }
        }
      } else if (take(w_snap)) {
        LibScope ls(OP_SNAPSHOT);
        Snap s;
        if (r.chance(1, 3)) {
          const V& cv = *vec;
          auto cs = cv.snapshot();
          s = cs._snapshot;
          if (cs.size() != s.size()) report("const-snapshot-size", "ConstSnapshot::size differs from its Snapshot");
        } else {
          s = vec->snapshot();
        }
        note_snapshot(s);
        size_t n = s.size();
        check_size(n, known, "snapshot.size");
        if (n > 0) {
          int cnt = 1 + int(r.below(4));
          for (int j = 0; j < cnt; ++j) {
            size_t i = r.below(n);
            observe(i, &s[i], "snapshot[]");
          }
        }
        if (cfg.cooling) {
          Held h {s, vnow, s._block_table->size, n, s._block_table};
          if (held.size() < 12) held.push_back(h);
          else held[r.below(held.size())] = h;
        }
      } else if (take(w_rsnap)) {
        size_t n = pick_index(r, frontier) + 1;
        LibScope ls(OP_RSNAPSHOT);
        Snap s = vec->reserved_snapshot(n);
        note_snapshot(s);
        known = std::max(known, n);
        check_size(s.size(), known, "reserved_snapshot.size");
        size_t i = r.below(n);
        observe(i, &s[i], "reserved_snapshot[]");
        observe(n - 1, &s[n - 1], "reserved_snapshot[]");
        if (cfg.cooling && held.size() < 12) held.push_back(Held {s, vnow, s._block_table->size, s.size(), s._block_table});
      } else if (take(w_fill)) {
        if constexpr (kElem) {
          size_t off = pick_index(r, frontier);
          size_t len = 1 + r.below(std::min<size_t>(3 * cfg.bs + 2, 160));
          if (off + len > cfg.max_index) len = cfg.max_index - off;
          T proto;  // harness-made prototype
          proto = (uint64_t(t) << 40) | uint64_t(op);
          if (r.chance(1, 2)) {
            LibScope ls(OP_FILL);
            vec->fill_n(off, len, proto);
          } else {
            LibScope ls(OP_FILL);
            Snap s = vec->reserved_snapshot(off + len);
            note_snapshot(s);
            s.fill_n(off, len, proto);
          }
          known = std::max(known, off + len);
          if (len > 0) {
            LibScope ls(OP_INDEX);
            observe(off + len - 1, &(*vec)[off + len - 1], "operator[] after fill_n");
          }
        }
      } else if (take(w_copy)) {
        if constexpr (kElem) {
          size_t off = pick_index(r, frontier);
          size_t len = 1 + r.below(std::min<size_t>(3 * cfg.bs + 2, 160));
          if (off + len > cfg.max_index) len = cfg.max_index - off;
          {
            LibScope ls(OP_COPY);
            vec->copy_n(src.begin(), len, off);
          }
          known = std::max(known, off + len);
          if (len > 0) {
            LibScope ls(OP_INDEX);
            observe(off, &(*vec)[off], "operator[] after copy_n");
          }
        }
      } else if (take(w_foreach)) {
        size_t b = pick_index(r, frontier);
        size_t e = std::min(cfg.max_index, b + r.below(std::min<size_t>(3 * cfg.bs + 2, 300)));
        size_t cur = b;
        {
          LibScope ls(OP_FOREACH);
          vec->for_each(b, e, [&](T* it, T* end) {
            CbScope cb;
            size_t n = size_t(end - it);
            if (n > 0) {
              observe(cur, it, "for_each");
              if (n > 1) observe(cur + n - 1, end - 1, "for_each");
              if (n > 2) {
                size_t k = 1 + tl.ctor_serial % (n - 1);
                observe(cur + k, it + k, "for_each");
              }
            }
            cur += n;
          });
        }
        known = std::max(known, e);
        if (cur != e) {
          report("for_each-range-mismatch", "for_each did not cover exactly [begin, end)",
                 vf::fmt("begin=%zu end=%zu covered up to %zu", b, e, cur));
        }
      } else if (take(w_cforeach)) {
        if (known > 0) {
          size_t b = r.below(known), e = std::min(known, b + r.below(2 * cfg.bs + 2));
          size_t cur = b;
          const V& cv = *vec;
          LibScope ls(OP_CFOREACH);
          cv.for_each(b, e, [&](const T* it, const T* end) {
            CbScope cb;
            size_t n = size_t(end - it);
            if (n > 0) {
              observe(cur, it, "const for_each");
              if (n > 1) observe(cur + n - 1, end - 1, "const for_each");
            }
            cur += n;
          });
          if (cur != e) {
            report("for_each-range-mismatch", "const for_each did not cover exactly [begin, end)",
                   vf::fmt("begin=%zu end=%zu covered up to %zu", b, e, cur));
          }
        }
      } else if (take(w_gc)) {
        LibScope ls(OP_GC);
        vec->gc();
      } else if (take(w_size)) {
        LibScope ls(OP_SIZE);
        check_size(vec->size(), known, "size");
      } else {
        use_held(r, held, vnow);
      }
      tl.op = OP_NONE;
      if (cfg.cooling) g_time_lock.unlock_shared(t);
      g_ops.fetch_add(1, std::memory_order_relaxed);
      vf::progress();
    }
    vf::set_op(nullptr);
    g_workers_done.fetch_add(1, std::memory_order_release);
  }

  // The clock thread of a cooling episode.
  void clock_thread(int logical, int nworkers) {
    tl = Tl {};
    tl.thread = logical;
    vf::Rng& r = vf::tl_rng();
    uint64_t last = 0;
    g_drift_since_jump.store(0, std::memory_order_relaxed);
    g_drift_enabled.store(true, std::memory_order_relaxed);
    while (g_workers_done.load(std::memory_order_acquire) < nworkers) {
      uint64_t stride = 20 + r.below(r.chance(1, 3) ? 600 : 150);
      // advance only after the workers completed `stride` more operations (case counts, not seconds)
      while (g_ops.load(std::memory_order_relaxed) - last < stride &&
             g_workers_done.load(std::memory_order_acquire) < nworkers) {
        vf::raw_sleep_us(50);
      }
      last = g_ops.load(std::memory_order_relaxed);
      int64_t now = g_vnow_ns.load(std::memory_order_relaxed), sec = now / kNs, add;
      // in-flight drift: time passes while operations run (no exclusive lock), bounded by kDriftBudgetNs
      // since the last exclusive jump; half of the drifts are aimed across the next 64 s unit boundary
      if (r.chance(2, 5)) {
        int64_t to_boundary = ((sec | 63) + 1) * kNs - now;
        int64_t d = r.chance(1, 2) && to_boundary < 2 * kNs ? to_boundary + int64_t(r.below(kNs / 2)) + 1
                                                            : int64_t(r.range(kNs / 5, kNs + kNs / 2));
        if (g_drift_since_jump.load(std::memory_order_relaxed) + d < kDriftBudgetNs) {
          g_drift_since_jump.fetch_add(d, std::memory_order_relaxed);
          g_vnow_ns.fetch_add(d, std::memory_order_relaxed);
          VF_COUNT("obs:clock_drifts_in_flight");
          if (((now + d) / kNs >> 6) != (sec >> 6)) VF_COUNT("rare:unit_boundary_crossed_in_flight");
          vf::progress();
          continue;
        }
      }
      uint64_t x = r.below(100);
      if (x < 55) add = int64_t(r.range(1, 40)) * kNs + int64_t(r.below(kNs));
      else if (x < 68) add = ((sec | 63) + 1 - sec) * kNs - now % kNs - int64_t(r.range(1, 1500)) * (kNs / 1000);  // 1 ms .. 1.5 s before the next 64 s boundary (a drift then crosses it in flight)
      else if (x < 74) add = ((sec | 63) + 1 - sec + int64_t(r.range(0, 2)) - 1) * kNs + int64_t(r.below(kNs));  // next 64 s boundary -1/0/+1 s
      else if (x < 82) add = int64_t(r.range(64, 300)) * kNs;
      else if (x < 90) add = int64_t(r.range(3600, 400000)) * kNs;
      else if (x < 96) add = (int64_t(65536 + int64_t(r.range(0, 4)) - 2) * 64) * kNs + int64_t(r.below(64)) * kNs;  // about one full 16-bit wrap
      else add = int64_t(r.below(kNs)) + 1;
      if (add <= 0) add = kNs;
      g_time_lock.lock();  // no vector operation of any thread is in flight
      g_vnow_ns.store(now + add, std::memory_order_relaxed);
      g_drift_since_jump.store(0, std::memory_order_relaxed);
      g_time_lock.unlock();
      VF_COUNT("obs:clock_jumps");
      if (((now + add) / kNs >> 22) != (sec >> 22)) VF_COUNT("rare:timestamp_16bit_wrap_crossed");
      if (r.chance(3, 4)) {
        g_time_lock.lock_shared(logical);
        {
          LibScope ls(OP_GC);
          vec->gc();
        }
        tl.op = OP_NONE;
        g_time_lock.unlock_shared(logical);
      }
      vf::progress();
    }
    g_drift_enabled.store(false, std::memory_order_relaxed);
    vf::set_op(nullptr);
  }

  void run_phase(uint64_t ep_seed, int phase) {
    g_workers_done.store(0, std::memory_order_relaxed);
    int n = cfg.threads + (cfg.cooling ? 1 : 0);
    vf::run_threads(n, vf::mix(ep_seed, uint64_t(phase), 0xfa5e), [&](int t) {
      if (t < cfg.threads) worker(t);
      else clock_thread(t, cfg.threads);
    });
  }

  void final_sweep() {
    tl.thread = -1;
    LibScope ls(OP_INDEX);
    size_t n = vec->size();
    for (size_t i = 0; i < std::min(n, kMaxIndex); ++i) {
      if (g_canon[i].load(std::memory_order_relaxed) != 0 || i < 4096 || (i & 63) == 0) {
        observe(i, &(*vec)[i], "final sweep operator[]");
      }
    }
  }

  void run(uint64_t ep_seed) {
    vec = make();
    if (vec->block_size() != cfg.bs) {
      report("block-size", "block_size() is not the hint rounded up to 2^n",
             vf::fmt("block_size=%zu expected=%zu", vec->block_size(), cfg.bs));
    }
    set_peek(vec);
    run_phase(ep_seed, 0);
    set_peek(nullptr);
    if (cfg.move_mid && !vf::failed()) {
      // not thread-safe by contract: done at a quiescent point. Storage must travel with the object.
      V* moved;
      {
        LibScope ls(OP_MOVE);
        moved = new V(std::move(*vec));
        if (vec->size() != 0) report("moved-from-not-empty", "moved-from vector still reports elements");
      }
      destroy(vec);
      vec = moved;
      VF_COUNT("obs:moved_mid_episode");
      set_peek(vec);
      run_phase(ep_seed, 1);
      set_peek(nullptr);
    }
    if (!vf::failed()) final_sweep();
    g_dying.store(true, std::memory_order_relaxed);
    destroy(vec);
    g_dying.store(false, std::memory_order_relaxed);
    vec = nullptr;
  }
};

////////////////////////////////////////////////////////////////////////////////
struct Kind {
  const char* name;
  size_t static_bs;  // 0 = dynamic
  size_t hint;
  size_t bs;
  bool elem;
};
static const Kind kKinds[] = {
    {"Elem,static 1", 1, 0, 1, true},       {"Elem,static 2", 2, 0, 2, true},
    {"Elem,static 128", 128, 0, 128, true}, {"Elem,dynamic hint 1", 0, 1, 1, true},
    {"Elem,dynamic hint 3->4", 0, 3, 4, true}, {"Elem,dynamic hint 1024", 0, 1024, 1024, true},
    {"Triv,static 2", 2, 0, 2, false},      {"Triv,dynamic hint 3->4", 0, 3, 4, false},
    {"Triv,dynamic hint 1000->1024", 0, 1000, 1024, false},
};
constexpr int kNumKinds = int(sizeof kKinds / sizeof kKinds[0]);

static void dispatch(const Cfg& cfg, uint64_t ep_seed) {
  switch (cfg.kind) {
    case 0: Runner<Elem, 1>(cfg).run(ep_seed); break;
    case 1: Runner<Elem, 2>(cfg).run(ep_seed); break;
    case 2: Runner<Elem, 128>(cfg).run(ep_seed); break;
    case 3: case 4: case 5: Runner<Elem, 0>(cfg).run(ep_seed); break;
    case 6: Runner<Triv, 2>(cfg).run(ep_seed); break;
    default: Runner<Triv, 0>(cfg).run(ep_seed); break;
  }
}

static const std::vector<std::string> kStallPoints = {"cb:clock_read", "cb:clock_read", "cb:c04_ctor", "vec:before_cas", "vec:cas_won", "vec:cas_lost",
                                                      "vec:retire_loaded", "vec:retire_expired", "vec:gc_expired"};

static void run_episode(uint64_t seed, uint64_t episode, bool cooling) {
  vf::Rng r(vf::mix(seed, episode, cooling ? 0xc001 : 0x9401));
  Cfg cfg;
  cfg.cooling = cooling;
  cfg.seed = vf::mix(seed, episode, 0xe9);
  if (cooling) {
    static const int kinds[] = {0, 0, 1, 3, 3, 4, 6, 7};
    cfg.kind = kinds[r.below(8)];
    cfg.threads = int(r.range(2, 8));
    cfg.n_ops = int(r.range(800, 3000));
  } else {
    cfg.kind = int(r.below(kNumKinds));
    cfg.threads = int(r.pick<int>({2, 3, 4, 4, 6, 8, 8, 12, 16}));
    cfg.n_ops = int(r.range(400, 2500));
  }
  const Kind& k = kKinds[cfg.kind];
  cfg.kind_name = k.name;
  cfg.bs_hint = k.hint;
  cfg.bs = k.bs;
  cfg.custom_ctor = k.elem && r.chance(1, 3);
  cfg.move_mid = r.chance(1, 5);
  // indices: dense fronts reach ~0.6*n_ops; keep growth going for the whole episode, bound memory
  size_t span = size_t(double(cfg.n_ops) * (0.5 + double(r.below(100)) / 100.0));
  if (cfg.bs >= 128) span = std::min<size_t>(span * (cfg.bs / 16), cfg.bs * 48);
  cfg.max_index = std::min(std::max<size_t>(span, 4 * cfg.bs + 8), kMaxIndex - 1);
  cfg.pin = r.chance(1, 4) ? int(r.range(1, 3)) : 0;
  // virtual time base: anywhere, often shortly before a 16-bit timestamp wrap (unit = 64 s)
  int64_t base_s = int64_t(r.below(400000000));
  if (r.chance(1, 2)) base_s = int64_t(r.range(1, 50)) * (int64_t(65536) * 64) - int64_t(r.below(600));
  cfg.base_ns = base_s * kNs + int64_t(r.below(kNs));
  cfg.policy = vf::draw_policy(r, kStallPoints, 400, 20000);
  g_ctor_stride_mask.store(cfg.bs >= 128 ? 63 : 0, std::memory_order_relaxed);
  g_expected_tag = cfg.custom_ctor ? 7u : 0u;
  g_nthreads = cfg.threads;

  std::string desc = vf::fmt("episode=%lu seed=%lu cfg=", (unsigned long)episode, (unsigned long)seed) + cfg.str();
  g_cfg_desc = &desc;
  vf::watchdog().set_context(desc);
  g_vnow_ns.store(cfg.base_ns, std::memory_order_relaxed);
  g_ops.store(0, std::memory_order_relaxed);
  for (auto* c : {&g_ctor_total, &g_dtor_total, &g_spec_destroyed, &g_dtor_visible, &g_dtor_unobserved, &g_assigns,
                  &g_observations, &g_held_use, &g_held_superseded, &g_held_superseded_old, &g_tables_freed_live}) {
    c->store(0, std::memory_order_relaxed);
  }
  vf::pin_cpus(cfg.pin);
  g_track.store(true, std::memory_order_relaxed);
  vf::watchdog().arm(true);

  dispatch(cfg, cfg.seed);

  vf::watchdog().arm(false);
  g_track.store(false, std::memory_order_relaxed);
  vf::disable_policy();
  vf::pin_cpus(0);
  tl = Tl {};
  tl.thread = -1;

  // ---- oracle after the vector died
  uint64_t ctor = g_ctor_total.load(), dtor = g_dtor_total.load();
  size_t observed = 0;
  uint64_t h = 0;
  if (!vf::failed()) {
    for (size_t i = 0; i < kMaxIndex; ++i) {
      uintptr_t a = g_canon[i].load(std::memory_order_relaxed);
      if (a == 0) continue;
      ++observed;
      if (observed <= 256) h = vf::mix(h, i, g_canon_owner[i].load(std::memory_order_relaxed));
      if (k.elem) {
        long s = g_elems.find(reinterpret_cast<void*>(a), false);
        if (s >= 0 && (g_elems.state[s].load(std::memory_order_relaxed) & ST_LIVE)) {
          report("element-not-destroyed-with-vector", "a handed-out element was not destroyed when the vector died",
                 vf::fmt("index=%zu addr=%p", i, (void*)a));
          break;
        }
      }
    }
    if (ctor != dtor) {
      report("constructor-destructor-imbalance", "total constructions != total destructions after the vector died",
             vf::fmt("ctor=%lu dtor=%lu speculative_destroyed=%lu", (unsigned long)ctor, (unsigned long)dtor,
                     (unsigned long)g_spec_destroyed.load()));
    }
    if (g_alloc.overflow.load()) {
      vf::note("allocation registry overflowed in " + desc + " (balance not decided for this episode)");
    } else if (g_alloc.live.load() != 0) {
      std::string leaks;
      int shown = 0;
      for (size_t i = 0; i < AllocReg::N && shown < 8; ++i) {
        uintptr_t kk = g_alloc.key[i].load(std::memory_order_relaxed);
        if (kk > 1) {
          uint64_t m = g_alloc.meta[i].load(std::memory_order_relaxed);
          leaks += vf::fmt(" %p(size=%lu,align=%lu,was_table=%d)", (void*)kk, (unsigned long)(m >> 16),
                           (unsigned long)(m & 0xffff), int(g_alloc.seen[i].load() != 0));
          ++shown;
        }
      }
      report("library-allocation-leaked-after-destruction",
             "blocks allocated inside ConcurrentVector calls are still allocated after the vector was destroyed",
             vf::fmt("live blocks=%ld bytes=%ld:", (long)g_alloc.live.load(), (long)g_alloc.live_bytes.load()) + leaks);
    }
  }
  bool nontrivial = g_spec_destroyed.load() > 0 || g_tables_freed_live.load() > 0 || g_held_superseded.load() > 0;
  uint64_t fp = vf::mix(h, uint64_t(cfg.kind) * 64 + uint64_t(cfg.threads), cfg.max_index,
                        (uint64_t(cooling) << 1) | uint64_t(cfg.move_mid));
  vf::evaluated(fp, nontrivial);
  VF_COUNT_N("obs:address_observations", g_observations.load());
  VF_COUNT_N("obs:elements_constructed", ctor);
  VF_COUNT_N("obs:speculative_elements_destroyed", g_spec_destroyed.load());
  VF_COUNT_N("obs:assignments_via_fill_copy", g_assigns.load());
  VF_COUNT_N("obs:library_allocations", g_alloc.inserted.load());
  VF_COUNT_N("obs:held_snapshot_uses", g_held_use.load());
  VF_COUNT_N("obs:held_snapshot_uses_after_superseded", g_held_superseded.load());
  VF_COUNT_N("obs:held_snapshot_uses_after_superseded_older_32s", g_held_superseded_old.load());
  VF_COUNT_N("obs:tables_freed_while_vector_alive", g_tables_freed_live.load());
  VF_COUNT_N("obs:vector_operations", g_ops.load());
  if (cooling) VF_COUNT("obs:episodes_cooling");
  else VF_COUNT("obs:episodes_grow");
  if (nontrivial || episode < 2) {
    CbScope cb;
    vf::sample(vf::fmt("{\"episode\": %lu, \"cfg\": %s, \"indices_observed\": %zu, \"observations\": %lu, "
                       "\"constructed\": %lu, \"speculative_destroyed\": %lu, \"tables_freed_after_cooling\": %lu, "
                       "\"held_snapshot_uses_after_superseded\": %lu, \"end_vtime_s\": %.3f}",
                       (unsigned long)episode, cfg.str().c_str(), observed, (unsigned long)g_observations.load(),
                       (unsigned long)ctor, (unsigned long)g_spec_destroyed.load(),
                       (unsigned long)g_tables_freed_live.load(), (unsigned long)g_held_superseded.load(),
                       double(g_vnow_ns.load()) / 1e9));
  }
  // reset per-episode monitor state
  g_alloc.clear();
  if (k.elem) g_elems.clear();
  memset(static_cast<void*>(g_canon), 0, sizeof g_canon);
  memset(static_cast<void*>(g_canon_owner), 0, sizeof g_canon_owner);
  g_cfg_desc = nullptr;
}

}  // namespace c04

////////////////////////////////////////////////////////////////////////////////
// The virtual clock: vector.hpp's RetireList::get_current_timestamp() calls
// ::clock_gettime(CLOCK_MONOTONIC_RAW, ...) and keeps tv_sec >> 6 in 16 bits.
extern "C" int clock_gettime(clockid_t id, struct timespec* ts) noexcept {
  if (id == CLOCK_MONOTONIC_RAW) {
    int64_t v = c04::g_vnow_ns.load(std::memory_order_relaxed);
    ts->tv_sec = time_t(v / c04::kNs);
    ts->tv_nsec = long(v % c04::kNs);
    if (c04::tl.in_lib) {
      c04::CbScope cb;
      VF_COUNT("obs:virtual_clock_reads_by_library");
      vf::perturb("cb:clock_read");  // a thread may be descheduled right after sampling the clock
      // ... and the clock may cross a 64 s unit boundary while it is: when the boundary is within the drift
      // budget, a growing thread now and then finds that virtual time moved across it during its delay
      // (the value it sampled stays the old one). Seeded change C04-a2 needs exactly this.
      if (c04::g_drift_enabled.load(std::memory_order_relaxed) && c04::tl.op != c04::OP_GC) {
        int64_t sec = v / c04::kNs, to_b = ((sec | 63) + 1) * c04::kNs - v;
        int64_t used = c04::g_drift_since_jump.load(std::memory_order_relaxed);
        vf::Rng& r = vf::tl_rng();
        if (to_b + c04::kNs < c04::kDriftBudgetNs - used && r.chance(1, 3)) {
          int64_t d = to_b + 1 + int64_t(r.below(uint64_t(c04::kNs / 2)));
          c04::g_drift_since_jump.fetch_add(d, std::memory_order_relaxed);
          c04::g_vnow_ns.fetch_add(d, std::memory_order_relaxed);
          VF_COUNT("rare:unit_boundary_crossed_inside_retire");
          vf::raw_sleep_us(500 + r.below(4000));
        }
      }
    }
    return 0;
  }
  return int(::syscall(SYS_clock_gettime, id, ts));
}

////////////////////////////////////////////////////////////////////////////////
// Allocation accounting: every form of operator new/delete.
void* operator new(size_t n) { return c04::vf_new(n, 0); }
void* operator new[](size_t n) { return c04::vf_new(n, 0); }
void* operator new(size_t n, const std::nothrow_t&) noexcept { return c04::vf_new(n, 0); }
void* operator new[](size_t n, const std::nothrow_t&) noexcept { return c04::vf_new(n, 0); }
void* operator new(size_t n, std::align_val_t a) { return c04::vf_new(n, size_t(a)); }
void* operator new[](size_t n, std::align_val_t a) { return c04::vf_new(n, size_t(a)); }
void* operator new(size_t n, std::align_val_t a, const std::nothrow_t&) noexcept { return c04::vf_new(n, size_t(a)); }
void* operator new[](size_t n, std::align_val_t a, const std::nothrow_t&) noexcept { return c04::vf_new(n, size_t(a)); }
void operator delete(void* p) noexcept { c04::vf_delete(p, 0, 0); }
void operator delete[](void* p) noexcept { c04::vf_delete(p, 0, 0); }
void operator delete(void* p, const std::nothrow_t&) noexcept { c04::vf_delete(p, 0, 0); }
void operator delete[](void* p, const std::nothrow_t&) noexcept { c04::vf_delete(p, 0, 0); }
void operator delete(void* p, size_t n) noexcept { c04::vf_delete(p, n, 0); }
void operator delete[](void* p, size_t n) noexcept { c04::vf_delete(p, n, 0); }
void operator delete(void* p, std::align_val_t a) noexcept { c04::vf_delete(p, 0, size_t(a)); }
void operator delete[](void* p, std::align_val_t a) noexcept { c04::vf_delete(p, 0, size_t(a)); }
void operator delete(void* p, size_t n, std::align_val_t a) noexcept { c04::vf_delete(p, n, size_t(a)); }
void operator delete[](void* p, size_t n, std::align_val_t a) noexcept { c04::vf_delete(p, n, size_t(a)); }
void operator delete(void* p, std::align_val_t a, const std::nothrow_t&) noexcept { c04::vf_delete(p, 0, size_t(a)); }
void operator delete[](void* p, std::align_val_t a, const std::nothrow_t&) noexcept { c04::vf_delete(p, 0, size_t(a)); }

int main(int argc, char** argv) {
  vf::init(argc, argv, "C04", "c04_vector");
#ifdef BABYLON_VERIF
  ::babylon::verif::point_hook = &c04::hook;  // same as vf::perturb, but keeps its allocations out of the accounting
#endif
  auto& a = vf::args();
  c04::g_poison.store(!VF_ASAN, std::memory_order_relaxed);
  std::string mode = a.mode.empty() ? "all" : a.mode;
  auto& wd = vf::watchdog();
  wd.classify = [] { return std::string(); };  // every operation is wait-free; a hang here is a harness problem
  wd.start();
  uint64_t n_grow = 0, n_cool = 0;
  if (mode == "all" || mode == "grow") n_grow = vf::budget(70, 2500);
  if (mode == "all" || mode == "cooling") n_cool = vf::budget(50, 1800);
  uint64_t e = 0;
  auto want = [&](uint64_t idx) { return a.only_episode < 0 || uint64_t(a.only_episode) == idx; };
  // interleave the two kinds so a cut-short run still saw both
  uint64_t done_g = 0, done_c = 0;
  while ((done_g < n_grow || done_c < n_cool) && !vf::failed()) {
    if (done_g < n_grow) {
      if (want(e)) c04::run_episode(a.seed, e, false);
      ++done_g;
      ++e;
    }
    if (done_c < n_cool && !vf::failed()) {
      if (want(e)) c04::run_episode(a.seed, e, true);
      ++done_c;
      ++e;
    }
  }
  wd.shutdown();
  vf::extra("virtual_clock", "\"clock_gettime(CLOCK_MONOTONIC_RAW) served by the harness; large jumps only while no vector "
                             "operation is in flight; bounded drift (< 8 s between two jumps) also while operations run, half of "
                             "it aimed across a 64 s unit boundary (operations shorter than the cooling period is the documented premise)\"");
  return vf::finish();
}
