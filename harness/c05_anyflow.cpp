// C05 — anyflow: a graph run equals sequential demand-driven evaluation; each vertex runs at
// most once; wait() semantics; reset() reuse (DESIGN §5 C05).
//
// One episode = one random DAG built with GraphBuilder on one executor (inplace, babylon
// thread pool with 1-8 workers, or a harness executor that shuffles/delays tasks), reused for
// 3-10 run -> get/on_finish -> wait -> reset cycles with fresh inputs/plans. Every run is
// compared with a sequential reference interpreter of the same spec.
//
// modes (--mode): all (default) | inplace | pool | hexec     (executor filter)
#include <condition_variable>
#include <deque>

#include "common/vf.h"
#include "common/vf_interpose.h"

#include "babylon/anyflow/builder.h"
#include "babylon/anyflow/executor.h"
#include "babylon/logging/logger.h"

namespace {

namespace af = ::babylon::anyflow;
using af::Closure;
using af::ClosureContext;
using af::Graph;
using af::GraphBuilder;
using af::GraphData;
using af::GraphDependency;
using af::GraphExecutor;
using af::GraphProcessor;
using af::GraphVertex;
using af::GraphVertexClosure;

////////////////////////////////////////////////////////////////////////////////
// Spec of a random graph, per-run plan, sequential reference interpreter
enum : int8_t { S_UNK = 0, S_VAL = 1, S_EMPTY = 2, S_NEVER = 3 };
enum : int8_t { O_NOT_NEEDED = 0, O_RAN, O_SKIPPED, O_FAIL_IN_PROCESS, O_PREPARE_FAILED, O_REJECTED, O_BLOCKED };
const char* kOutcome[] = {"not-needed", "ran", "essential-skipped", "fail-in-process", "prepare-failed", "rejected",
                          "blocked"};
enum : int8_t { E_VALUE = 0, E_EMPTY_NOGET = 1, E_EMPTY_CLEAR = 2, E_LEAVE = 3 };

struct DepSpec {
  int target = -1, cond = -1;
  bool on = true;
  bool essential = false;  // declare_essential(true)
  bool must = false;       // macro essential level 2: absent => prepare error
};
struct VSpec {
  std::vector<DepSpec> deps;
  std::vector<int> emits;
  bool trivial = false, async_capable = false, macro = false, int_process = false;
};
struct DSpec {
  bool is_bool = false;
  int producer = -1;
  bool used = false;  // named by some dependency/emit, i.e. exists in the built graph
};
struct GSpec {
  std::vector<VSpec> v;
  std::vector<DSpec> d;
  bool any_trivial = false;
  uint64_t hash = 0;
  std::string describe() const {
    std::string o;
    for (size_t i = 0; i < v.size(); ++i) {
      auto& x = v[i];
      o += vf::fmt("v%zu[%s%s%s%s] deps:", i, x.trivial ? "T" : "", x.async_capable ? "A" : "", x.macro ? "M" : "",
                   x.int_process ? "I" : "");
      for (auto& dp : x.deps) {
        o += vf::fmt(" d%d", dp.target);
        if (dp.cond >= 0) o += vf::fmt("%s d%d", dp.on ? " on" : " unless", dp.cond);
        if (dp.essential) o += "!e";
        if (dp.must) o += "!m";
        o += ";";
      }
      o += " emits:";
      for (int e : x.emits) o += vf::fmt(" d%d%s", e, d[size_t(e)].is_bool ? "b" : "");
      o += "\n";
    }
    o += "inputs:";
    for (size_t i = 0; i < d.size(); ++i)
      if (d[i].producer < 0) o += vf::fmt(" d%zu%s", i, d[i].is_bool ? "b" : "");
    return o + "\n";
  }
};

struct Plan {
  uint64_t salt = 0;
  std::vector<int8_t> inject;  // per data: 0 none, 1 value, 2 empty (before run())
  std::vector<uint64_t> inject_val;
  std::vector<int> targets;
  std::vector<int> verr;                   // per vertex: error code returned instead of emitting
  std::vector<std::vector<int8_t>> emode;  // per vertex, per emit
  std::vector<int8_t> async_now, drop_closure, late_read;
  int reject_vertex = -1;                // harness executor refuses this vertex
  int ext_data = -1, ext_carrier = -1;   // external concurrent injection of ext_data by carrier's async job
  bool use_on_finish = false;
  uint64_t hash = 0;
  std::string describe() const {
    std::string o = vf::fmt("salt=%lx targets:", (unsigned long)salt);
    for (int t : targets) o += vf::fmt(" d%d", t);
    o += " inject:";
    for (size_t i = 0; i < inject.size(); ++i)
      if (inject[i]) o += vf::fmt(" d%zu=%s", i, inject[i] == 2 ? "empty" : vf::fmt("%lx", (unsigned long)inject_val[i]).c_str());
    o += " verr:";
    for (size_t i = 0; i < verr.size(); ++i)
      if (verr[i]) o += vf::fmt(" v%zu=%d", i, verr[i]);
    o += " async:";
    for (size_t i = 0; i < async_now.size(); ++i)
      if (async_now[i]) o += vf::fmt(" v%zu%s%s", i, drop_closure[i] ? "(drop)" : "", late_read[i] ? "(late)" : "");
    o += vf::fmt(" reject=v%d ext=d%d via v%d on_finish=%d", reject_vertex, ext_data, ext_carrier, int(use_on_finish));
    return o;
  }
};

struct Seen {
  uint8_t tag = 0;  // 1 not established, 2 established+empty, 3 value
  uint64_t val = 0;
};
inline uint64_t hash_seen(int vid, const std::vector<Seen>& s) {
  uint64_t h = vf::mix(0xaf10, uint64_t(vid));
  for (size_t i = 0; i < s.size(); ++i) h = vf::mix(h, s[i].tag, s[i].val, i);
  return h;
}
inline uint64_t out_value(const Plan& p, int vid, int j, uint64_t h, bool is_bool) {
  uint64_t x = vf::mix(p.salt, uint64_t(vid) * 16 + uint64_t(j), h);
  if (is_bool) return x & 1;
  return (x % 4 == 0) ? 0 : (x | 1);
}

struct Ref {
  std::vector<int8_t> dstate;
  std::vector<uint64_t> dval;
  std::vector<int8_t> outcome;
  std::vector<std::vector<int8_t>> est;  // -1 condition never available, 0 false, 1 true
  std::vector<uint64_t> hin;
  bool fail = false;
  int n_cond_false = 0, n_cond_true = 0, n_skip = 0, n_ran = 0, n_async = 0, n_pre_ready_dep = 0, n_empty_dep = 0;
  bool may_enter(int v) const { return outcome[size_t(v)] == O_RAN || outcome[size_t(v)] == O_FAIL_IN_PROCESS; }
  std::string describe() const {
    std::string o = vf::fmt("ref: fail=%d outcomes:", int(fail));
    for (size_t i = 0; i < outcome.size(); ++i)
      if (outcome[i] != O_NOT_NEEDED) o += vf::fmt(" v%zu=%s", i, kOutcome[outcome[i]]);
    o += " data:";
    for (size_t i = 0; i < dstate.size(); ++i) {
      if (dstate[i] == S_VAL) o += vf::fmt(" d%zu=%lx", i, (unsigned long)dval[i]);
      else if (dstate[i] == S_EMPTY) o += vf::fmt(" d%zu=empty", i);
      else if (dstate[i] == S_NEVER) o += vf::fmt(" d%zu=never", i);
    }
    return o;
  }
};

struct RefEval {
  const GSpec& g;
  const Plan& p;
  Ref& r;
  RefEval(const GSpec& g_, const Plan& p_, Ref& r_) : g(g_), p(p_), r(r_) {
    r.dstate.assign(g.d.size(), S_UNK);
    r.dval.assign(g.d.size(), 0);
    r.outcome.assign(g.v.size(), O_NOT_NEEDED);
    r.est.resize(g.v.size());
    r.hin.assign(g.v.size(), 0);
    for (size_t v = 0; v < g.v.size(); ++v) r.est[v].assign(g.v[v].deps.size(), -1);
    for (size_t d = 0; d < g.d.size(); ++d) {
      if (p.inject[d] == 1) { r.dstate[d] = S_VAL; r.dval[d] = p.inject_val[d]; }
      else if (p.inject[d] == 2) r.dstate[d] = S_EMPTY;
    }
  }
  bool truthy(int d) const { return r.dstate[size_t(d)] == S_VAL && r.dval[size_t(d)] != 0; }
  int8_t eval_data(int d) {
    if (r.dstate[size_t(d)] != S_UNK) return r.dstate[size_t(d)];
    int prod = g.d[size_t(d)].producer;
    if (prod < 0) return r.dstate[size_t(d)] = S_NEVER;  // no producer, not injected: activation fails
    eval_vertex(prod);
    return r.dstate[size_t(d)];
  }
  void set_emits(int v, int8_t st) {
    for (int e : g.v[size_t(v)].emits)
      if (p.inject[size_t(e)] == 0) r.dstate[size_t(e)] = st;
  }
  void eval_vertex(int v) {
    if (r.outcome[size_t(v)] != O_NOT_NEEDED) return;
    r.outcome[size_t(v)] = O_BLOCKED;
    const VSpec& vs = g.v[size_t(v)];
    bool blocked = false;
    std::vector<Seen> seen(vs.deps.size());
    for (size_t i = 0; i < vs.deps.size(); ++i) {
      const DepSpec& dp = vs.deps[i];
      int8_t est = 1;
      if (dp.cond >= 0) {
        bool pre = r.dstate[size_t(dp.cond)] != S_UNK;
        if (eval_data(dp.cond) == S_NEVER) { est = -1; blocked = true; }
        else {
          est = (truthy(dp.cond) == dp.on) ? 1 : 0;
          if (est) ++r.n_cond_true; else ++r.n_cond_false;
          if (pre) ++r.n_pre_ready_dep;
        }
      }
      r.est[size_t(v)][i] = est;
      if (est == 1) {
        int8_t s = eval_data(dp.target);
        if (s == S_NEVER) blocked = true;
        else if (s == S_VAL) { seen[i].tag = 3; seen[i].val = r.dval[size_t(dp.target)]; }
        else { seen[i].tag = 2; ++r.n_empty_dep; }
      } else {
        seen[i].tag = 1;
      }
    }
    if (blocked) { set_emits(v, S_NEVER); return; }
    for (size_t i = 0; i < vs.deps.size(); ++i) {
      if (vs.deps[i].essential && seen[i].tag != 3) {
        r.outcome[size_t(v)] = O_SKIPPED;
        set_emits(v, S_EMPTY);
        ++r.n_skip;
        return;
      }
    }
    for (size_t i = 0; i < vs.deps.size(); ++i) {
      if (vs.deps[i].must && seen[i].tag != 3) {
        r.outcome[size_t(v)] = O_PREPARE_FAILED;
        set_emits(v, S_NEVER);
        return;
      }
    }
    if (!vs.trivial && p.reject_vertex == v) { r.outcome[size_t(v)] = O_REJECTED; set_emits(v, S_NEVER); return; }
    uint64_t h = hash_seen(v, seen);
    r.hin[size_t(v)] = h;
    if (p.verr[size_t(v)]) { r.outcome[size_t(v)] = O_FAIL_IN_PROCESS; set_emits(v, S_NEVER); return; }
    r.outcome[size_t(v)] = O_RAN;
    ++r.n_ran;
    if (p.async_now[size_t(v)]) ++r.n_async;
    for (size_t j = 0; j < vs.emits.size(); ++j) {
      int e = vs.emits[j];
      if (p.inject[size_t(e)]) continue;
      if (p.emode[size_t(v)][j] == E_VALUE) {
        r.dstate[size_t(e)] = S_VAL;
        r.dval[size_t(e)] = out_value(p, v, int(j), h, g.d[size_t(e)].is_bool);
      } else {
        r.dstate[size_t(e)] = S_EMPTY;
      }
    }
  }
  void run() {
    for (int t : p.targets)
      if (eval_data(t) == S_NEVER) r.fail = true;
  }
};

////////////////////////////////////////////////////////////////////////////////
// Generator
GSpec gen_graph(vf::Rng& r) {
  GSpec g;
  int nv = r.chance(3, 4) ? int(r.range(3, 14)) : int(r.range(15, 40));
  int ninputs = int(r.range(0, 6));
  bool allow_trivial = r.chance(1, 2);
  std::vector<int> u64s, bools;
  auto new_data = [&](bool is_bool, int producer) {
    DSpec ds;
    ds.is_bool = is_bool;
    ds.producer = producer;
    g.d.push_back(ds);
    int id = int(g.d.size()) - 1;
    (is_bool ? bools : u64s).push_back(id);
    return id;
  };
  for (int i = 0; i < ninputs; ++i) new_data(r.chance(1, 3), -1);
  auto pick_data = [&]() -> int {
    size_t n = g.d.size();
    if (r.chance(1, 2) && n > 6) return int(n - 1 - r.below(6));  // recent data: deeper chains
    return int(r.below(n));
  };
  for (int v = 0; v < nv; ++v) {
    VSpec vs;
    size_t have = g.d.size();
    if (have > 0 && !u64s.empty() && r.chance(1, 12)) {
      // macro processor: a (optional), b (essential level 1), c (level 2) on u64 data, emit x
      vs.macro = true;
      vs.int_process = true;
      for (int i = 0; i < 3; ++i) {
        DepSpec dp;
        dp.target = u64s[r.below(u64s.size())];
        if (i < 2 && g.d.size() > 1 && r.chance(1, 3)) {
          int c = pick_data();
          if (c != dp.target) { dp.cond = c; dp.on = r.chance(1, 2); }
        }
        dp.essential = (i == 1);
        dp.must = (i == 2);
        vs.deps.push_back(dp);
      }
      vs.emits.push_back(new_data(false, v));
    } else {
      int nd = have == 0 ? 0 : (r.chance(1, 10) ? 0 : int(r.range(1, 4)));
      for (int i = 0; i < nd; ++i) {
        DepSpec dp;
        dp.target = pick_data();
        if (have > 1 && r.chance(9, 20)) {
          int c = (!bools.empty() && r.chance(7, 10)) ? bools[r.below(bools.size())] : pick_data();
          if (c != dp.target) {  // dep(D on D) is outside documented use (assumption)
            dp.cond = c;
            dp.on = r.chance(1, 2);
          }
        }
        dp.essential = r.chance(1, 5);
        vs.deps.push_back(dp);
      }
      int ne = int(r.range(1, 3));
      for (int j = 0; j < ne; ++j) vs.emits.push_back(new_data(r.chance(7, 20), v));
      if (allow_trivial && r.chance(1, 6)) vs.trivial = true;
      else if (r.chance(3, 10)) vs.async_capable = true;
      else vs.int_process = r.chance(1, 2);
    }
    g.any_trivial |= vs.trivial;
    g.v.push_back(vs);
  }
  for (auto& vs : g.v) {
    for (auto& dp : vs.deps) {
      g.d[size_t(dp.target)].used = true;
      if (dp.cond >= 0) g.d[size_t(dp.cond)].used = true;
    }
    for (int e : vs.emits) g.d[size_t(e)].used = true;
  }
  uint64_t h = 0xC05;
  for (auto& vs : g.v) {
    h = vf::mix(h, vs.deps.size(), vs.emits.size(), uint64_t(vs.trivial) | uint64_t(vs.async_capable) << 1 | uint64_t(vs.macro) << 2);
    for (auto& dp : vs.deps) h = vf::mix(h, uint64_t(dp.target), uint64_t(dp.cond + 1), uint64_t(dp.on) | uint64_t(dp.essential) << 1);
  }
  g.hash = h;
  return g;
}

// exec_kind: 0 inplace, 1 babylon pool, 2 harness executor
Plan gen_plan(vf::Rng& r, const GSpec& g, int exec_kind) {
  Plan p;
  p.salt = r.next();
  size_t nd = g.d.size(), nv = g.v.size();
  p.inject.assign(nd, 0);
  p.inject_val.assign(nd, 0);
  p.verr.assign(nv, 0);
  p.emode.resize(nv);
  p.async_now.assign(nv, 0);
  p.drop_closure.assign(nv, 0);
  p.late_read.assign(nv, 0);
  int fail_knob = r.chance(3, 20) ? int(r.range(1, 3)) : 0;  // 1 missing input, 2 vertex error, 3 executor refusal
  std::vector<int> inputs, produced;
  for (size_t d = 0; d < nd; ++d)
    if (g.d[d].used) (g.d[d].producer < 0 ? inputs : produced).push_back(int(d));
  auto make_val = [&](size_t d) {
    uint64_t x = r.next();
    return g.d[d].is_bool ? (x & 1) : ((x % 4 == 0) ? 0 : (x | 1));
  };
  for (int d : inputs) {
    p.inject[size_t(d)] = r.chance(1, 12) ? 2 : 1;
    p.inject_val[size_t(d)] = make_val(size_t(d));
  }
  if (fail_knob == 1 && !inputs.empty()) p.inject[size_t(inputs[r.below(inputs.size())])] = 0;
  if (!produced.empty() && r.chance(1, 8)) {
    int k = int(r.range(1, 2));
    for (int i = 0; i < k; ++i) {
      size_t d = size_t(produced[r.below(produced.size())]);
      p.inject[d] = r.chance(1, 8) ? 2 : 1;
      p.inject_val[d] = make_val(d);
    }
  }
  for (size_t v = 0; v < nv; ++v) {
    p.emode[v].resize(g.v[v].emits.size());
    for (auto& m : p.emode[v]) {
      uint64_t x = r.below(100);
      m = x < 84 ? E_VALUE : (x < 89 ? E_EMPTY_NOGET : (x < 93 ? E_EMPTY_CLEAR : E_LEAVE));
    }
    if (g.v[v].async_capable && r.chance(7, 10)) {
      p.async_now[v] = 1;
      p.drop_closure[v] = r.chance(1, 5);
      p.late_read[v] = r.chance(1, 3);
    }
  }
  if (fail_knob == 2) p.verr[r.below(nv)] = int(3 + r.below(100));
  if (fail_knob == 3 && exec_kind == 2) p.reject_vertex = int(r.below(nv));
  // targets: 1-4 distinct data, biased to produced (late) data
  int nt = int(r.range(1, 4));
  for (int i = 0; i < nt; ++i) {
    int t;
    if (!produced.empty() && r.chance(9, 10)) {
      t = r.chance(1, 2) ? produced[produced.size() - 1 - r.below(std::min<size_t>(produced.size(), 5))]
                         : produced[r.below(produced.size())];
    } else if (!inputs.empty()) {
      t = inputs[r.below(inputs.size())];
    } else {
      continue;
    }
    if (std::find(p.targets.begin(), p.targets.end(), t) == p.targets.end()) p.targets.push_back(t);
  }
  if (p.targets.empty()) p.targets.push_back(!produced.empty() ? produced.back() : inputs[0]);
  p.use_on_finish = r.chance(1, 4);
  uint64_t h = vf::mix(p.salt, uint64_t(p.reject_vertex + 1), uint64_t(p.use_on_finish));
  for (int t : p.targets) h = vf::mix(h, uint64_t(t));
  for (size_t d = 0; d < nd; ++d) h = vf::mix(h, uint64_t(p.inject[d]), p.inject_val[d]);
  p.hash = h;
  return p;
}

// External concurrent injection (DESIGN §5 C05): only in graphs without trivial vertices, on a data
// whose producer is non-trivial, has no essential dependency and does run, carried by the job of an
// asynchronous vertex (its live closure keeps the run from being declared idle).
void choose_external_injection(vf::Rng& r, const GSpec& g, Plan& p, const Ref& ref) {
  if (g.any_trivial || ref.fail || !r.chance(1, 5)) return;
  std::vector<int> carriers, cands;
  for (size_t v = 0; v < g.v.size(); ++v)
    if (ref.outcome[v] == O_RAN && p.async_now[v]) carriers.push_back(int(v));
  if (carriers.empty()) return;
  int carrier = carriers[r.below(carriers.size())];
  for (size_t v = 0; v < g.v.size(); ++v) {
    const VSpec& vs = g.v[v];
    if (int(v) == carrier || ref.outcome[v] != O_RAN || vs.trivial || vs.macro) continue;
    bool ess = false;
    for (auto& dp : vs.deps) ess |= dp.essential;
    if (ess) continue;
    for (int e : vs.emits)
      if (p.inject[size_t(e)] == 0 && (ref.dstate[size_t(e)] == S_VAL || ref.dstate[size_t(e)] == S_EMPTY)) cands.push_back(e);
  }
  if (cands.empty()) return;
  p.ext_data = cands[r.below(cands.size())];
  p.ext_carrier = carrier;
}

////////////////////////////////////////////////////////////////////////////////
// Episode context shared by processors, executors and the driver
struct ProcCore;
struct AsyncJob {
  ProcCore* proc = nullptr;
  GraphVertex* vx = nullptr;
  GraphVertexClosure closure;
  uint64_t h = 0;
};

struct Ctx {
  GSpec spec;
  Plan plan;
  Ref ref;
  uint64_t ep_seed = 0, ep_index = 0;
  int cycle = 0, exec_kind = 0, workers = 0, async_threads = 0;
  std::string policy;
  Graph* graph = nullptr;
  std::vector<GraphData*> gd;
  // monitors (relaxed atomics: no happens-before edges added)
  std::vector<std::atomic<int>> runs, commits, resets;
  std::vector<uint64_t> side;  // plain payload per data, written before commit, read by consumers
  std::atomic<int> inflight {0};
  std::atomic<int> async_pending {0};
  std::atomic<int> phase {0};  // 0 idle, 1 run()/get(), 2 wait()
  std::atomic<int> ext_result {0};  // 1 external injection won the data, 2 lost
  // Rendezvous of the producer's emit() and the external injector's emit() on the same data (relaxed: adds no
  // happens-before edge): both callers arrive, then call emit() within a few hundred cycles of each other. Added
  // after the seeded change C05-a2 (GraphData::acquire CAS -> load+store, a two-instruction window) escaped.
  std::atomic<int> ext_rdv {0};
  // async job queue
  std::mutex amu;
  std::condition_variable acv;
  std::deque<AsyncJob> ajobs;
  bool astop = false;
  // on_finish hand-over (callback -> driver)
  std::mutex fmu;
  std::condition_variable fcv;
  Closure stash;
  int cb_calls = 0;
  std::vector<uint8_t> ext_relaxed;  // vertices that may legitimately be short-circuited when the external injection wins

  Ctx(size_t nv, size_t nd) : runs(nv), commits(nd), resets(nv), side(nd, 0) {}
  std::string describe() const {
    return vf::fmt("episode=%lu seed=%lu cycle=%d exec=%s workers=%d async_threads=%d policy=[%s]\n",
                   (unsigned long)ep_index, (unsigned long)ep_seed, cycle,
                   exec_kind == 0 ? "inplace" : (exec_kind == 1 ? "babylon-pool" : "harness-exec"), workers,
                   async_threads, policy.c_str()) +
           spec.describe() + "plan: " + plan.describe() + "\n" + ref.describe() + "\n";
  }
  void fail(const std::string& key, const std::string& msg) { vf::violation(key, msg, describe()); }
};
Ctx* g_ctx = nullptr;

////////////////////////////////////////////////////////////////////////////////
// Harness executor: runs vertex closures on its own threads in shuffled order after policy delays
struct HExec : public GraphExecutor {
  struct Task {
    GraphVertex* v = nullptr;
    GraphVertexClosure c;
    ClosureContext* ctx = nullptr;
    Closure::Callback* cb = nullptr;
  };
  std::mutex mu;
  std::condition_variable cv;
  std::vector<Task> q;
  bool stopping = false;
  std::atomic<int> active {0};
  std::atomic<int> queued {0};
  int order = 0;  // 0 fifo, 1 lifo, 2 random
  std::vector<std::thread> th;

  void start(int n, uint64_t seed, int order_) {
    order = order_;
    for (int i = 0; i < n; ++i) {
      th.emplace_back([this, seed, i] {
        vf::thread_begin(seed, 100 + i);
        vf::Rng r(vf::mix(seed, uint64_t(i), 0x4e8ec));
        for (;;) {
          Task t;
          {
            std::unique_lock<std::mutex> l(mu);
            cv.wait(l, [this] { return stopping || !q.empty(); });
            if (q.empty()) break;
            size_t k = order == 0 ? 0 : (order == 1 ? q.size() - 1 : r.below(q.size()));
            t = std::move(q[k]);
            q.erase(q.begin() + long(k));
            active.fetch_add(1, std::memory_order_relaxed);
            queued.fetch_sub(1, std::memory_order_relaxed);
          }
          vf::perturb("cb:hexec_before_task");
          if (t.v) t.v->run(std::move(t.c));
          else t.ctx->run(t.cb);
          active.fetch_sub(1, std::memory_order_relaxed);
        }
        vf::thread_end();
      });
    }
  }
  void stop() {
    {
      std::lock_guard<std::mutex> l(mu);
      stopping = true;
    }
    cv.notify_all();
    for (auto& t : th) t.join();
    th.clear();
  }
  bool idle() const { return active.load(std::memory_order_relaxed) == 0 && queued.load(std::memory_order_relaxed) == 0; }

  Closure create_closure() noexcept override { return Closure::create<::babylon::SchedInterface>(*this); }
  int32_t run(GraphVertex* vertex, GraphVertexClosure&& closure) noexcept override {
    Ctx* c = g_ctx;
    if (c && c->plan.reject_vertex == int(vertex->index())) {
      VF_COUNT("rare:executor_refused_vertex");
      return -1;  // closure untouched: the vertex is not executed
    }
    Task t;
    t.v = vertex;
    t.c = std::move(closure);
    {
      std::lock_guard<std::mutex> l(mu);
      q.push_back(std::move(t));
      queued.fetch_add(1, std::memory_order_relaxed);
    }
    cv.notify_one();
    return 0;
  }
  int32_t run(ClosureContext* closure, Closure::Callback* callback) noexcept override {
    Task t;
    t.ctx = closure;
    t.cb = callback;
    {
      std::lock_guard<std::mutex> l(mu);
      q.push_back(std::move(t));
      queued.fetch_add(1, std::memory_order_relaxed);
    }
    cv.notify_one();
    return 0;
  }
};
HExec* g_hexec = nullptr;

////////////////////////////////////////////////////////////////////////////////
// Processors
struct ProcCore {
  Ctx* ctx = nullptr;
  int vid = -1;

  GraphDependency* dep_of(GraphVertex& vx, size_t i) {
    return ctx->spec.v[size_t(vid)].macro ? vx.named_dependency(i) : vx.anonymous_dependency(i);
  }
  GraphData* emit_of(GraphVertex& vx, size_t j) {
    return ctx->spec.v[size_t(vid)].macro ? vx.named_emit(j) : vx.anonymous_emit(j);
  }

  int do_setup(GraphVertex& vx) {
    const VSpec& vs = ctx->spec.v[size_t(vid)];
    if (vs.macro) return 0;  // ANYFLOW_INTERFACE declares everything
    if (vx.anonymous_dependency_size() != vs.deps.size() || vx.anonymous_emit_size() != vs.emits.size()) return -1;
    for (size_t i = 0; i < vs.deps.size(); ++i) {
      auto* dep = vx.anonymous_dependency(i);
      if (ctx->spec.d[size_t(vs.deps[i].target)].is_bool) dep->declare_type<bool>();
      else dep->declare_type<uint64_t>();
      dep->declare_essential(vs.deps[i].essential);
    }
    for (size_t j = 0; j < vs.emits.size(); ++j) {
      auto* data = vx.anonymous_emit(j);
      if (ctx->spec.d[size_t(vs.emits[j])].is_bool) data->declare_type<bool>();
      else data->declare_type<uint64_t>();
    }
    if (vs.trivial) vx.declare_trivial();
    return 0;
  }

  // Entry monitors + the inputs the processor sees. Returns the input hash.
  uint64_t read_inputs(GraphVertex& vx, bool check_ref) {
    Ctx& c = *ctx;
    const VSpec& vs = c.spec.v[size_t(vid)];
    std::vector<Seen> seen(vs.deps.size());
    for (size_t i = 0; i < vs.deps.size(); ++i) {
      const DepSpec& dp = vs.deps[i];
      GraphDependency* dep = dep_of(vx, i);
      bool est = dep->established(), rdy = dep->ready();
      if (est && !rdy)
        c.fail("dep-established-not-ready", vf::fmt("v%d runs while dependency %zu (d%d) is established but not ready", vid, i, dp.target));
      if (!est && rdy)
        c.fail("dep-ready-not-established", vf::fmt("v%d dependency %zu (d%d) is ready although its condition does not hold", vid, i, dp.target));
      if (dp.essential && (!rdy || dep->empty()))
        c.fail("essential-dep-absent-in-process", vf::fmt("v%d runs although essential dependency %zu (d%d) is absent", vid, i, dp.target));
      bool is_bool = c.spec.d[size_t(dp.target)].is_bool;
      if (!est || !rdy) {
        seen[i].tag = 1;
      } else if (dep->empty()) {
        seen[i].tag = 2;
      } else {
        seen[i].tag = 3;
        if (is_bool) {
          const bool* pv = dep->value<bool>();
          if (!pv) c.fail("dep-value-null", vf::fmt("v%d dependency %zu (d%d) ready and non-empty but value<bool>() is null", vid, i, dp.target));
          else seen[i].val = *pv ? 1 : 0;
        } else {
          const uint64_t* pv = dep->value<uint64_t>();
          if (!pv) c.fail("dep-value-null", vf::fmt("v%d dependency %zu (d%d) ready and non-empty but value<uint64_t>() is null", vid, i, dp.target));
          else seen[i].val = *pv;
        }
        uint64_t sv = c.side[size_t(dp.target)];  // plain read: publication must happen-before
        if (sv != seen[i].val)
          c.fail("side-payload-mismatch", vf::fmt("v%d sees d%d=%lx but the plain payload written before the commit reads %lx", vid,
                                                  dp.target, (unsigned long)seen[i].val, (unsigned long)sv));
      }
      if (check_ref) {
        int8_t re = c.ref.est[size_t(vid)][i];
        if (re == 1) {
          int8_t rs = c.ref.dstate[size_t(dp.target)];
          uint64_t rv = c.ref.dval[size_t(dp.target)];
          bool ok = (rs == S_VAL && seen[i].tag == 3 && seen[i].val == rv) || (rs == S_EMPTY && seen[i].tag == 2);
          if (!ok)
            c.fail("dep-value-mismatch",
                   vf::fmt("v%d dependency %zu (d%d): condition holds, reference %s %lx, processor sees tag=%d val=%lx (1=not established/ready 2=empty 3=value)",
                           vid, i, dp.target, rs == S_VAL ? "value" : (rs == S_EMPTY ? "empty" : "never"), (unsigned long)rv,
                           int(seen[i].tag), (unsigned long)seen[i].val));
        } else if (re == 0 && seen[i].tag != 1) {
          c.fail("dep-established-mismatch", vf::fmt("v%d dependency %zu (d%d): reference condition is false but the dependency is established", vid, i, dp.target));
        }
      }
    }
    return hash_seen(vid, seen);
  }

  // returns false if the run counter shows a second invocation
  void enter(GraphVertex& vx) {
    Ctx& c = *ctx;
    vf::perturb("cb:process_enter");
    int prev = c.runs[size_t(vid)].fetch_add(1, std::memory_order_relaxed);
    c.inflight.fetch_add(1, std::memory_order_relaxed);
    vf::progress();
    if (prev != 0) c.fail("vertex-ran-twice", vf::fmt("processor of v%d invoked %d times in one run", vid, prev + 1));
    int8_t oc = c.ref.outcome[size_t(vid)];
    if (!c.ref.may_enter(vid)) {
      if (oc == O_NOT_NEEDED) c.fail("unneeded-vertex-ran", vf::fmt("v%d ran but no requested target demands it", vid));
      else if (oc == O_SKIPPED) c.fail("essential-skip-ignored", vf::fmt("v%d ran although an essential dependency is absent", vid));
      else c.fail("vertex-ran-before-deps-ready", vf::fmt("v%d ran although the reference says it is %s", vid, kOutcome[oc]));
    }
    (void)vx;
  }

  void ext_rendezvous() {
    Ctx& c = *ctx;
    int before = c.ext_rdv.fetch_add(1, std::memory_order_relaxed);
    uint64_t t0 = __rdtsc();
    while (c.ext_rdv.load(std::memory_order_relaxed) < 2 && __rdtsc() - t0 < 600000) _mm_pause();  // <= ~0.2 ms
    if (c.ext_rdv.load(std::memory_order_relaxed) >= 2) {
      if (before == 1) VF_COUNT("rare:ext_emit_rendezvous_met");
      uint64_t skew = vf::tl_rng().below(700);
      t0 = __rdtsc();
      while (__rdtsc() - t0 < skew) {}
    }
  }

  void emit_one(GraphVertex& vx, size_t j, uint64_t h) {
    Ctx& c = *ctx;
    const VSpec& vs = c.spec.v[size_t(vid)];
    int d = vs.emits[j];
    int8_t mode = c.plan.emode[size_t(vid)][j];
    if (mode == E_LEAVE) return;
    bool is_bool = c.spec.d[size_t(d)].is_bool;
    uint64_t val = out_value(c.plan, vid, int(j), h, is_bool);
    GraphData* gd = emit_of(vx, j);
    bool may_lose = c.plan.inject[size_t(d)] != 0 || c.plan.ext_data == d;
    auto body = [&](auto committer) {
      if (!committer) {
        if (!may_lose) c.fail("emit-invalid-committer", vf::fmt("v%d emit %zu (d%d): emit() returned an invalid committer for the only producer", vid, j, d));
        else VF_COUNT("rare:producer_lost_emit_to_injection");
        return;
      }
      int n = c.commits[size_t(d)].fetch_add(1, std::memory_order_relaxed);
      if (n != 0) c.fail("data-committed-twice", vf::fmt("d%d handed out %d valid committers in one run", d, n + 1));
      if (mode == E_VALUE) {
        c.side[size_t(d)] = val;
        *committer = static_cast<std::remove_reference_t<decltype(*committer)>>(val);
      } else if (mode == E_EMPTY_CLEAR) {
        *committer = static_cast<std::remove_reference_t<decltype(*committer)>>(val ^ 1);
        committer.clear();
      }
      vf::perturb("cb:before_commit");
      committer.release();
    };
    if (c.plan.ext_data == d) ext_rendezvous();
    if (is_bool) body(gd->emit<bool>());
    else body(gd->emit<uint64_t>());
  }

  void emit_all(GraphVertex& vx, uint64_t h) {
    const VSpec& vs = ctx->spec.v[size_t(vid)];
    size_t n = vs.emits.size();
    size_t start = size_t(vf::mix(ctx->plan.salt, uint64_t(vid)) % (n ? n : 1));
    for (size_t k = 0; k < n; ++k) {
      emit_one(vx, (start + k) % n, h);
      if (k + 1 < n) vf::perturb("cb:between_emits");
    }
  }

  void external_injection() {
    Ctx& c = *ctx;
    int d = c.plan.ext_data;
    bool is_bool = c.spec.d[size_t(d)].is_bool;
    int8_t rs = c.ref.dstate[size_t(d)];
    uint64_t rv = c.ref.dval[size_t(d)];
    vf::perturb("cb:external_inject");
    auto body = [&](auto committer) {
      if (!committer) { c.ext_result.store(2, std::memory_order_relaxed); return; }
      c.ext_result.store(1, std::memory_order_relaxed);
      int n = c.commits[size_t(d)].fetch_add(1, std::memory_order_relaxed);
      if (n != 0) c.fail("data-committed-twice", vf::fmt("d%d handed out %d valid committers in one run (external injection)", d, n + 1));
      if (rs == S_VAL) {
        c.side[size_t(d)] = rv;
        *committer = static_cast<std::remove_reference_t<decltype(*committer)>>(rv);
      }
      vf::perturb("cb:before_commit");
      committer.release();
    };
    ext_rendezvous();
    if (is_bool) body(c.gd[size_t(d)]->emit<bool>());
    else body(c.gd[size_t(d)]->emit<uint64_t>());
  }

  // synchronous body; returns the processor's error code
  int sync_body(GraphVertex& vx) {
    Ctx& c = *ctx;
    enter(vx);
    uint64_t h = read_inputs(vx, true);
    int err = c.plan.verr[size_t(vid)];
    if (err == 0) {
      emit_all(vx, h);
      vf::perturb("cb:after_emits");  // outputs are out, the vertex is still in flight
    }
    c.inflight.fetch_sub(1, std::memory_order_relaxed);
    return err;
  }

  // runs on a harness async thread
  void async_body(GraphVertex& vx, AsyncJob& job) {
    Ctx& c = *ctx;
    vf::perturb("cb:async_start");
    uint64_t h = c.plan.late_read[size_t(vid)] ? read_inputs(vx, true) : job.h;
    int err = c.plan.verr[size_t(vid)];
    if (err == 0) {
      emit_all(vx, h);
      if (c.plan.ext_carrier == vid) external_injection();
      vf::perturb("cb:after_emits");
    }
    VF_COUNT("obs:async_completions");
    c.inflight.fetch_sub(1, std::memory_order_relaxed);
    c.async_pending.fetch_sub(1, std::memory_order_relaxed);
    if (err != 0) job.closure.done(err);
    else if (c.plan.drop_closure[size_t(vid)]) { GraphVertexClosure tmp(std::move(job.closure)); }  // destructor == done(0)
    else job.closure.done();
    vf::progress();
  }
};

void async_thread_main(Ctx* c, uint64_t seed, int idx) {
  vf::thread_begin(seed, 200 + idx);
  vf::Rng r(vf::mix(seed, uint64_t(idx), 0xa51c));
  for (;;) {
    AsyncJob job;
    {
      std::unique_lock<std::mutex> l(c->amu);
      c->acv.wait(l, [c] { return c->astop || !c->ajobs.empty(); });
      if (c->ajobs.empty()) break;
      size_t k = r.below(c->ajobs.size());
      job = std::move(c->ajobs[k]);
      c->ajobs.erase(c->ajobs.begin() + long(k));
    }
    job.proc->async_body(*job.vx, job);
  }
  vf::thread_end();
}

// API processor overriding `int process()`
struct ApiProcSync : public GraphProcessor, public ProcCore {
  int setup() noexcept override { return do_setup(vertex()); }
  int process() noexcept override { return sync_body(vertex()); }
  void reset() noexcept override { ctx->resets[size_t(vid)].fetch_add(1, std::memory_order_relaxed); }
};
// API processor overriding `process(GraphVertexClosure&&)`: synchronous or asynchronous per plan
struct ApiProcClosure : public GraphProcessor, public ProcCore {
  int setup() noexcept override { return do_setup(vertex()); }
  void process(GraphVertexClosure&& closure) noexcept override {
    Ctx& c = *ctx;
    if (!c.plan.async_now[size_t(vid)]) {
      closure.done(sync_body(vertex()));
      return;
    }
    enter(vertex());
    AsyncJob job;
    job.proc = this;
    job.vx = &vertex();
    job.h = c.plan.late_read[size_t(vid)] ? 0 : read_inputs(vertex(), true);
    job.closure = std::move(closure);
    c.async_pending.fetch_add(1, std::memory_order_relaxed);
    {
      std::lock_guard<std::mutex> l(c.amu);
      c.ajobs.push_back(std::move(job));
    }
    c.acv.notify_one();
  }
  void reset() noexcept override { ctx->resets[size_t(vid)].fetch_add(1, std::memory_order_relaxed); }
};
// Macro based processor for the essential-level paths
struct MacroProc : public GraphProcessor, public ProcCore {
  int process() noexcept override {
    Ctx& c = *ctx;
    GraphVertex& vx = vertex();
    // the generated members must agree with the vertex API
    const uint64_t* ptr[3] = {a, b, m};
    for (size_t i = 0; i < 3; ++i) {
      GraphDependency* dep = vx.named_dependency(i);
      const uint64_t* want = dep->value<uint64_t>();
      if (ptr[i] != want)
        c.fail("macro-member-mismatch", vf::fmt("v%d ANYFLOW_INTERFACE member %zu differs from dependency value()", vid, i));
    }
    if (b == nullptr || m == nullptr)
      c.fail("macro-essential-null", vf::fmt("v%d process() entered with a null essential member (level1=%p level2=%p)", vid, (const void*)b, (const void*)m));
    return sync_body(vx);
  }
  void reset() noexcept override { ctx->resets[size_t(vid)].fetch_add(1, std::memory_order_relaxed); }
  ANYFLOW_INTERFACE(ANYFLOW_DEPEND_DATA(uint64_t, a, 0) ANYFLOW_DEPEND_DATA(uint64_t, b, 1)
                        ANYFLOW_DEPEND_DATA(uint64_t, m, 2) ANYFLOW_EMIT_DATA(uint64_t, x))
};

////////////////////////////////////////////////////////////////////////////////
// Build the babylon graph of a spec
std::string dname(int d) { return "d" + std::to_string(d); }

std::unique_ptr<Graph> build_graph(GraphBuilder& b, Ctx& c, GraphExecutor& exec) {
  b.set_executor(exec);
  for (size_t v = 0; v < c.spec.v.size(); ++v) {
    const VSpec& vs = c.spec.v[v];
    Ctx* cp = &c;
    int vid = int(v);
    af::GraphVertexBuilder* vb;
    if (vs.macro) {
      vb = &b.add_vertex([cp, vid] {
        auto* p = new MacroProc;
        p->ctx = cp;
        p->vid = vid;
        return std::unique_ptr<GraphProcessor>(p);
      });
    } else if (vs.async_capable || !vs.int_process) {
      vb = &b.add_vertex([cp, vid] {
        auto* p = new ApiProcClosure;
        p->ctx = cp;
        p->vid = vid;
        return std::unique_ptr<GraphProcessor>(p);
      });
    } else {
      vb = &b.add_vertex([cp, vid] {
        auto* p = new ApiProcSync;
        p->ctx = cp;
        p->vid = vid;
        return std::unique_ptr<GraphProcessor>(p);
      });
    }
    vb->name("v" + std::to_string(v));
    static const char* kMacroDep[3] = {"a", "b", "m"};
    for (size_t i = 0; i < vs.deps.size(); ++i) {
      const DepSpec& dp = vs.deps[i];
      auto& db = vs.macro ? vb->named_depend(kMacroDep[i]) : vb->anonymous_depend();
      db.to(dname(dp.target));
      if (dp.cond >= 0) {
        if (dp.on) db.on(dname(dp.cond));
        else db.unless(dname(dp.cond));
      }
    }
    for (size_t j = 0; j < vs.emits.size(); ++j) {
      auto& eb = vs.macro ? vb->named_emit("x") : vb->anonymous_emit();
      eb.to(dname(vs.emits[j]));
    }
  }
  if (b.finish() != 0) return nullptr;
  return b.build();
}

////////////////////////////////////////////////////////////////////////////////
// One run -> wait -> oracle -> reset cycle
bool data_matches(Ctx& c, int d, std::string* why) {
  GraphData* gd = c.gd[size_t(d)];
  int8_t rs = c.ref.dstate[size_t(d)];
  if (!gd->ready()) { *why = "not ready"; return false; }
  bool empty = gd->empty();
  if (rs == S_EMPTY) {
    if (!empty) { *why = "holds a value, reference says empty"; return false; }
    return true;
  }
  if (empty) { *why = "empty, reference says value"; return false; }
  uint64_t got;
  if (c.spec.d[size_t(d)].is_bool) {
    const bool* pv = gd->value<bool>();
    if (!pv) { *why = "value<bool>() null"; return false; }
    got = *pv ? 1 : 0;
  } else {
    const uint64_t* pv = gd->value<uint64_t>();
    if (!pv) { *why = "value<uint64_t>() null"; return false; }
    got = *pv;
  }
  uint64_t sv = c.side[size_t(d)];  // plain payload written before the commit
  if (got != c.ref.dval[size_t(d)] || sv != got) {
    *why = vf::fmt("value %lx payload %lx, reference %lx", (unsigned long)got, (unsigned long)sv,
                   (unsigned long)c.ref.dval[size_t(d)]);
    return false;
  }
  return true;
}

std::string graph_state_dump(Ctx& c) {
  std::string o = "graph state:\n";
  if (!c.graph) return o;
  auto& vs = c.graph->vertexes();
  for (size_t v = 0; v < vs.size(); ++v) {
    o += vf::fmt(" v%zu activated=%d waiting=%ld runs=%d deps:", v, int(vs[v]._activated.load(std::memory_order_relaxed)),
                 long(vs[v]._waiting_num.load(std::memory_order_relaxed)), c.runs[v].load(std::memory_order_relaxed));
    for (auto& dp : vs[v]._dependencies)
      o += vf::fmt(" [w=%ld est=%d rdy=%d]", long(dp._waiting_num.load(std::memory_order_relaxed)), int(dp._established), int(dp._ready));
    o += "\n";
  }
  o += " data ready:";
  for (size_t d = 0; d < c.gd.size(); ++d)
    if (c.gd[d]) o += vf::fmt(" d%zu=%d%s", d, int(c.gd[d]->ready()), c.gd[d]->_acquired.load(std::memory_order_relaxed) ? "a" : "");
  o += vf::fmt("\n inflight=%d async_pending=%d phase=%d\n", c.inflight.load(), c.async_pending.load(), c.phase.load());
  return o;
}

void compute_ext_relaxed(Ctx& c) {
  c.ext_relaxed.assign(c.spec.v.size(), 0);
  if (c.plan.ext_data < 0) return;
  std::vector<int> st {c.spec.d[size_t(c.plan.ext_data)].producer};
  while (!st.empty()) {
    int v = st.back();
    st.pop_back();
    if (v < 0 || c.ext_relaxed[size_t(v)]) continue;
    c.ext_relaxed[size_t(v)] = 1;
    for (auto& dp : c.spec.v[size_t(v)].deps) {
      st.push_back(c.spec.d[size_t(dp.target)].producer);
      if (dp.cond >= 0) st.push_back(c.spec.d[size_t(dp.cond)].producer);
    }
  }
}

void run_cycle(Ctx& c, vf::Rng& r, const std::vector<std::string>& stall_points) {
  size_t nv = c.spec.v.size(), nd = c.spec.d.size();
  c.plan = gen_plan(r, c.spec, c.exec_kind);
  c.ref = Ref();
  {
    RefEval ev(c.spec, c.plan, c.ref);
    ev.run();
  }
  choose_external_injection(r, c.spec, c.plan, c.ref);
  compute_ext_relaxed(c);
  for (size_t v = 0; v < nv; ++v) c.runs[v].store(0, std::memory_order_relaxed);
  for (size_t d = 0; d < nd; ++d) {
    c.commits[d].store(0, std::memory_order_relaxed);
    c.side[d] = 0;
  }
  c.ext_result.store(0, std::memory_order_relaxed);
  c.ext_rdv.store(0, std::memory_order_relaxed);
  c.cb_calls = 0;
  c.policy = vf::draw_policy(r, stall_points, 40, 4000);
  vf::watchdog().set_context(c.describe());

  // inputs (and some produced data) are published before run()
  for (size_t d = 0; d < nd; ++d) {
    if (!c.plan.inject[d] || !c.gd[d]) continue;
    bool ok;
    if (c.spec.d[d].is_bool) {
      auto cm = c.gd[d]->emit<bool>();
      ok = bool(cm);
      if (ok && c.plan.inject[d] == 1) { c.side[d] = c.plan.inject_val[d]; *cm = c.plan.inject_val[d] != 0; }
      cm.release();
    } else {
      auto cm = c.gd[d]->emit<uint64_t>();
      ok = bool(cm);
      if (ok && c.plan.inject[d] == 1) { c.side[d] = c.plan.inject_val[d]; *cm = c.plan.inject_val[d]; }
      cm.release();
    }
    if (!ok) c.fail("inject-committer-invalid", vf::fmt("emit() on d%zu of a freshly built / reset graph gave an invalid committer", d));
    c.commits[d].fetch_add(1, std::memory_order_relaxed);
  }
  std::vector<GraphData*> tg;
  for (int t : c.plan.targets) tg.push_back(c.gd[size_t(t)]);

  vf::watchdog().arm(true);
  c.phase.store(1, std::memory_order_relaxed);
  vf::set_op("graph.run");
  Closure closure = c.graph->run(tg.data(), tg.size());
  if (c.plan.use_on_finish) {
    vf::set_op("on_finish-callback");
    Ctx* cp = &c;
    closure.on_finish([cp](Closure&& fc) {
      std::lock_guard<std::mutex> l(cp->fmu);
      if (cp->cb_calls++ == 0) cp->stash = std::move(fc);
      cp->fcv.notify_all();
    });
    std::unique_lock<std::mutex> l(c.fmu);
    c.fcv.wait(l, [&] { return c.cb_calls > 0; });
    closure = std::move(c.stash);
    VF_COUNT("obs:on_finish_runs");
  }
  vf::set_op("closure.get");
  int err = closure.get();
  vf::progress();
  if (!closure.finished()) c.fail("get-returned-unfinished", "closure.get() returned but finished() is false");
  if (closure.error_code() != err) c.fail("error-code-unstable", vf::fmt("get() returned %d, error_code() %d", err, closure.error_code()));
  if (!c.ref.fail && err == 0) {
    // targets are published once get() returns, even while other vertices are still in flight
    for (int t : c.plan.targets) {
      std::string why;
      if (!data_matches(c, t, &why))
        c.fail("target-value-mismatch-after-get", vf::fmt("target d%d after get(): %s", t, why.c_str()));
    }
  }
  c.phase.store(2, std::memory_order_relaxed);
  vf::set_op("closure.wait");
  closure.wait();
  int infl = c.inflight.load(std::memory_order_relaxed);
  vf::progress();
  c.phase.store(0, std::memory_order_relaxed);
  vf::watchdog().arm(false);
  vf::set_op("oracle");
  vf::disable_policy();
  if (infl != 0) c.fail("wait-returned-with-vertex-in-flight", vf::fmt("closure.wait() returned while %d processor(s) were still between process() entry and done()", infl));
  if (c.async_pending.load(std::memory_order_relaxed) != 0)
    c.fail("wait-returned-with-vertex-in-flight", "closure.wait() returned while an asynchronous processor still holds its closure");
  {
    std::lock_guard<std::mutex> l(c.fmu);
    if (c.cb_calls > 1) c.fail("on-finish-callback-twice", vf::fmt("on_finish callback invoked %d times", c.cb_calls));
  }
  bool ext_won = c.ext_result.load(std::memory_order_relaxed) == 1;
  if (c.plan.ext_data >= 0) {
    if (ext_won) VF_COUNT("rare:external_injection_won");
    else if (c.ext_result.load(std::memory_order_relaxed) == 2) VF_COUNT("rare:external_injection_lost");
  }
  if (c.ref.fail) {
    VF_COUNT("obs:failing_runs");
    if (err == 0) c.fail("failing-run-reported-success", "the reference run fails (missing input / processor error / executor refusal) but the closure reports 0");
  } else {
    VF_COUNT("obs:successful_runs");
    if (err != 0) {
      c.fail("run-failed-unexpectedly", vf::fmt("closure error code %d but the sequential reference succeeds", err) );
    } else {
      for (int t : c.plan.targets) {
        std::string why;
        if (!data_matches(c, t, &why)) c.fail("target-value-mismatch", vf::fmt("target d%d after wait(): %s", t, why.c_str()));
      }
      for (size_t v = 0; v < nv; ++v) {
        int n = c.runs[v].load(std::memory_order_relaxed);
        int want = c.ref.outcome[v] == O_RAN ? 1 : 0;
        if (n == want) continue;
        if (ext_won && c.ext_relaxed[v] && n == 0) { VF_COUNT("rare:producer_short_circuited_by_injection"); continue; }
        if (n > want) continue;  // reported online with a specific key (ran twice / unneeded / skip ignored)
        c.fail("needed-vertex-did-not-run", vf::fmt("v%zu ran %d times, reference says %s", v, n, kOutcome[c.ref.outcome[v]]));
      }
      if (!ext_won) {
        for (size_t d = 0; d < nd; ++d) {
          if (!c.gd[d]) continue;
          int8_t rs = c.ref.dstate[d];
          if (rs == S_VAL || rs == S_EMPTY) {
            std::string why;
            if (!data_matches(c, int(d), &why)) c.fail("data-value-mismatch", vf::fmt("d%zu after wait(): %s", d, why.c_str()));
          } else if (rs == S_UNK && c.gd[d]->ready()) {
            c.fail("unneeded-data-published", vf::fmt("d%zu is ready although nothing demanded it", d));
          }
        }
      }
    }
  }
  bool nontrivial = c.ref.n_cond_false > 0 || c.ref.n_skip > 0 || c.ref.n_async > 0 || c.ref.n_pre_ready_dep > 0 ||
                    c.ref.fail || c.plan.ext_data >= 0;
  VF_COUNT_N("obs:processors_run", uint64_t(c.ref.n_ran));
  VF_COUNT_N("obs:cond_false_deps", uint64_t(c.ref.n_cond_false));
  VF_COUNT_N("obs:cond_true_deps", uint64_t(c.ref.n_cond_true));
  VF_COUNT_N("obs:essential_skips", uint64_t(c.ref.n_skip));
  VF_COUNT_N("obs:async_processors", uint64_t(c.ref.n_async));
  VF_COUNT_N("obs:empty_deps_seen", uint64_t(c.ref.n_empty_dep));
  vf::evaluated(vf::mix(c.spec.hash, c.plan.hash, uint64_t(c.exec_kind) * 16 + uint64_t(c.workers)), nontrivial);
  if (c.cycle == 0 && (c.ep_index % 7) == 0)
    vf::sample(vf::jstr(c.describe().substr(0, 1500)), 3);
  if (vf::failed()) return;  // keep the state for the witness
  closure = Closure();
  c.graph->reset();
  for (size_t v = 0; v < nv; ++v) {
    if (c.resets[v].exchange(0, std::memory_order_relaxed) != 1)
      c.fail("processor-reset-not-once", vf::fmt("Graph::reset() did not call reset() of v%zu exactly once", v));
  }
}

const std::vector<std::string>& stall_point_names() {
  static const std::vector<std::string> names = {
      "af:dep_activate_added", "af:dep_act_term_m1", "af:dep_act_term_0", "af:dep_act_1", "af:dep_act_1_cond_unready",
      "af:dep_act_1_cond_ready_est", "af:dep_act_2", "af:dep_ready_sub", "af:dep_ready_cond_est_activates_target",
      "af:dep_ready_cond_false_sub2", "af:dep_ready_term_0", "af:vertex_ready", "af:vertex_activate_won",
      "af:vertex_activate_sub", "af:vertex_invoke", "af:data_release_sealed", "af:data_acquired", "af:closure_vertex_sub",
      "af:closure_data_sub", "af:closure_mark_finished", "cb:process_enter", "cb:before_commit", "cb:between_emits",
      "cb:after_emits", "cb:async_start", "cb:hexec_before_task", "cb:external_inject"};
  return names;
}

void run_episode(uint64_t seed, uint64_t ep, const std::string& mode) {
  uint64_t es = vf::mix(seed, ep, 0xC05);
  vf::Rng r(es);
  vf::thread_begin(es, 0);
  GSpec spec = gen_graph(r);
  int kind;
  if (mode == "inplace") kind = 0;
  else if (mode == "pool") kind = 1;
  else if (mode == "hexec") kind = 2;
  else kind = int(r.pick<int>({0, 1, 1, 1, 2, 2}));
  Ctx ctx(spec.v.size(), spec.d.size());
  ctx.spec = spec;
  ctx.ep_seed = seed;
  ctx.ep_index = ep;
  ctx.exec_kind = kind;
  ctx.workers = kind == 0 ? 0 : int(r.range(1, 8));
  ctx.async_threads = int(r.range(1, 3));
  g_ctx = &ctx;
  // some episodes are oversubscribed (all threads of the episode inherit the mask): preemption at arbitrary instructions
  int pin = (kind != 0 && r.chance(1, 8)) ? int(r.range(1, 3)) : 0;
  if (pin) { vf::pin_cpus(pin); VF_COUNT("obs:pinned_episodes"); }

  af::ThreadPoolGraphExecutor pool;
  HExec hexec;
  GraphExecutor* exec = &af::InplaceGraphExecutor::instance();
  if (kind == 1) {
    if (pool.initialize(size_t(ctx.workers), 256) != 0) { vf::inconclusive("ThreadPoolGraphExecutor::initialize failed"); g_ctx = nullptr; return; }
    exec = &pool;
  } else if (kind == 2) {
    hexec.start(ctx.workers, es, int(r.below(3)));
    g_hexec = &hexec;
    exec = &hexec;
  }
  std::vector<std::thread> ath;
  for (int i = 0; i < ctx.async_threads; ++i) ath.emplace_back(async_thread_main, &ctx, es, i);

  const std::vector<std::string>& stall_points = stall_point_names();
  {
    GraphBuilder builder;
    std::unique_ptr<Graph> graph = build_graph(builder, ctx, *exec);
    if (!graph) {
      ctx.fail("graph-build-failed", "GraphBuilder::finish()/build() rejected a generated acyclic single-producer graph");
    } else {
      ctx.graph = graph.get();
      ctx.gd.assign(spec.d.size(), nullptr);
      for (size_t d = 0; d < spec.d.size(); ++d) {
        if (!spec.d[d].used) continue;
        ctx.gd[d] = graph->find_data(dname(int(d)));
        if (!ctx.gd[d]) ctx.fail("graph-build-failed", vf::fmt("find_data(d%zu) is null", d));
      }
      int cycles = int(r.range(3, 10));
      for (ctx.cycle = 0; ctx.cycle < cycles && !vf::failed(); ++ctx.cycle) run_cycle(ctx, r, stall_points);
    }
    vf::disable_policy();
    if (vf::failed()) {
      // a violated run may have left processors in flight: do not tear the graph down under them
      vf::watchdog().arm(false);
      vf::finish_and_exit_now();
    }
    ctx.graph = nullptr;
  }
  {
    std::lock_guard<std::mutex> l(ctx.amu);
    ctx.astop = true;
  }
  ctx.acv.notify_all();
  for (auto& t : ath) t.join();
  if (kind == 1) pool.stop();
  if (kind == 2) { hexec.stop(); g_hexec = nullptr; }
  g_ctx = nullptr;
  if (pin) vf::pin_cpus(0);
  vf::thread_end();
}

}  // namespace

int main(int argc, char** argv) {
  vf::init(argc, argv, "C05", "c05_anyflow");
  auto& a = vf::args();
  {
    ::babylon::LoggerBuilder lb;
    lb.set_min_severity(::babylon::LogSeverity::FATAL);
    ::babylon::LoggerManager::instance().set_root_builder(std::move(lb));
    ::babylon::LoggerManager::instance().apply();
  }
  std::string mode = a.mode.empty() ? "all" : a.mode;
  auto& wd = vf::watchdog();
  wd.classify = []() -> std::string {
    Ctx* c = g_ctx;
    if (!c) return "";
    int ph = c->phase.load(std::memory_order_relaxed);
    if (ph == 0) return "";
    if (c->async_pending.load(std::memory_order_relaxed) != 0) return "";  // a harness async job is still owed
    HExec* h = g_hexec;
    if (h && !h->idle()) return "";
    return ph == 1 ? "stuck:run-never-finished" : "stuck:wait-never-returned";
  };
  wd.dump_extra = []() -> std::string {
    Ctx* c = g_ctx;
    return c ? graph_state_dump(*c) : std::string();
  };
  // vf::draw_policy publishes interned names with relaxed stores: intern them while no library thread exists
  for (auto& nm : stall_point_names()) vf::intern(nm);
  wd.start();
  uint64_t n = vf::budget(260, 9000);
  for (uint64_t e = 0; e < n && !vf::failed(); ++e) {
    if (a.only_episode >= 0 && uint64_t(a.only_episode) != e) continue;
    run_episode(a.seed, e, mode);
  }
  wd.shutdown();
  vf::extra("assumptions", "\"dependencies whose condition equals their target are not generated; one producer per data; "
                           "external concurrent emit only in graphs without trivial vertices\"");
  return vf::finish();
}
