// C06 - monotonic memory resources (DESIGN §5 C06).
//
// modes:
//   excl    single-threaded histories on ExclusiveMonotonicBufferResource (two resource
//           objects per episode, own recording page allocators of possibly different page
//           sizes, one recording upstream): allocate through every entry point, register
//           destructors, contains probes, verify, release, destroy/recreate, move-assign,
//           move-construct.
//   shared  SharedMonotonicBufferResource / SwissMemoryResource: 2-8 chains of threads
//           (a thread spawns its successor and dies: thread ids and their per-thread
//           exclusive resources are re-used) allocating concurrently in phases; between
//           phases (quiescent) the full oracle, release, move.
//   probes  deterministic probes of operations that are kept out of the other two modes
//           because the unchanged tree fails them (moves, contains() after an alignment
//           overshoot; specific keys, see notes/C06.md).
//   all     excl + shared (default)
//
// Recorders: RecPages (PageAllocator) and RecUpstream (std::pmr::memory_resource) hand out
// real memory, keep live sets and fail on double free / foreign free / wrong (bytes, align).
// Oracle at every quiescent point: alignment, containment in a live page / live oversize
// block, pairwise disjointness (sort), block-specific byte patterns, contains(), destructor
// run counts, accounting; after release(): recorders empty, accounting zero, reusable.
#include <deque>
#include <memory_resource>

#include "common/vf.h"

#include "babylon/reusable/memory_resource.h"

namespace {

using Excl = ::babylon::ExclusiveMonotonicBufferResource;
using Shared = ::babylon::SharedMonotonicBufferResource;
using Swiss = ::babylon::SwissMemoryResource;
using Mono = ::babylon::MonotonicBufferResource;

////////////////////////////////////////////////////////////////////////////////
// witness context
std::string g_desc;                 // configuration of the running episode
std::mutex g_log_mu;
std::deque<std::string> g_log;      // last operations (exclusive mode / main thread)
void oplog(const std::string& s) {
  std::lock_guard<std::mutex> g(g_log_mu);
  g_log.push_back(s);
  if (g_log.size() > 60) g_log.pop_front();
}
std::string detail() {
  std::lock_guard<std::mutex> g(g_log_mu);
  std::string o = g_desc + "\nlast operations:\n";
  for (auto& s : g_log) o += "  " + s + "\n";
  return o;
}
void fail(const std::string& key, const std::string& msg) { vf::violation(key, msg, detail()); }

////////////////////////////////////////////////////////////////////////////////
// Lock-free pointer set (relaxed atomics only: adds no happens-before edge)
struct PtrMap {
  static constexpr size_t N = 1 << 16;
  std::atomic<uintptr_t>* k;
  std::atomic<uint64_t> live {0}, inserts {0};
  PtrMap() : k(new std::atomic<uintptr_t>[N]) { clear(); }
  ~PtrMap() { delete[] k; }
  void clear() {
    for (size_t i = 0; i < N; ++i) k[i].store(0, std::memory_order_relaxed);
    live.store(0, std::memory_order_relaxed);
    inserts.store(0, std::memory_order_relaxed);
  }
  static size_t h(uintptr_t p) { return size_t(((p >> 6) * 0x9e3779b97f4a7c15ULL) >> 48); }
  bool contains(uintptr_t p) const {
    for (size_t i = h(p), n = 0; n < N; i = (i + 1) & (N - 1), ++n) {
      uintptr_t c = k[i].load(std::memory_order_relaxed);
      if (c == p) return true;
      if (c == 0) return false;
    }
    return false;
  }
  // false: already present
  bool insert(uintptr_t p) {
    if (contains(p)) return false;
    for (size_t i = h(p), n = 0; n < N; i = (i + 1) & (N - 1), ++n) {
      uintptr_t c = k[i].load(std::memory_order_relaxed);
      while (c == 0 || c == 1) {
        if (k[i].compare_exchange_weak(c, p, std::memory_order_relaxed)) {
          live.fetch_add(1, std::memory_order_relaxed);
          inserts.fetch_add(1, std::memory_order_relaxed);
          return true;
        }
      }
    }
    vf::inconclusive("harness: PtrMap full");
    return true;
  }
  bool remove(uintptr_t p) {
    for (size_t i = h(p), n = 0; n < N; i = (i + 1) & (N - 1), ++n) {
      uintptr_t c = k[i].load(std::memory_order_relaxed);
      if (c == p) {
        if (k[i].compare_exchange_strong(c, 1, std::memory_order_relaxed)) {
          live.fetch_sub(1, std::memory_order_relaxed);
          return true;
        }
        return false;  // somebody else removed it at the same instant: double free
      }
      if (c == 0) return false;
    }
    return false;
  }
  template <typename F>
  void for_each(F&& f) const {
    for (size_t i = 0; i < N; ++i) {
      uintptr_t c = k[i].load(std::memory_order_relaxed);
      if (c > 1) f(c);
    }
  }
};

////////////////////////////////////////////////////////////////////////////////
// Recording page allocator
// A release window brackets exactly one release() / destruction of one resource. The property demands that
// release() runs every registered destructor first and only THEN returns pages / oversize blocks: memory handed
// back inside the window is counted, and a destructor that runs after the first hand-back is a violation (added
// after the seeded change C06-a1 — the shared resource releasing its per-thread parts one after the other,
// destructors of later parts running after the pages of earlier parts were gone — escaped the content checks).
std::atomic<uint64_t> g_returned_in_window {0};
struct ReleaseWindow {
  std::atomic<bool> open {false};
  ReleaseWindow& operator=(bool v) {
    if (v) g_returned_in_window.store(0, std::memory_order_relaxed);
    open.store(v, std::memory_order_release);
    return *this;
  }
  bool load(std::memory_order = std::memory_order_relaxed) const { return open.load(std::memory_order_acquire); }
};
ReleaseWindow g_release_window;
inline void note_memory_returned() {
  if (g_release_window.load()) g_returned_in_window.fetch_add(1, std::memory_order_relaxed);
}

struct RecPages : public ::babylon::PageAllocator {
  static constexpr size_t kGuard = 64;
  size_t ps = 4096;
  const char* name = "?";
  PtrMap map;
  std::atomic<uint64_t> n_alloc {0}, n_free {0}, n_bad_free {0};
  std::atomic<bool> quiet {false};  // probe mode: count instead of reporting
  void reset(size_t page_size, const char* nm) {
    ps = page_size;
    name = nm;
    map.clear();
    n_alloc = 0;
    n_free = 0;
    n_bad_free = 0;
    quiet = false;
  }
  size_t page_size() const noexcept override { return ps; }
  using PageAllocator::allocate;
  using PageAllocator::deallocate;
  void allocate(void** pages, size_t num) noexcept override {
    for (size_t i = 0; i < num; ++i) {
      // kGuard canary bytes behind every page: glibc's usable slack (and babylon's own ASan
      // unpoisoning of a mis-placed PageArray) would otherwise hide a small overrun
      void* p = nullptr;
      if (::posix_memalign(&p, ps, ps + kGuard) != 0) { vf::inconclusive("harness: out of memory"); ::abort(); }
      memset(p, 0xCD, ps);
      memset(static_cast<char*>(p) + ps, 0xA7, kGuard);
      if (!map.insert(uintptr_t(p))) vf::inconclusive("harness: malloc returned a live page twice");
      n_alloc.fetch_add(1, std::memory_order_relaxed);
      pages[i] = p;
    }
    VF_COUNT_N("obs:pages_allocated", num);
  }
  void deallocate(void** pages, size_t num) noexcept override {
    for (size_t i = 0; i < num; ++i) {
      void* p = pages[i];
      if (!map.remove(uintptr_t(p))) {
        n_bad_free.fetch_add(1, std::memory_order_relaxed);
        if (!quiet.load(std::memory_order_relaxed))
          fail("page-double-or-foreign-free",
               vf::fmt("page allocator %s (page size %zu) was handed page %p that it does not have outstanding "
                       "(returned twice, never allocated here, or not a page address)", name, ps, p));
        continue;  // never free memory we do not own
      }
      n_free.fetch_add(1, std::memory_order_relaxed);
      note_memory_returned();
      for (size_t g = 0; g < kGuard; ++g) {
        if (static_cast<unsigned char*>(p)[ps + g] != 0xA7) {
          fail("page-overrun", vf::fmt("the %zu bytes behind page %p (page size %zu) were written (first at offset +%zu): the "
                                       "resource wrote beyond the end of a page", kGuard, p, ps, g));
          break;
        }
      }
      memset(p, 0xDD, ps);
      asm volatile("" : : "r"(p) : "memory");  // keep the poison store (dead-store elimination before free)
      ::free(p);
    }
  }
  uint64_t live() const { return map.live.load(std::memory_order_relaxed); }
  // drop whatever is still outstanding (after a violation was reported)
  void drain() {
    std::vector<uintptr_t> v;
    map.for_each([&](uintptr_t p) { v.push_back(p); });
    for (auto p : v) { map.remove(p); ::free(reinterpret_cast<void*>(p)); }
  }
};

thread_local int g_owner = 0;  // which logical content is allocating (exclusive mode)

// Recording upstream resource. Rare operations: a mutex-protected ordered map is fine.
struct RecUpstream : public ::std::pmr::memory_resource {
  size_t kGuard = 32;  // canary bytes behind every block (0 in probe P1, where the library frees our blocks itself)
  struct Ent { size_t bytes, align; int owner; };
  std::mutex mu;
  std::map<uintptr_t, Ent> live;
  const char* name = "U";
  uint64_t n_alloc = 0, n_free = 0, n_foreign = 0, n_wrong = 0;
  bool quiet = false;            // probe mode
  RecUpstream* sibling = nullptr;  // probe mode: where a foreign pointer may really belong

  void* do_allocate(size_t bytes, size_t alignment) override {
    size_t a = alignment ? alignment : 1;
    void* p = ::operator new(bytes + kGuard, ::std::align_val_t(a));
    memset(p, 0xCE, bytes);
    memset(static_cast<char*>(p) + bytes, 0xA9, kGuard);
    std::lock_guard<std::mutex> g(mu);
    live[uintptr_t(p)] = Ent {bytes, alignment, g_owner};
    ++n_alloc;
    VF_COUNT("obs:upstream_allocations");
    return p;
  }
  bool take(void* p, Ent* out) {
    std::lock_guard<std::mutex> g(mu);
    auto it = live.find(uintptr_t(p));
    if (it == live.end()) return false;
    *out = it->second;
    live.erase(it);
    ++n_free;
    return true;
  }
  void do_deallocate(void* p, size_t bytes, size_t alignment) override {
    Ent e;
    if (!take(p, &e)) {
      ++n_foreign;
      if (quiet) {
        Ent se;
        if (sibling && sibling->take(p, &se)) ::operator delete(p, ::std::align_val_t(se.align ? se.align : 1));
        return;
      }
      fail("upstream-double-or-foreign-free",
           vf::fmt("upstream %s: deallocate(%p, %zu, %zu) of a block it does not have outstanding", name, p, bytes,
                   alignment));
      return;
    }
    note_memory_returned();
    if (e.bytes != bytes || e.align != alignment) {
      ++n_wrong;
      fail("upstream-dealloc-wrong-size-or-alignment",
           vf::fmt("upstream %s: block %p obtained with (bytes=%zu, align=%zu) returned with (bytes=%zu, align=%zu)",
                   name, p, e.bytes, e.align, bytes, alignment));
    }
    for (size_t g = 0; g < kGuard; ++g) {
      if (static_cast<unsigned char*>(p)[e.bytes + g] != 0xA9) {
        fail("oversize-block-overrun", vf::fmt("the bytes behind upstream block %p (+%zu) were written (first at offset +%zu)", p, e.bytes, g));
        break;
      }
    }
    memset(p, 0xDE, e.bytes);
    asm volatile("" : : "r"(p) : "memory");
    ::operator delete(p, ::std::align_val_t(e.align ? e.align : 1));
  }
  bool do_is_equal(const memory_resource& o) const noexcept override { return this == &o; }

  // is [p, p+bytes) inside one live block?
  bool covers(const char* p, size_t bytes) {
    std::lock_guard<std::mutex> g(mu);
    auto it = live.upper_bound(uintptr_t(p));
    if (it == live.begin()) return false;
    --it;
    return uintptr_t(p) + bytes <= it->first + it->second.bytes;
  }
  size_t live_count(int owner = -1) {
    std::lock_guard<std::mutex> g(mu);
    if (owner < 0) return live.size();
    size_t n = 0;
    for (auto& kv : live) n += kv.second.owner == owner;
    return n;
  }
  size_t live_bytes(int owner = -1) {
    std::lock_guard<std::mutex> g(mu);
    size_t n = 0;
    for (auto& kv : live) if (owner < 0 || kv.second.owner == owner) n += kv.second.bytes;
    return n;
  }
  void set_owner(int from, int to) {
    std::lock_guard<std::mutex> g(mu);
    for (auto& kv : live) if (kv.second.owner == from) kv.second.owner = to;
  }
  // forget (and free unless `already_freed`) everything still recorded
  void drain(bool already_freed = false) {
    std::lock_guard<std::mutex> g(mu);
    if (!already_freed)
      for (auto& kv : live) ::operator delete(reinterpret_cast<void*>(kv.first), ::std::align_val_t(kv.second.align ? kv.second.align : 1));
    live.clear();
  }
  ~RecUpstream() override { drain(); }
};

////////////////////////////////////////////////////////////////////////////////
// Blocks, patterns, destructors
constexpr uint64_t kDtorMagic = 0xd7012c06d7012c06ULL;
constexpr uint64_t kObjMagic = 0x0b1ec7c06c06b1ecULL;

struct Dtor {
  uint64_t magic = kDtorMagic;
  std::atomic<uint32_t> runs {0};
};
struct ObjHeader {
  uint64_t magic;
  Dtor* rec;
};
void dtor_ext(void* p) {
  auto* d = static_cast<Dtor*>(p);
  if (d->magic != kDtorMagic) {
    fail("destructor-bad-argument", vf::fmt("a registered destructor was invoked with %p, which was never registered", p));
    return;
  }
  if (!g_release_window.load(std::memory_order_relaxed))
    fail("destructor-run-outside-release", "a registered destructor ran while no release()/destruction was in progress");
  d->runs.fetch_add(1, std::memory_order_relaxed);
  VF_COUNT("obs:destructors_run");
  if (g_release_window.load() && g_returned_in_window.load(std::memory_order_relaxed) != 0) {
    VF_COUNT("obs:destructor_after_memory_returned");
    fail("destructor-ran-after-memory-was-returned",
         vf::fmt("release() had already handed %lu page(s)/oversize block(s) back when a registered destructor ran: "
                 "destructors must all run before any memory of the resource is returned (an object may refer to "
                 "memory of the same resource that another thread allocated)",
                 (unsigned long)g_returned_in_window.load(std::memory_order_relaxed)));
  }
}
void dtor_obj(void* p) {
  auto* h = static_cast<ObjHeader*>(p);
  if (h->magic != (kObjMagic ^ uint64_t(uintptr_t(p)))) {
    fail("object-corrupt-at-destruction",
         vf::fmt("destructor of the object living in block %p found its header overwritten (contents not kept until release)", p));
    return;
  }
  dtor_ext(h->rec);
}

struct Block {
  char* p;
  uint32_t bytes, align;
  uint64_t tag;
  Dtor* obj;  // non-null: first 16 bytes are an ObjHeader whose destructor is registered
};
inline uint8_t pat(uint64_t tag, size_t i) { return uint8_t((tag >> ((i & 7) * 8)) ^ ((i * 131) >> 3)); }
inline void fill(const Block& b) {
  size_t i = 0;
  if (b.obj) {
    auto* h = reinterpret_cast<ObjHeader*>(b.p);
    h->magic = kObjMagic ^ uint64_t(uintptr_t(b.p));
    h->rec = b.obj;
    i = sizeof(ObjHeader);
  }
  for (; i < b.bytes; ++i) b.p[i] = char(pat(b.tag, i));
}
// -1 ok, else first bad offset
inline long check_fill(const Block& b) {
  size_t i = 0;
  if (b.obj) {
    auto* h = reinterpret_cast<const ObjHeader*>(b.p);
    if (h->magic != (kObjMagic ^ uint64_t(uintptr_t(b.p))) || h->rec != b.obj) return 0;
    i = sizeof(ObjHeader);
  }
  for (; i < b.bytes; ++i) if (uint8_t(b.p[i]) != pat(b.tag, i)) return long(i);
  return -1;
}

struct Content {
  std::vector<Block> blocks;
  std::vector<Dtor*> dtors;
  uint64_t sum_bytes = 0;
  uint64_t ndtor = 0;
  RecPages* pages = nullptr;
  int owner = 0;
  bool upstream_recorded = true;  // false after a move-construction (target uses new_delete_resource)
  void clear_tracking() {
    blocks.clear();
    for (auto* d : dtors) delete d;
    dtors.clear();
    sum_bytes = 0;
    ndtor = 0;
  }
};

struct Req { size_t bytes, align; };
Req draw_req(vf::Rng& r, size_t ps, bool allow_oversize) {
  long b = 0;
  long P = long(ps);
  switch (r.below(18)) {
    case 0: b = 0; break;
    case 1: case 2: case 3: case 4: case 5: b = long(r.range(1, 64)); break;
    case 6: b = long(r.range(1, 8)); break;
    case 7: case 8: b = long(r.range(65, uint64_t(std::max<long>(P / 2, 66)))); break;
    case 9: b = P - long(r.below(uint64_t(std::min<long>(P, 150)))); break;           // page - k
    case 10: b = P - 128 + 8 - long(r.below(17)); break;                              // bytes + sizeof(PageArray) <=> page
    case 11: b = P; break;
    case 12: b = P + long(r.range(1, 16)); break;                                     // oversize, page + k
    case 13: b = r.chance(1, 2) ? 2 * P : 3 * P + 1; break;
    case 14: b = long(r.range(uint64_t(P / 4), uint64_t(P))); break;
    case 15: b = P - long(r.range(120, 140)); break;                                  // leaves ~ one PageArray
    case 16: b = long(r.range(uint64_t(P / 2), uint64_t(P))); break;
    default: b = long(r.range(100, 300)); break;
  }
  if (b < 0) b = long(r.below(4));
  size_t a;
  unsigned lg = unsigned(__builtin_ctzl(ps));
  switch (r.below(10)) {
    case 0: case 1: case 2: case 3: case 4: a = size_t(1) << r.below(5); break;
    case 5: case 6: case 7: a = size_t(1) << r.below(lg + 1); break;
    case 8: a = ps; break;
    default:
      // above the page size: served by the upstream (kept rare: over-aligned operator new is slow under ASan)
      a = r.chance(1, 3) ? ps << r.range(1, 2) : size_t(1) << r.below(4);
      break;
  }
  if (!allow_oversize) {
    if (size_t(b) > ps) b = long(ps) - long(r.below(16));
    if (a > ps) a = ps;
  }
  return Req {size_t(b), a};
}

////////////////////////////////////////////////////////////////////////////////
// rare-branch classification from private state (addresses only: the bookkeeping itself is
// poisoned under ASan and never read)
struct Snap { void* pa; void* oa; void* da; };
inline Snap snap(Excl& r) { return Snap {r._last_page_array, r._last_oversize_page_array, r._last_destroy_task_array}; }
struct EpStat { uint64_t rare = 0; uint64_t h = 0; };
inline void classify_alloc(Excl& r, const Snap& b, const char* p, size_t bytes, size_t align, size_t ps, EpStat& st) {
  if (r._last_page_array != b.pa && r._last_page_array != nullptr) {
    auto* arr = r._last_page_array;
    uintptr_t a = uintptr_t(arr);
    if (r._last_page_pointer == &arr->pages[Excl::PAGE_ARRAY_CAPACITY - 2]) VF_COUNT("rare:page_array_in_extra_page");
    else if (a >= uintptr_t(p) && a < uintptr_t(p) + ps) VF_COUNT("rare:page_array_in_new_page_tail");
    else VF_COUNT("rare:page_array_in_old_page_tail");
    ++st.rare;
  }
  if (r._last_oversize_page_array != b.oa && r._last_oversize_page_array != nullptr) {
    if (b.oa == nullptr) VF_COUNT("rare:oversize_first_array"); else VF_COUNT("rare:oversize_array_growth");
    ++st.rare;
  }
  if (bytes == 0) VF_COUNT("rare:zero_byte_request");
  if (align > ps) VF_COUNT("rare:alignment_above_page");
  if (bytes > ps) VF_COUNT("obs:bytes_above_page");
}
inline void classify_dtor(Excl& r, const Snap& b, EpStat& st) {
  if (r._last_destroy_task_array != b.da && r._last_destroy_task_array != nullptr) {
    if (b.da == nullptr) VF_COUNT("rare:destroy_task_first_array"); else VF_COUNT("rare:destroy_task_array_growth");
    if (r._last_oversize_page_array != b.oa) VF_COUNT("rare:destroy_task_array_oversize");
    ++st.rare;
  }
}

// checks that hold for every returned block immediately
inline bool check_result(const char* what, char* p, size_t bytes, size_t align) {
  if (bytes > 0 && p == nullptr) {
    fail("allocate-returned-null", vf::fmt("%s(bytes=%zu, align=%zu) returned nullptr", what, bytes, align));
    return false;
  }
  if (p == nullptr) { VF_COUNT("obs:zero_byte_null_result"); return false; }
  if ((uintptr_t(p) & (align - 1)) != 0) {
    fail("block-misaligned", vf::fmt("%s(bytes=%zu, align=%zu) returned %p", what, bytes, align, (void*)p));
    return false;
  }
  return true;
}

// Full oracle over the live blocks of one resource at a quiescent point.
void verify_content(Mono& res, Content& c, RecUpstream& U, bool exclusive, const char* when) {
  VF_COUNT("obs:full_verifications");
  size_t ps = c.pages->ps;
  std::vector<const Block*> v;
  v.reserve(c.blocks.size());
  for (auto& b : c.blocks) if (b.bytes > 0) v.push_back(&b);
  std::sort(v.begin(), v.end(), [](const Block* a, const Block* b) { return a->p < b->p; });
  for (size_t i = 1; i < v.size(); ++i) {
    if (v[i - 1]->p + v[i - 1]->bytes > v[i]->p) {
      fail("blocks-overlap", vf::fmt("%s: live blocks [%p,+%u) and [%p,+%u) overlap", when, (void*)v[i - 1]->p,
                                     v[i - 1]->bytes, (void*)v[i]->p, v[i]->bytes));
      return;
    }
  }
  for (auto* b : v) {
    uintptr_t page = uintptr_t(b->p) & ~uintptr_t(ps - 1);
    bool in_page = c.pages->map.contains(page) && uintptr_t(b->p) + b->bytes <= page + ps;
    if (!in_page && !(c.upstream_recorded && U.covers(b->p, b->bytes))) {
      fail("block-outside-owned-memory",
           vf::fmt("%s: block [%p,+%u) (align %u) lies neither inside a live page of the resource's page allocator %s "
                   "(page size %zu) nor inside a live oversize block of its upstream", when, (void*)b->p, b->bytes,
                   b->align, c.pages->name, ps));
      return;
    }
    long bad = check_fill(*b);
    if (bad >= 0) {
      fail("block-content-changed", vf::fmt("%s: block [%p,+%u) no longer holds what was written into it (first "
                                            "difference at offset %ld)", when, (void*)b->p, b->bytes, bad));
      return;
    }
    // contains() walks every page array of every per-thread resource: sample it
    bool probe_contains = v.size() <= 64 || (vf::mix(uintptr_t(b->p), v.size()) % v.size()) < 64;
    if (probe_contains && (!res.contains(b->p) || !res.contains(b->p + b->bytes - 1))) {
      fail("contains-false-for-live-block", vf::fmt("%s: contains() is false for live block [%p,+%u)", when, (void*)b->p, b->bytes));
      return;
    }
    VF_COUNT("obs:blocks_verified");
  }
  for (auto* d : c.dtors) {
    if (d->runs.load(std::memory_order_relaxed) != 0) {
      fail("destructor-run-before-release", vf::fmt("%s: a registered destructor has already run %u time(s) before release()",
                                                     when, d->runs.load()));
      return;
    }
  }
  size_t used = res.space_used(), allocated = res.space_allocated();
  if (c.upstream_recorded) {
    size_t expect = size_t(c.pages->live()) * ps + (exclusive ? U.live_bytes(c.owner) : U.live_bytes());
    if (allocated != expect)
      fail("accounting-space-allocated", vf::fmt("%s: space_allocated()=%zu but %lu live pages x %zu + %zu live upstream bytes = %zu",
                                                 when, allocated, (unsigned long)c.pages->live(), ps,
                                                 expect - size_t(c.pages->live()) * ps, expect));
  }
  size_t dta = sizeof(Excl::DestroyTaskArray);
  size_t lo = c.sum_bytes, hi = c.sum_bytes + dta * c.ndtor;
  if (exclusive) lo = hi = c.sum_bytes + dta * ((c.ndtor + Excl::DESTROY_TASK_ARRAY_CAPACITY - 1) / Excl::DESTROY_TASK_ARRAY_CAPACITY);
  if (used < lo || used > hi)
    fail("accounting-space-used", vf::fmt("%s: space_used()=%zu, expected between %zu and %zu (requested bytes %lu, %lu destructors)",
                                          when, used, lo, hi, (unsigned long)c.sum_bytes, (unsigned long)c.ndtor));
}

// after release()/destruction of the resource that held `c`
void after_release(Mono* res, Content& c, RecUpstream& U, bool exclusive, const char* how) {
  for (auto* d : c.dtors) {
    uint32_t n = d->runs.load(std::memory_order_relaxed);
    if (n != 1) {
      fail(n == 0 ? "destructor-not-run" : "destructor-run-twice",
           vf::fmt("%s: a registered destructor ran %u times (of %zu registered)", how, n, c.dtors.size()));
      break;
    }
  }
  if (c.pages->live() != 0)
    fail("pages-not-returned", vf::fmt("%s: %lu page(s) of page allocator %s still outstanding (allocated %lu, returned %lu)", how,
                                       (unsigned long)c.pages->live(), c.pages->name, (unsigned long)c.pages->n_alloc.load(),
                                       (unsigned long)c.pages->n_free.load()));
  size_t ul = exclusive ? U.live_count(c.owner) : U.live_count();
  if (c.upstream_recorded && ul != 0)
    fail("oversize-not-returned", vf::fmt("%s: %zu oversize block(s) not returned to the upstream resource", how, ul));
  if (res) {
    if (res->space_used() != 0 || res->space_allocated() != 0)
      fail("accounting-not-zero-after-release", vf::fmt("%s: space_used()=%zu space_allocated()=%zu", how, res->space_used(),
                                                        res->space_allocated()));
    for (auto& b : c.blocks) {
      if (b.bytes && res->contains(b.p)) {
        fail("contains-true-after-release", vf::fmt("%s: contains(%p) still true", how, (void*)b.p));
        break;
      }
      if (&b - c.blocks.data() > 8) break;
    }
  }
  VF_COUNT("obs:releases_checked");
  c.clear_tracking();
  if (vf::failed()) { c.pages->drain(); }
}

////////////////////////////////////////////////////////////////////////////////
// exclusive histories
RecPages* pool_pages(int i) {
  static RecPages* pool[6] = {nullptr, nullptr, nullptr, nullptr, nullptr, nullptr};
  if (!pool[i]) pool[i] = new RecPages;
  return pool[i];
}
const std::vector<size_t> kPageSizes = {128, 256, 512, 4096};

struct Handle {
  Excl* res = nullptr;
  Content c;
};

char* excl_allocate(Excl& r, vf::Rng& rng, size_t bytes, size_t align, const char** how) {
  switch (rng.below(4)) {
    case 0: *how = "Exclusive::allocate"; return static_cast<char*>(r.allocate(bytes, align));
    case 1: *how = "MonotonicBufferResource::allocate"; return static_cast<char*>(static_cast<Mono&>(r).allocate(bytes, align));
    case 2:
      // std::pmr::memory_resource::allocate is declared returns_nonnull: a zero-byte request
      // on a resource without a page yields nullptr, which is left to the direct entry points
      if (bytes > 0 || r._free_begin != nullptr) {
        *how = "pmr::memory_resource::allocate";
        return static_cast<char*>(static_cast<::std::pmr::memory_resource&>(r).allocate(bytes, align));
      }
      *how = "Exclusive::allocate";
      return static_cast<char*>(r.allocate(bytes, align));
    default:
      *how = "Exclusive::allocate<A>";
      switch (align) {
        case 1: return static_cast<char*>(r.allocate<1>(bytes));
        case 2: return static_cast<char*>(r.allocate<2>(bytes));
        case 8: return static_cast<char*>(r.allocate<8>(bytes));
        case 16: return static_cast<char*>(r.allocate<16>(bytes));
        case 64: return static_cast<char*>(r.allocate<64>(bytes));
        case 128: return static_cast<char*>(r.allocate<128>(bytes));
        case 4096: return static_cast<char*>(r.allocate<4096>(bytes));
        default: *how = "Exclusive::allocate"; return static_cast<char*>(r.allocate(bytes, align));
      }
  }
}

void excl_release(Handle& h, RecUpstream& U, RecUpstream* real_upstream, vf::Rng& rng, const char* why) {
  verify_content(*h.res, h.c, U, true, "before release");
  if (vf::failed()) return;
  g_owner = h.c.owner;
  g_release_window = true;
  int how = int(rng.below(2));
  if (how == 0) h.res->release(); else static_cast<Mono*>(h.res)->release();
  g_release_window = false;
  oplog(vf::fmt("res%d.release() [%s]", h.c.owner, why));
  after_release(h.res, h.c, U, true, "after release()");
  if (!h.c.upstream_recorded && real_upstream) {
    h.res->set_upstream(*real_upstream);  // legal: nothing allocated
    h.c.upstream_recorded = true;
  }
}

void run_excl(uint64_t seed, uint64_t e) {
  vf::Rng r(vf::mix(seed, e, 0xc06e));
  { std::lock_guard<std::mutex> g(g_log_mu); g_log.clear(); }
  size_t psA = r.pick(kPageSizes), psB = r.chance(1, 2) ? psA : r.pick(kPageSizes);
  RecPages* RA = pool_pages(0);
  RecPages* RB = pool_pages(1);
  RA->reset(psA, "RA");
  RB->reset(psB, "RB");
  RecUpstream U;
  uint64_t nops = r.range(60, 700);
  g_desc = vf::fmt("mode=excl seed=%lu episode=%lu pageA=%zu pageB=%zu ops=%lu", (unsigned long)seed, (unsigned long)e, psA,
                   psB, (unsigned long)nops);
  Handle h[2];
  for (int i = 0; i < 2; ++i) {
    h[i].res = new Excl;
    h[i].res->set_page_allocator(i ? *RB : *RA);
    h[i].res->set_upstream(U);
    h[i].c.pages = i ? RB : RA;
    h[i].c.owner = i + 1;
  }
  EpStat st;
  uint64_t tagc = 0;
  int cur = 0;
  // bias: some episodes are allocation storms of near-page requests (page-array turnover)
  unsigned storm = unsigned(r.below(3));
  auto alloc_one = [&](Req q, bool allow_obj) -> bool {
    Handle& H = h[cur];
    Excl& R = *H.res;
    size_t ps = H.c.pages->ps;
      bool want_obj = allow_obj && q.bytes >= sizeof(ObjHeader) + 4 && q.align >= 8 && r.chance(1, 6);
      Snap b = snap(R);
      const char* how = "";
      char* p = excl_allocate(R, r, q.bytes, q.align, &how);
      oplog(vf::fmt("res%d %s(bytes=%zu, align=%zu) -> %p", H.c.owner, how, q.bytes, q.align, (void*)p));
      classify_alloc(R, b, p, q.bytes, q.align, ps, st);
      st.h = vf::mix(st.h, q.bytes, q.align, uint64_t(cur));
      H.c.sum_bytes += q.bytes;
      if (!check_result(how, p, q.bytes, q.align)) return !vf::failed();
      Block blk {p, uint32_t(q.bytes), uint32_t(q.align), vf::mix(seed, e, ++tagc), nullptr};
      if (want_obj) {
        blk.obj = new Dtor;
        H.c.dtors.push_back(blk.obj);
      }
      if (q.bytes > 0) {
        // immediate containment (cheap for pages)
        uintptr_t page = uintptr_t(p) & ~uintptr_t(ps - 1);
        bool in_page = H.c.pages->map.contains(page) && uintptr_t(p) + q.bytes <= page + ps;
        if (!in_page && !U.covers(p, q.bytes)) {
          fail("block-outside-owned-memory",
               vf::fmt("%s(bytes=%zu, align=%zu) returned %p, which lies neither inside a live page of the resource's page "
                       "allocator (page size %zu) nor inside a live oversize block of its upstream", how, q.bytes, q.align,
                       (void*)p, ps));
          return false;
        }
        if (in_page) VF_COUNT("obs:blocks_in_pages"); else VF_COUNT("obs:blocks_oversize");
      }
      fill(blk);
      H.c.blocks.push_back(blk);
      if (want_obj) {
        Snap b2 = snap(R);
        if (r.chance(1, 2)) R.register_destructor(p, &dtor_obj);
        else static_cast<Mono&>(R).register_destructor(static_cast<void*>(p), &dtor_obj);
        ++H.c.ndtor;
        classify_dtor(R, b2, st);
        oplog(vf::fmt("res%d.register_destructor(object in %p)", H.c.owner, (void*)p));
      }
      vf::progress();
      return true;
  };
  for (uint64_t op = 0; op < nops && !vf::failed(); ++op) {
    Handle& H = h[cur];
    Excl& R = *H.res;
    size_t ps = H.c.pages->ps;
    g_owner = H.c.owner;
    uint64_t k = r.below(100);
    if (storm == 2 && k >= 62 && k < 86 && r.chance(1, 2)) k = 0;
    if (k < 62) {
      Req q = draw_req(r, ps, H.c.upstream_recorded);
      // Boundary steering: when the current page array is full, the next new page decides between
      // the three placements of a new PageArray by the space left in the old page (>= sizeof(PageArray)
      // after alignment?) and by bytes + sizeof(PageArray) <= page size. Leave exactly kk bytes, then
      // ask for more than kk.
      bool array_full = R._last_page_array != nullptr && R._last_page_pointer == R._last_page_array->pages;
      if (array_full && R._free_begin != nullptr && R._free_end > R._free_begin && r.chance(1, 2)) {
        size_t rem = size_t(R._free_end - R._free_begin);
        size_t kk = r.pick<size_t>({0, 1, 7, 8, 112, 119, 120, 121, 127, 128, 129, 135, 136, 143, 144});
        if (rem > kk) {
          VF_COUNT("obs:page_array_boundary_steered");
          if (rem - kk > 0 && !alloc_one(Req {rem - kk, 1}, false)) continue;
          size_t lo = kk + 1, hi = ps;
          size_t b2 = lo >= hi ? hi : size_t(r.range(lo, hi));
          if (r.chance(1, 2)) b2 = std::min<size_t>(hi, std::max<size_t>(lo, ps - sizeof(Excl::PageArray) + 8 - r.below(17)));
          q = Req {b2, size_t(1) << r.below(5)};
        }
      }
      alloc_one(q, true);
    } else if (k < 72) {
      uint64_t n = r.range(1, 6);
      for (uint64_t i = 0; i < n; ++i) {
        auto* d = new Dtor;
        H.c.dtors.push_back(d);
        Snap b = snap(R);
        if (r.chance(1, 3)) {
          auto* task = R.get_destroy_task();
          task->ptr = d;
          task->destructor = &dtor_ext;
        } else if (r.chance(1, 2)) R.register_destructor(static_cast<void*>(d), &dtor_ext);
        else static_cast<Mono&>(R).register_destructor(static_cast<void*>(d), &dtor_ext);
        ++H.c.ndtor;
        classify_dtor(R, b, st);
      }
      oplog(vf::fmt("res%d.register_destructor x%lu", H.c.owner, (unsigned long)n));
      st.h = vf::mix(st.h, 0xd7, n);
    } else if (k < 80) {
      // contains probes: own live blocks are true, clearly foreign memory is false
      if (!H.c.blocks.empty()) {
        auto& b = H.c.blocks[r.below(H.c.blocks.size())];
        if (b.bytes && !R.contains(b.p + r.below(b.bytes))) {
          fail("contains-false-for-live-block", vf::fmt("contains() false inside live block [%p,+%u)", (void*)b.p, b.bytes));
          break;
        }
      }
      char on_stack[64];
      static char in_static[256];
      Handle& O = h[1 - cur];
      const void* foreign[3] = {on_stack, in_static + r.below(256), nullptr};
      if (!O.c.blocks.empty()) {
        auto& ob = O.c.blocks[r.below(O.c.blocks.size())];
        // a block of the other resource that sits in one of *its* pages
        uintptr_t page = uintptr_t(ob.p) & ~uintptr_t(O.c.pages->ps - 1);
        if (ob.bytes && O.c.pages->map.contains(page)) foreign[2] = ob.p;
      }
      for (auto* f : foreign) {
        if (f && R.contains(f) && R._free_begin > R._free_end && f >= static_cast<const void*>(R._free_end) &&
            f < static_cast<const void*>(R._free_begin)) {
          // known finding C06-contains-alignment-overshoot (probe 4 of mode `probes` reports it):
          // do_align() left _free_begin beyond _free_end and contains() sizes the newest page with it
          VF_COUNT("obs:contains_true_in_alignment_overshoot");
          continue;
        }
        if (f && R.contains(f)) {
          fail("contains-true-for-foreign", vf::fmt("res%d.contains(%p) is true for memory the resource does not own (%s)",
                                                    H.c.owner, f, f == foreign[2] ? "block of another resource" : "stack/static"));
          break;
        }
        VF_COUNT("obs:contains_foreign_probes");
      }
    } else if (k < 86) {
      verify_content(R, H.c, U, true, "mid-history");
      oplog(vf::fmt("verify res%d (%zu blocks)", H.c.owner, H.c.blocks.size()));
    } else if (k < 88) {
      excl_release(H, U, &U, r, "op");
      st.h = vf::mix(st.h, 0x4e1);
    } else if (k < 89) {
      verify_content(R, H.c, U, true, "before destruction");
      if (vf::failed()) break;
      g_release_window = true;
      delete H.res;
      g_release_window = false;
      oplog(vf::fmt("delete res%d", H.c.owner));
      after_release(nullptr, H.c, U, true, "after destruction");
      H.res = new Excl;
      H.res->set_page_allocator(*H.c.pages);
      H.res->set_upstream(U);
      H.c.upstream_recorded = true;
      VF_COUNT("obs:destroy_recreate");
    } else if (k < 93) {
      // move-assign: the two resources swap everything they own. Both use the same upstream
      // object here (operator= does not carry the upstream along: mode `probes`).
      Handle& O = h[1 - cur];
      if (H.c.upstream_recorded && O.c.upstream_recorded) {
        *H.res = std::move(*O.res);
        std::swap(H.c, O.c);
        oplog(vf::fmt("res(handle %d) = std::move(res(handle %d))", cur, 1 - cur));
        VF_COUNT("obs:move_assign");
        if (!H.c.blocks.empty() || !O.c.blocks.empty()) VF_COUNT("rare:move_assign_with_live_blocks");
        verify_content(*H.res, H.c, U, true, "after move-assign (target)");
        verify_content(*O.res, O.c, U, true, "after move-assign (source)");
        st.h = vf::mix(st.h, 0x30fe);
      }
    } else if (k < 96) {
      // move-construct; only while the source owns no oversize block (the target does not
      // inherit the upstream: mode `probes`). Until its next release the target is not asked
      // for oversize blocks.
      if (R._last_oversize_page_array == nullptr && H.c.upstream_recorded) {
        uint64_t a0 = H.c.pages->n_alloc.load(), f0 = H.c.pages->n_free.load();
        auto* C = new Excl(std::move(R));
        g_release_window = true;
        delete H.res;
        g_release_window = false;
        if (H.c.pages->n_alloc.load() != a0 || H.c.pages->n_free.load() != f0)
          fail("moved-from-resource-touched-pages", "destroying a moved-from resource allocated or returned pages");
        H.res = C;
        H.c.upstream_recorded = false;
        oplog(vf::fmt("res%d = new Exclusive(std::move(old)); delete old", H.c.owner));
        VF_COUNT("obs:move_construct");
        if (!H.c.blocks.empty()) VF_COUNT("rare:move_construct_with_live_blocks");
        verify_content(*H.res, H.c, U, true, "after move-construct");
        st.h = vf::mix(st.h, 0x30c0);
      }
    } else {
      cur = 1 - cur;
    }
  }
  for (int i = 0; i < 2 && !vf::failed(); ++i) {
    g_owner = h[i].c.owner;
    if (r.chance(1, 2)) excl_release(h[i], U, nullptr, r, "end");
    if (vf::failed()) break;
    verify_content(*h[i].res, h[i].c, U, true, "before final destruction");
    g_release_window = true;
    delete h[i].res;
    g_release_window = false;
    h[i].res = nullptr;
    oplog(vf::fmt("delete res%d (end)", h[i].c.owner));
    after_release(nullptr, h[i].c, U, true, "after final destruction");
  }
  if (!vf::failed() && (RA->live() || RB->live() || U.live_count()))
    fail("recorders-not-empty-at-end", vf::fmt("pages RA=%lu RB=%lu upstream=%zu still outstanding after both resources died",
                                               (unsigned long)RA->live(), (unsigned long)RB->live(), U.live_count()));
  if (vf::failed()) {
    for (int i = 0; i < 2; ++i) h[i].c.clear_tracking();  // resources are leaked on purpose after a violation
    RA->drain();
    RB->drain();
  }
  vf::evaluated(vf::mix(st.h, psA, psB, nops), st.rare > 0);
  if (e < 2) vf::sample("{\"mode\": \"excl\", \"config\": " + vf::jstr(g_desc) + vf::fmt(", \"rare_branches_hit\": %lu}", (unsigned long)st.rare));
}

////////////////////////////////////////////////////////////////////////////////
// shared / swiss histories
struct SharedWorld {
  Shared* S = nullptr;
  bool swiss = false;
  RecPages* R = nullptr;
  RecUpstream* U = nullptr;
  size_t ps = 0;
  uint64_t seed = 0, e = 0;
  std::mutex mu;
  struct Result {
    std::vector<Block> blocks;
    std::vector<Dtor*> dtors;
    uint64_t sum_bytes = 0, ndtor = 0;
  };
  std::vector<std::thread> pool;      // every thread of the phase, joined by main
  std::deque<Result> results;         // one per thread, created by the spawner; read by main after join
                                      // (a dying thread takes no harness lock: the hand-off of its
                                      // per-thread resource to a later thread is babylon's business)
  std::atomic<uint64_t> tagc {0};
  std::atomic<int> logical {0};
  std::atomic<uint64_t> rare {0};
  std::mutex id_mu;
  std::map<uint16_t, int> ids_seen;   // babylon thread id -> number of distinct threads that had it
};

char* shared_allocate(Shared& S, vf::Rng& rng, size_t bytes, size_t align, const char** how) {
  switch (rng.below(4)) {
    case 0: *how = "Shared::allocate"; return static_cast<char*>(S.allocate(bytes, align));
    case 1: *how = "MonotonicBufferResource::allocate"; return static_cast<char*>(static_cast<Mono&>(S).allocate(bytes, align));
    case 2:
      if (bytes > 0) {
        *how = "pmr::memory_resource::allocate";
        return static_cast<char*>(static_cast<::std::pmr::memory_resource&>(S).allocate(bytes, align));
      }
      *how = "Shared::allocate";
      return static_cast<char*>(S.allocate(bytes, align));
    default:
      *how = "Shared::allocate<A>";
      switch (align) {
        case 1: return static_cast<char*>(S.allocate<1>(bytes));
        case 8: return static_cast<char*>(S.allocate<8>(bytes));
        case 16: return static_cast<char*>(S.allocate<16>(bytes));
        case 64: return static_cast<char*>(S.allocate<64>(bytes));
        default: *how = "Shared::allocate"; return static_cast<char*>(S.allocate(bytes, align));
      }
  }
}

void shared_ops(SharedWorld& w, vf::Rng& r, uint64_t n, std::vector<Block>& mine, std::vector<Dtor*>& mydt,
                uint64_t& sum, uint64_t& nd) {
  Shared& S = *w.S;
  EpStat st;
  for (uint64_t i = 0; i < n && !vf::failed(); ++i) {
    uint64_t k = r.below(100);
    if (k < 78) {
      Req q = draw_req(r, w.ps, true);
      bool want_obj = q.bytes >= sizeof(ObjHeader) + 4 && q.align >= 8 && r.chance(1, 6);
      Excl& local = S._resources.local();
      Snap b = snap(local);
      const char* how = "";
      vf::set_op("allocate", q.bytes);
      char* p = shared_allocate(S, r, q.bytes, q.align, &how);
      classify_alloc(local, b, p, q.bytes, q.align, w.ps, st);
      sum += q.bytes;
      if (!check_result(how, p, q.bytes, q.align)) continue;
      Block blk {p, uint32_t(q.bytes), uint32_t(q.align), vf::mix(w.seed, w.e, w.tagc.fetch_add(1, std::memory_order_relaxed) + 1), nullptr};
      if (want_obj) {
        blk.obj = new Dtor;
        mydt.push_back(blk.obj);
      }
      fill(blk);
      mine.push_back(blk);
      if (want_obj) {
        Snap b2 = snap(local);
        S.register_destructor(static_cast<void*>(p), &dtor_obj);
        ++nd;
        classify_dtor(local, b2, st);
      }
      vf::progress();
      vf::perturb("cb:c06_after_allocate");
    } else if (k < 90) {
      auto* d = new Dtor;
      mydt.push_back(d);
      Excl& local = S._resources.local();
      Snap b = snap(local);
      if (r.chance(1, 3)) {
        auto* task = S.get_destroy_task();
        task->ptr = d;
        task->destructor = &dtor_ext;
      } else if (r.chance(1, 2)) S.register_destructor(static_cast<void*>(d), &dtor_ext);
      else static_cast<Mono&>(S).register_destructor(static_cast<void*>(d), &dtor_ext);
      ++nd;
      classify_dtor(local, b, st);
    } else if (!mine.empty()) {
      // contents of an earlier block of this thread are still intact while others allocate
      auto& b = mine[r.below(mine.size())];
      long bad = check_fill(b);
      if (bad >= 0) {
        fail("block-content-changed", vf::fmt("during concurrent allocation: block [%p,+%u) changed at offset %ld", (void*)b.p,
                                              b.bytes, bad));
        break;
      }
      VF_COUNT("obs:blocks_reverified_concurrently");
    }
  }
  w.rare.fetch_add(st.rare, std::memory_order_relaxed);
}

void shared_worker(SharedWorld* w, int chain, int depth, uint64_t nops, SharedWorld::Result* out);
void spawn_worker(SharedWorld* w, int chain, int depth, uint64_t nops) {
  std::lock_guard<std::mutex> g(w->mu);
  w->results.emplace_back();
  w->pool.emplace_back(shared_worker, w, chain, depth, nops, &w->results.back());
}
void shared_worker(SharedWorld* w, int chain, int depth, uint64_t nops, SharedWorld::Result* out) {
  int logical = w->logical.fetch_add(1, std::memory_order_relaxed);
  vf::thread_begin(vf::mix(w->seed, w->e, 0x5a), logical);
  vf::Rng r(vf::mix(w->seed, w->e, uint64_t(chain) * 64 + uint64_t(depth), 0x77));
  {
    uint16_t id = ::babylon::ThreadId::current_thread_id<Excl>().value;
    std::lock_guard<std::mutex> g(w->id_mu);
    if (++w->ids_seen[id] == 2) VF_COUNT("rare:thread_id_reused_within_episode");
  }
  uint64_t first = depth > 0 && r.chance(1, 2) ? r.below(nops + 1) : nops;  // ops before the successor is spawned
  shared_ops(*w, r, first, out->blocks, out->dtors, out->sum_bytes, out->ndtor);
  if (depth > 0 && !vf::failed()) spawn_worker(w, chain, depth - 1, nops);
  shared_ops(*w, r, nops - first, out->blocks, out->dtors, out->sum_bytes, out->ndtor);
  vf::thread_end();
}

void run_shared(uint64_t seed, uint64_t e) {
  vf::Rng r(vf::mix(seed, e, 0xc065));
  { std::lock_guard<std::mutex> g(g_log_mu); g_log.clear(); }
  SharedWorld w;
  w.seed = seed;
  w.e = e;
  w.swiss = r.chance(1, 2);
  w.ps = r.pick(kPageSizes);
  w.R = pool_pages(2);
  w.R->reset(w.ps, "R");
  RecUpstream U;
  w.U = &U;
  int phases = int(r.range(1, 3));
  std::string pol = vf::draw_policy(r, {"cb:c06_after_allocate"}, 400, 2000);
  if (vf::policy().sleep_per_65536.load() > 64) vf::policy().sleep_per_65536.store(64);
  g_desc = vf::fmt("mode=shared seed=%lu episode=%lu type=%s page=%zu phases=%d policy=[%s]", (unsigned long)seed, (unsigned long)e,
                   w.swiss ? "SwissMemoryResource" : "SharedMonotonicBufferResource", w.ps, phases, pol.c_str());
  auto make = [&]() -> Shared* {
    Shared* s;
    if (w.swiss) {
      if (r.chance(1, 2)) s = new Swiss(*w.R);
      else { auto* sw = new Swiss; sw->set_page_allocator(*w.R); s = sw; }
      static_cast<Swiss*>(s)->set_upstream(U);
    } else {
      if (r.chance(1, 2)) s = new Shared(*w.R);
      else { s = new Shared; s->set_page_allocator(*w.R); }
      s->set_upstream(U);
    }
    return s;
  };
  w.S = make();
  Content c;  // the merged view used by the oracle
  c.pages = w.R;
  uint64_t fp = vf::mix(w.ps, w.swiss, uint64_t(phases));
  auto merge = [&] {
    for (auto& res : w.results) {
      c.blocks.insert(c.blocks.end(), res.blocks.begin(), res.blocks.end());
      c.dtors.insert(c.dtors.end(), res.dtors.begin(), res.dtors.end());
      c.sum_bytes += res.sum_bytes;
      c.ndtor += res.ndtor;
    }
    w.results.clear();
  };
  std::vector<Shared*> moved_from;  // moved-from objects kept alive until the episode ends
  auto do_release = [&](const char* why) {
    verify_content(*w.S, c, U, false, "before release");
    if (vf::failed()) return;
    g_release_window = true;
    if (w.swiss && r.chance(1, 2)) static_cast<Swiss*>(w.S)->release(); else static_cast<Mono*>(w.S)->release();
    g_release_window = false;
    oplog(vf::fmt("release() [%s]", why));
    after_release(w.S, c, U, false, "after release()");
  };
  for (int ph = 0; ph < phases && !vf::failed(); ++ph) {
    int chains = int(r.range(2, 8));
    int depth = int(r.below(3));
    uint64_t nops = r.range(5, 150);
    if (chains > 6 && depth > 1) depth = 1;
    oplog(vf::fmt("phase %d: %d chains x %d generations x %lu ops", ph, chains, depth + 1, (unsigned long)nops));
    fp = vf::mix(fp, uint64_t(chains), uint64_t(depth), nops);
    vf::watchdog().arm(true);
    for (int i = 0; i < chains; ++i) spawn_worker(&w, i, depth, nops);
    for (size_t i = 0;; ++i) {
      std::thread t;
      {
        std::lock_guard<std::mutex> g(w.mu);
        if (i >= w.pool.size()) break;
        t = std::move(w.pool[i]);
      }
      t.join();
    }
    vf::watchdog().arm(false);
    w.pool.clear();
    VF_COUNT_N("obs:shared_threads_run", uint64_t(chains) * uint64_t(depth + 1));
    merge();
    if (vf::failed()) break;
    // quiescent: main thread joins in
    if (r.chance(1, 2)) {
      vf::Rng mr(vf::mix(seed, e, uint64_t(ph), 0x3a1));
      w.results.emplace_back();
      auto& res = w.results.back();
      shared_ops(w, mr, r.range(1, 40), res.blocks, res.dtors, res.sum_bytes, res.ndtor);
      merge();
    }
    verify_content(*w.S, c, U, false, "quiescent point after a phase");
    if (vf::failed()) break;
    uint64_t k = r.below(10);
    if (k < 3) {
      do_release("between phases");
    } else if (k < 5 && !c.blocks.empty()) {
      // move-construct into a new object; the thread-local resources (already created: the
      // source has allocated) travel along, the moved-from object dies without effect.
      Shared* old = w.S;
      uint64_t a0 = w.R->n_alloc.load(), f0 = w.R->n_free.load();
      if (w.swiss) w.S = new Swiss(std::move(*static_cast<Swiss*>(old)));
      else w.S = new Shared(std::move(*old));
      if (r.chance(1, 2)) {
        g_release_window = true;
        delete old;
        g_release_window = false;
        old = nullptr;
      }
      if (w.R->n_alloc.load() != a0 || w.R->n_free.load() != f0)
        fail("moved-from-resource-touched-pages", "destroying a moved-from shared resource allocated or returned pages");
      oplog("S = new T(std::move(*S))");
      VF_COUNT("obs:shared_move_construct");
      verify_content(*w.S, c, U, false, "after move-construct");
      if (old) moved_from.push_back(old);
    } else if (k < 6 && !w.swiss && !c.blocks.empty()) {
      // move-assign into a fresh Shared (SwissMemoryResource::operator= : mode `probes`)
      Shared* fresh = new Shared(*w.R);
      fresh->set_upstream(U);
      *fresh = std::move(*w.S);
      g_release_window = true;
      delete w.S;  // holds what `fresh` had: nothing
      g_release_window = false;
      w.S = fresh;
      oplog("fresh = std::move(*S); delete S; S = fresh");
      VF_COUNT("obs:shared_move_assign");
      verify_content(*w.S, c, U, false, "after move-assign");
    }
  }
  if (!vf::failed()) {
    if (r.chance(1, 2)) do_release("end");
    if (!vf::failed()) {
      verify_content(*w.S, c, U, false, "before destruction");
      g_release_window = true;
      delete w.S;
      g_release_window = false;
      w.S = nullptr;
      after_release(nullptr, c, U, false, "after destruction");
    }
  }
  if (!vf::failed()) {
    uint64_t a0 = w.R->n_alloc.load(), f0 = w.R->n_free.load();
    for (auto* m : moved_from) delete m;
    if (w.R->n_alloc.load() != a0 || w.R->n_free.load() != f0)
      fail("moved-from-resource-touched-pages", "destroying a moved-from shared resource allocated or returned pages");
  }
  if (vf::failed()) {
    c.clear_tracking();
    w.R->drain();
  }
  vf::disable_policy();
  vf::evaluated(fp, w.rare.load() > 0);
  if (e < 2 || (e & 63) == 0) vf::sample("{\"mode\": \"shared\", \"config\": " + vf::jstr(g_desc) +
                                         vf::fmt(", \"rare_branches_hit\": %lu}", (unsigned long)w.rare.load()), 6);
}

////////////////////////////////////////////////////////////////////////////////
// mode `probes`: move operations that the unchanged tree gets wrong (see notes/C06.md).
// Every probe observes through the recorders / contains() only; nothing is crashed.
void run_moves(uint64_t seed, uint64_t e) {
  vf::Rng r(vf::mix(seed, e, 0xc063));
  { std::lock_guard<std::mutex> g(g_log_mu); g_log.clear(); }
  size_t ps = r.pick(kPageSizes);
  int probe = int(e % 5);
  g_desc = vf::fmt("mode=probes seed=%lu episode=%lu probe=%d page=%zu", (unsigned long)seed, (unsigned long)e, probe, ps);
  RecPages* R1 = pool_pages(3);
  RecPages* R2 = pool_pages(4);
  R1->reset(ps, "R1");
  R2->reset(ps, "R2");
  uint64_t n_over = r.range(1, 20), n_small = r.range(0, 40);
  bool found = false;
  if (probe == 0) {
    // P1: move-construct an exclusive resource that owns oversize blocks obtained from U1
    RecUpstream U1;
    U1.name = "U1";
    U1.kGuard = 0;  // the blocks end up in ::operator delete(ptr, bytes, align) of new_delete_resource: sizes must match
    {
      Excl X;
      X.set_page_allocator(*R1);
      X.set_upstream(U1);
      for (uint64_t i = 0; i < n_small; ++i) X.allocate(r.range(1, 64), 8);
      for (uint64_t i = 0; i < n_over; ++i) X.allocate(ps + r.range(1, 100), 8);
      oplog(vf::fmt("X: %lu small + %lu oversize blocks (upstream U1); Exclusive Y(std::move(X)); Y.release()", (unsigned long)n_small,
                    (unsigned long)n_over));
      size_t before = U1.live_count();
      Excl Y(std::move(X));
      Y.release();
      size_t after = U1.live_count();
      if (after != 0) {
        found = true;
        fail("move-ctor-upstream-not-transferred",
             vf::fmt("ExclusiveMonotonicBufferResource Y(std::move(X)): X owned %zu oversize blocks obtained from its upstream "
                     "U1; Y.release() returned %zu of them to U1 (the others went to Y's default new_delete_resource)",
                     before, before - after));
        U1.drain(true);  // already handed to new_delete_resource by the library
      }
      if (R1->live() != 0) fail("pages-not-returned", "P1: pages outstanding after Y.release()");
    }
  } else if (probe == 1) {
    // P2: move-assign between resources with different upstreams
    RecUpstream U1, U2;
    U1.name = "U1";
    U2.name = "U2";
    U1.quiet = U2.quiet = true;
    U1.sibling = &U2;
    U2.sibling = &U1;
    {
      Excl X, Y;
      X.set_page_allocator(*R1);
      X.set_upstream(U1);
      Y.set_page_allocator(*R2);
      Y.set_upstream(U2);
      for (uint64_t i = 0; i < n_over; ++i) X.allocate(ps + r.range(1, 100), 16);
      for (uint64_t i = 0; i < n_small; ++i) Y.allocate(r.range(1, 64), 8);
      oplog(vf::fmt("X(U1): %lu oversize blocks; Y(U2): %lu small blocks; Y = std::move(X); Y.release(); X.release()",
                    (unsigned long)n_over, (unsigned long)n_small));
      Y = std::move(X);
      Y.release();
      X.release();
      if (U2.n_foreign || U1.n_foreign) {
        found = true;
        fail("move-assign-upstream-not-swapped",
             vf::fmt("ExclusiveMonotonicBufferResource Y = std::move(X): %lu oversize block(s) obtained from X's upstream U1 "
                     "were deallocated through Y's upstream U2 by Y.release()", (unsigned long)(U2.n_foreign + U1.n_foreign)));
      }
      if (U1.live_count() || U2.live_count()) fail("oversize-not-returned", "P2: oversize blocks outstanding after both releases");
      if (R1->live() || R2->live()) fail("pages-not-returned", "P2: pages outstanding after both releases");
    }
  } else if (probe == 2) {
    // P3: SwissMemoryResource move-assignment
    RecUpstream U;
    {
      Swiss A(*R1), B(*R2);
      A.set_upstream(U);
      B.set_upstream(U);
      std::vector<char*> ps_a;
      for (uint64_t i = 0; i < n_small + 1; ++i) ps_a.push_back(static_cast<char*>(A.allocate(r.range(1, 64), 8)));
      oplog(vf::fmt("Swiss A: %lu blocks; Swiss B empty; B = std::move(A)", (unsigned long)n_small + 1));
      B = std::move(A);
      size_t in_b = 0, in_a = 0;
      for (auto* p : ps_a) { in_b += B.contains(p); in_a += A.contains(p); }
      if (in_b != ps_a.size()) {
        found = true;
        fail("swiss-move-assign-does-not-transfer",
             vf::fmt("SwissMemoryResource B = std::move(A): of %zu live blocks allocated from A, B.contains() is true for %zu "
                     "and A.contains() for %zu - the blocks stay with the moved-from object (they die with A, not with B)",
                     ps_a.size(), in_b, in_a));
      }
    }
    if (R1->live() || R2->live()) fail("pages-not-returned", "P3: pages outstanding after both resources died");
  } else if (probe == 4) {
    // P5: contains() after an alignment request overshot the end of the newest page
    RecUpstream U;
    {
      Excl X;
      X.set_page_allocator(*R1);
      X.set_upstream(U);
      char* a = static_cast<char*>(X.allocate(r.range(1, 32), 1));
      size_t big_align = ps << r.range(1, 2);
      char* b = static_cast<char*>(X.allocate(r.range(1, 64), big_align));  // served by the upstream
      oplog(vf::fmt("X.allocate(small,1) -> %p (newest page); X.allocate(small, align=%zu) -> %p (oversize); "
                    "X.contains(q) for q just beyond the newest page", (void*)a, big_align, (void*)b));
      uintptr_t page = uintptr_t(a) & ~uintptr_t(ps - 1);
      for (size_t k = 0; k < ps; k += 8) {
        const char* q = reinterpret_cast<const char*>(page + ps + k);
        bool owned = R1->map.contains(uintptr_t(q) & ~uintptr_t(ps - 1)) || U.covers(q, 1);
        if (!owned && X.contains(q)) {
          found = true;
          fail("contains-true-beyond-newest-page",
               vf::fmt("after allocate(align=%zu > remaining space) was served elsewhere, contains(%p) is true although the "
                       "address lies %zu bytes beyond the end of the resource's newest page [%p,+%zu) and in no page or "
                       "oversize block it owns (_free_begin=%p > _free_end=%p is used as the page's fill level)", big_align,
                       (const void*)q, k, (void*)page, ps, (void*)X._free_begin, (void*)X._free_end));
          break;
        }
      }
    }
    if (R1->live()) fail("pages-not-returned", "P5: pages outstanding after the resource died");
  } else {
    // P4: a shared resource moved before its first allocation, source object gone
    RecUpstream U;
    alignas(Shared) static char buf[sizeof(Shared)];
    Shared* A = new (buf) Shared(*R1);
    A->set_upstream(U);
    Shared* B = new Shared(std::move(*A));
    A->~Shared();
    // the storage of A is re-used by an unrelated resource configured with R2
    Shared* A2 = new (buf) Shared(*R2);
    oplog("Shared A(R1); Shared B(std::move(A)); A destroyed, its storage re-used by Shared A2(R2); B.allocate(...)");
    char* p = static_cast<char*>(B->allocate(r.range(1, 64), 8));
    bool from_r1 = R1->map.contains(uintptr_t(p) & ~uintptr_t(ps - 1));
    bool from_r2 = R2->map.contains(uintptr_t(p) & ~uintptr_t(ps - 1));
    if (!from_r1) {
      found = true;
      fail("shared-move-thread-constructor-bound-to-source",
           vf::fmt("SharedMonotonicBufferResource B(std::move(A)) (&B.page_allocator()==R1: %d): after A was destroyed and its "
                   "storage re-used, B's first allocation took its page from %s - the per-thread constructor still reads the "
                   "moved-from object's members", &B->page_allocator() == R1, from_r2 ? "the page allocator of the unrelated "
                   "object now living at A's address" : "an unknown allocator"));
    }
    delete B;
    A2->~Shared();
    if (R1->live() || R2->live()) fail("pages-not-returned", "P4: pages outstanding after all resources died");
  }
  R1->drain();
  R2->drain();
  VF_COUNT(found ? "obs:move_probe_defect_seen" : "obs:move_probe_clean");
  vf::evaluated(vf::mix(uint64_t(probe), ps, n_over, n_small), true);
  if (e < 4) vf::sample("{\"mode\": \"probes\", \"config\": " + vf::jstr(g_desc) + "}", 4);
}

}  // namespace

int main(int argc, char** argv) {
  vf::init(argc, argv, "C06", "c06_memres");
  auto& a = vf::args();
  std::string mode = a.mode.empty() ? "all" : a.mode;
  auto& wd = vf::watchdog();
  wd.classify = []() -> std::string { return "stuck:allocation-never-returned"; };
  wd.start();
  uint64_t n_excl = 0, n_shared = 0, n_moves = 0;
  if (mode == "all") { n_excl = vf::budget(260, 12000); n_shared = vf::budget(40, 2500); }
  else if (mode == "excl") n_excl = vf::budget(260, 12000);
  else if (mode == "shared") n_shared = vf::budget(40, 2500);
  else if (mode == "probes") n_moves = vf::budget(40, 400);
  uint64_t e = 0;
  auto want = [&](uint64_t idx) { return a.only_episode < 0 || uint64_t(a.only_episode) == idx; };
  for (uint64_t i = 0; i < n_excl && !vf::failed(); ++i, ++e) if (want(e)) run_excl(a.seed, e);
  for (uint64_t i = 0; i < n_shared && !vf::failed(); ++i, ++e) if (want(e)) run_shared(a.seed, e);
  // the probes are independent of each other: keep going after a finding so that every
  // distinct key is reported in one run
  for (uint64_t i = 0; i < n_moves; ++i, ++e) if (want(e)) run_moves(a.seed, e);
  wd.shutdown();
  if (vf::failed()) {
    // resources of the failing episode are leaked on purpose; skip LeakSanitizer's exit check
    int code = vf::finish();
    _exit(code);
  }
  return vf::finish();
}
