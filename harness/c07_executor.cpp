// C07 — executors: an accepted task runs exactly once, on a thread that reports itself as running
// in that executor, its future becomes ready with the callable's result; stop() drains submitted work;
// a failed submission never runs the task and yields an invalid future.
//
// Episode kinds
//   pool       ThreadPoolExecutor: workers 1-8, global capacity 1-64, local capacity {0,1,4,64; thorough also 512,4096}, stealing on/off,
//              balance interval {unset,0,1ms}; 1-6 external submitter threads (execute/submit with plain functions,
//              member functions, functors, coroutine functions / functors); tasks spawn children from inside the
//              workers (depth <= 4); stop() after the external submitters were joined while tasks still run and
//              spawn; optional restart (start() after stop()) with a second phase.
//   inplace    InplaceExecutor (recursive spawning, checked right after each submission returns)
//   newthread  AlwaysUseNewThreadExecutor (+ join())
//   failing    an Executor whose invoke() refuses (always / by seeded coin, delegating to the inplace executor)
//
// Configuration rule (DESIGN §5 C07): a worker that submits into the bounded GLOBAL queue blocks when it is full --
// with every worker doing so nobody pops: documented behaviour, not a defect. Worker-side spawning is therefore only
// generated when the children are absorbed by the local queues (local capacity >= 64 >= tasks of the episode) or when
// the real global capacity exceeds every task of the episode plus the stop markers.
//
// Oracles (at the return of stop() / join() / the submission for inplace)
//   task-ran-twice / task-lost:*   per-task run counter: == 1 for every external task (all accepted before stop() was
//                                  called), for children whose submission returned before stop() was called, and for
//                                  children that went into a local queue (observed through the owner's push index);
//                                  <= 1 for every task
//   not-running-in-executor        executor.is_running_in() inside the task (and false on the external submitters)
//   future-*                       futures of execute(): valid, ready at the return of stop(), value == f(input)
//   ran-after-stop-returned        nothing runs once stop() returned (flag + run total re-read after destruction)
//   failed-submission:*            refused invoke: non-zero rc / invalid future, counter stays 0
//   local-capacity-exceeded        a worker's local queue never holds more than local_capacity tasks
//   stuck:*                        stop() / a blocked submitter / join() never returns (watchdog, bounded progress)
//   TSan/ASan                      plain input written before submission and read in the task, plain output written
//                                  in the task and read after stop(): a missing happens-before through the global /
//                                  local queues (non-atomic local push vs steal / balance pop) is a race report
#include "common/vf.h"
#include "common/vf_interpose.h"

#include "babylon/executor.h"

#include <memory>

namespace {

using ::babylon::CoroutineTask;
using ::babylon::Executor;
using ::babylon::Future;
using ::babylon::MoveOnlyFunction;
using ::babylon::ThreadPoolExecutor;

enum Kind : uint8_t {
  K_SUBMIT_FN, K_SUBMIT_MEM, K_SUBMIT_FUNCTOR, K_EXEC_FN, K_EXEC_MEM, K_EXEC_FUNCTOR,
  K_EXEC_CORO_FN, K_SUBMIT_CORO_FN, K_EXEC_CORO_FUNCTOR, K_SUBMIT_CORO_MEM, K_NUM
};
const char* kKindNames[] = {"submit(fn)", "submit(member)", "submit(functor)", "execute(fn)", "execute(member)",
                            "execute(functor)", "execute(coroutine fn)", "submit(coroutine fn)",
                            "execute(coroutine functor)", "submit(coroutine member)"};
inline bool kind_is_coroutine(uint8_t k) { return k >= K_EXEC_CORO_FN; }

struct Rec {
  std::atomic<uint32_t> runs {0};
  // written by the submitter before the submission (published to the task by the executor)
  uint8_t kind = 0, depth = 0, phase = 0;
  int32_t parent = -1;
  uint64_t input = 0;
  // written by the task
  uint64_t output = 0, run_stamp = 0;
  int runner_tid = 0;
  // written by the submitter after the submission returned; read after everything was joined
  uint64_t submit_call = 0, submit_ret = 0;
  int rc = 0, spawner_tid = 0;
  bool has_future = false, from_worker = false, went_local = false, submitted = false;
  Future<uint64_t> fut;
};

struct Cfg {
  uint64_t index = 0, seed = 0;
  int type = 0;  // 0 pool 1 inplace 2 newthread 3 failing
  int workers = 1, gcap = 1, lcap = 0, balance = -1 /* -1 unset, 0, 1000 us */;
  bool steal = false, spawn = false, restart = false;
  int submitters = 1;
  uint32_t per_submitter = 0, max_tasks = 0;
  int fail_per_4 = 4;  // failing executor: 4 = always refuse, else probability n/4
  int pin = 0;
  std::string policy;
  std::string describe() const {
    static const char* tn[] = {"pool", "inplace", "newthread", "failing"};
    return vf::fmt("ep=%lu seed=%lu type=%s workers=%d global=%d local=%d steal=%d balance_us=%d spawn=%d restart=%d "
                   "submitters=%d per_submitter=%u max_tasks=%u fail=%d/4 pin=%d policy{%s}",
                   (unsigned long)index, (unsigned long)seed, tn[type], workers, gcap, lcap, int(steal), balance, int(spawn),
                   int(restart), submitters, per_submitter, max_tasks, fail_per_4, pin, policy.c_str());
  }
};

struct World;
uint64_t body(World* w, uint32_t idx);

struct Obj {
  World* w = nullptr;
  uint64_t run(uint32_t idx) { return body(w, idx); }
  CoroutineTask<uint64_t> co_run(uint32_t idx) { co_return body(w, idx); }
};
struct Functor {
  World* w;
  uint32_t idx;
  uint64_t operator()() { return body(w, idx); }
};
struct CoFunctor {
  World* w;
  CoroutineTask<uint64_t> operator()(uint32_t idx) { co_return body(w, idx); }
};
uint64_t plain_fn(World* w, uint32_t idx) { return body(w, idx); }
CoroutineTask<uint64_t> co_fn(World* w, uint32_t idx) { co_return body(w, idx); }

class FailingExecutor : public Executor {
 public:
  uint64_t seed = 0;
  int fail_per_4 = 4;
  std::atomic<uint64_t> calls {0}, refused {0};
  int invoke(MoveOnlyFunction<void(void)>&& function) noexcept override {
    uint64_t k = calls.fetch_add(1, std::memory_order_relaxed);
    if (fail_per_4 >= 4 || int(vf::mix(seed, k, 0xfa11) % 4) < fail_per_4) {
      refused.fetch_add(1, std::memory_order_relaxed);
      tl_refused = true;
      return -1;
    }
    {
      RunnerScope scope {*this};
      function();
    }
    tl_refused = false;  // after the (possibly nested) submissions made by the task itself
    return 0;
  }
  static thread_local bool tl_refused;
};
thread_local bool FailingExecutor::tl_refused = false;

struct World {
  Cfg cfg;
  std::unique_ptr<Rec[]> recs;
  std::atomic<uint32_t> next {0};
  std::unique_ptr<ThreadPoolExecutor> pool;
  FailingExecutor failing;
  Executor* exec = nullptr;
  Obj obj;
  std::atomic<bool> stop_called {false}, stop_returned {false};
  std::atomic<uint64_t> ran_total {0}, order_pos {0};
  std::atomic<uint32_t> order[32];
  std::atomic<uint64_t> ev_elsewhere {0}, ev_local_full {0}, ev_global_full {0}, ev_local {0}, ev_not_run {0};
  std::atomic<const char*> phase {"setup"};
  std::atomic<int> cur_phase {0};
  size_t real_gcap = 0;
  double t_start = 0, t_submit = 0, t_stop = 0;
};
World* volatile g_world = nullptr;

inline uint64_t input_of(const Cfg& c, uint32_t idx) { return vf::mix(c.seed, c.index, idx, 0x1a) | 1; }
inline uint64_t output_of(const Cfg& c, uint32_t idx) { return vf::mix(c.seed, c.index, idx, 0x0b) | 1; }

std::string rec_line(World& w, uint32_t idx) {
  Rec& r = w.recs[idx];
  return vf::fmt("task #%u kind=%s phase=%d parent=%d depth=%d from_worker=%d went_local=%d rc=%d submit[%lu..%lu] runs=%u "
                 "run_stamp=%lu spawner_tid=%d runner_tid=%d\n",
                 idx, kKindNames[r.kind], r.phase, r.parent, r.depth, int(r.from_worker), int(r.went_local), r.rc,
                 (unsigned long)r.submit_call, (unsigned long)r.submit_ret, r.runs.load(std::memory_order_relaxed),
                 (unsigned long)r.run_stamp, r.spawner_tid, r.runner_tid);
}
std::string history(World& w, uint32_t idx) {
  std::string o = w.cfg.describe() + "\n" + rec_line(w, idx);
  int32_t p = w.recs[idx].parent;
  for (int i = 0; i < 4 && p >= 0; ++i) { o += "  parent: " + rec_line(w, uint32_t(p)); p = w.recs[p].parent; }
  return o;
}

struct Totals {
  std::atomic<uint64_t> coro_refused_valid {0};
  std::string coro_witness;
  uint64_t tasks = 0, children = 0, children_not_required_not_run = 0, episodes[4] = {0, 0, 0, 0};
} g_tot;

// Submits one new task to the executor of the episode; used by the external submitters and by running tasks.
void submit_task(World& w, int32_t parent, uint8_t depth, vf::Rng& rng) {
  uint32_t idx = w.next.fetch_add(1, std::memory_order_relaxed);
  if (idx >= w.cfg.max_tasks) {
    w.next.fetch_sub(1, std::memory_order_relaxed);
    return;
  }
  Rec& r = w.recs[idx];
  Executor& ex = *w.exec;
  r.kind = uint8_t(rng.below(K_NUM));
  // A child that may legitimately be dropped (submitted to the global queue after stop() began) must not be a
  // coroutine: its never-resumed frame would be reported by LeakSanitizer although nothing in C07 promises otherwise.
  // Nor may the harness hold its future: babylon asserts in ~Promise that nobody waits for a promise that is dropped
  // unset (debug builds abort), and dropping tasks submitted after stop() began is the documented behaviour.
  if (parent >= 0 && w.cfg.type == 0 && w.cfg.lcap < 64) r.kind = uint8_t(rng.below(K_EXEC_FN));
  r.depth = depth;
  r.parent = parent;
  r.phase = uint8_t(w.cur_phase.load(std::memory_order_relaxed));
  r.input = input_of(w.cfg, idx);
  bool inw = ex.is_running_in();
  r.from_worker = inw;
  r.spawner_tid = vf::my_state()->tid.load(std::memory_order_relaxed);
  ::babylon::ConcurrentBoundedQueue<ThreadPoolExecutor::Task>* lq = nullptr;
  size_t lbefore = 0;
  if (w.pool) {
    if (inw) {
      lq = &w.pool->_local_task_queues.local();
      lbefore = lq->_next_push_index.load(std::memory_order_relaxed);
    } else if (w.pool->_global_task_queue.size() >= w.real_gcap) {
      w.ev_global_full.fetch_add(1, std::memory_order_relaxed);
      VF_COUNT("rare:submitter_found_global_queue_full");
    }
  }
  FailingExecutor::tl_refused = false;
  int rc = 0;
  vf::set_op(kKindNames[r.kind], idx);
  r.submit_call = vf::stamp_call();
  switch (r.kind) {
    case K_SUBMIT_FN: rc = ex.submit(plain_fn, &w, idx); break;
    case K_SUBMIT_MEM: rc = ex.submit(&Obj::run, &w.obj, idx); break;
    case K_SUBMIT_FUNCTOR: rc = ex.submit(Functor {&w, idx}); break;
    case K_EXEC_FN: r.has_future = true; r.fut = ex.execute(plain_fn, &w, idx); break;
    case K_EXEC_MEM: r.has_future = true; r.fut = ex.execute(&Obj::run, &w.obj, idx); break;
    case K_EXEC_FUNCTOR: r.has_future = true; r.fut = ex.execute([wp = &w, idx] { return body(wp, idx); }); break;
    case K_EXEC_CORO_FN: r.has_future = true; r.fut = ex.execute(co_fn, &w, idx); break;
    case K_SUBMIT_CORO_FN: rc = ex.submit(co_fn, &w, idx); break;
    case K_EXEC_CORO_FUNCTOR: r.has_future = true; r.fut = ex.execute(CoFunctor {&w}, idx); break;
    case K_SUBMIT_CORO_MEM: rc = ex.submit(&Obj::co_run, &w.obj, idx); break;
    default: break;
  }
  r.submit_ret = vf::stamp_ret();
  vf::set_op(nullptr);
  if (r.has_future) rc = r.fut.valid() ? 0 : -1;
  r.rc = rc;
  if (lq != nullptr) {
    r.went_local = lq->_next_push_index.load(std::memory_order_relaxed) != lbefore;
    if (r.went_local) {
      w.ev_local.fetch_add(1, std::memory_order_relaxed);
      VF_COUNT("obs:child_went_to_local_queue");
      // only the owner pushes; thieves / the balancer only take away
      size_t sz = lq->size();
      if (sz > size_t(w.cfg.lcap)) {
        vf::violation("local-capacity-exceeded",
                      vf::fmt("a worker's local queue holds %zu tasks although local_capacity is %d", sz, w.cfg.lcap),
                      history(w, idx));
      }
    } else if (w.cfg.lcap > 0) {
      w.ev_local_full.fetch_add(1, std::memory_order_relaxed);
      VF_COUNT("rare:local_queue_full_to_global");
    }
  }
  if (w.cfg.type == 3) {
    // failing executor: rc / future validity against what invoke() told this thread
    bool refused = FailingExecutor::tl_refused;
    bool coro_exec = r.has_future && kind_is_coroutine(r.kind);
    if (refused && rc == 0 && coro_exec) {
      // genuine defect of the unchanged tree (see notes/C07.md): reported once at the end of the run under its own key
      ++g_tot.coro_refused_valid;
      VF_COUNT("finding:refused_coroutine_execute_returns_valid_future");
      if (g_tot.coro_witness.empty()) g_tot.coro_witness = history(w, idx);
    } else if (refused != (rc != 0)) {
      vf::violation(std::string("failed-submission:") + (r.has_future ? "future-valid" : "rc-zero") +
                        (coro_exec ? ":coroutine-execute" : ""),
                    vf::fmt("%s: invoke() %s the task but the caller got %s", kKindNames[r.kind],
                            refused ? "refused" : "accepted",
                            r.has_future ? (rc ? "an invalid future" : "a valid future") : (rc ? "rc != 0" : "rc == 0")),
                    history(w, idx));
    }
    if (refused) VF_COUNT("rare:submission_refused");
    r.went_local = refused;  // reused as "was refused" for the final oracle of failing episodes
  }
  r.submitted = true;
  vf::progress();
}

uint64_t body(World* wp, uint32_t idx) {
  World& w = *wp;
  Rec& r = w.recs[idx];
  uint64_t st = vf::stamp_call();
  uint32_t n = r.runs.fetch_add(1, std::memory_order_relaxed);
  if (n != 0) {
    vf::violation("task-ran-twice", vf::fmt("task #%u (%s) was run %u times", idx, kKindNames[r.kind], n + 1), history(w, idx));
    return 0;
  }
  if (w.stop_returned.load(std::memory_order_relaxed)) {
    vf::violation("ran-after-stop-returned", vf::fmt("task #%u started although stop() had already returned", idx),
                  history(w, idx));
  }
  if (!w.exec->is_running_in()) {
    vf::violation("not-running-in-executor",
                  vf::fmt("task #%u (%s) runs on a thread for which executor.is_running_in() is false", idx, kKindNames[r.kind]),
                  history(w, idx));
  }
  if (r.input != input_of(w.cfg, idx)) {
    vf::violation("payload-not-published", vf::fmt("task #%u does not see the input written before its submission", idx),
                  history(w, idx));
  }
  r.run_stamp = st;
  r.runner_tid = vf::my_state()->tid.load(std::memory_order_relaxed);
  uint64_t pos = w.order_pos.fetch_add(1, std::memory_order_relaxed);
  if (pos < 32) w.order[pos].store(idx, std::memory_order_relaxed);
  vf::perturb("cb:task");
  vf::Rng tr(vf::mix(w.cfg.seed, w.cfg.index, idx, 0x7a5c));
  if (tr.chance(1, 6)) vf::raw_sleep_us(tr.range(10, 400));
  if (w.cfg.spawn && r.depth < 4) {
    uint64_t k = tr.pick<uint64_t>({0, 0, 1, 1, 2, 3});
    for (uint64_t i = 0; i < k; ++i) submit_task(w, int32_t(idx), uint8_t(r.depth + 1), tr);
  }
  r.output = output_of(w.cfg, idx);
  w.ran_total.fetch_add(1, std::memory_order_relaxed);
  vf::progress();
  return r.output;
}

void pin_some_cpus(int k, vf::Rng& r) {
  int ncpu = int(sysconf(_SC_NPROCESSORS_ONLN));
  if (k <= 0 || k >= ncpu) { vf::pin_cpus(0); return; }
  cpu_set_t set;
  CPU_ZERO(&set);
  int first = int(r.below(uint64_t(ncpu)));
  for (int i = 0; i < k; ++i) CPU_SET((first + i) % ncpu, &set);
  sched_setaffinity(0, sizeof set, &set);
}

const std::vector<std::string> kStallPoints = {
    "exec:stop_flag_cleared", "exec:stop_before_markers", "exec:stop_before_markers", "exec:local_empty", "exec:steal_tried",
    "exec:before_global_pop", "exec:stop_consumed", "exec:balance_moved", "exec:local_before_push", "exec:local_before_push",
    "exec:global_before_push", "cb:task", "bq:push_ticket", "bq:pop_ticket", "futex:before_wait", "bq:single_before_wake"};


// Oracle over tasks [from, to) of one phase. `stop_call` = stamp taken right before stop() (0: everything accepted must run).
void check_phase(World& w, uint32_t from, uint32_t to, uint64_t stop_call) {
  for (uint32_t i = from; i < to && !vf::failed(); ++i) {
    Rec& r = w.recs[i];
    uint32_t runs = r.runs.load(std::memory_order_relaxed);
    if (!r.submitted) {
      vf::violation("harness:unsubmitted-record", "internal: task record allocated but submission never completed", history(w, i));
      continue;
    }
    if (w.cfg.type == 3 && r.went_local /* refused */) {
      if (runs != 0) vf::violation("failed-submission:task-ran", vf::fmt("task #%u ran although invoke() refused it", i), history(w, i));
      if (r.has_future && r.fut.valid() && !kind_is_coroutine(r.kind)) {
        vf::violation("failed-submission:future-valid", vf::fmt("task #%u refused but its future is valid", i), history(w, i));
      }
      continue;
    }
    const char* why = nullptr;
    if (r.parent < 0) why = "external";
    else if (stop_call == 0) why = "child";
    else if (r.submit_ret < stop_call) why = "child-submitted-before-stop";
    else if (r.went_local && w.cfg.type == 0) why = "child-in-local-queue";
    if (runs > 1) {
      vf::violation("task-ran-twice", vf::fmt("task #%u ran %u times", i, runs), history(w, i));
    } else if (runs == 0) {
      if (why != nullptr) {
        vf::violation(std::string("task-lost:") + why,
                      vf::fmt("task #%u (%s, %s): its submission reported success%s, stop()/join() returned, but it never ran",
                              i, kKindNames[r.kind], why, stop_call ? "" : " (no stop in between)"),
                      history(w, i));
      } else {
        w.ev_not_run.fetch_add(1, std::memory_order_relaxed);
        ++g_tot.children_not_required_not_run;
        VF_COUNT("obs:child_submitted_after_stop_began_not_run");
      }
    } else {
      if (r.output != output_of(w.cfg, i)) {
        vf::violation("output-not-visible", vf::fmt("task #%u ran but its output is not visible after stop()/join() returned", i),
                      history(w, i));
      }
      if (r.has_future) {
        if (!r.fut.valid()) {
          vf::violation("future-invalid", vf::fmt("task #%u (%s) ran but execute() returned an invalid future", i, kKindNames[r.kind]),
                        history(w, i));
        } else if (!r.fut.ready()) {
          vf::violation("future-not-ready",
                        vf::fmt("task #%u (%s) ran and stop()/join() returned, but its future is not ready", i, kKindNames[r.kind]),
                        history(w, i));
        } else if (r.fut.get() != output_of(w.cfg, i)) {
          vf::violation("future-wrong-value", vf::fmt("future of task #%u carries %lx, expected %lx", i,
                                                      (unsigned long)r.fut.get(), (unsigned long)output_of(w.cfg, i)),
                        history(w, i));
        }
        VF_COUNT("obs:futures_checked");
      }
      if (r.went_local && w.cfg.type == 0 && r.runner_tid != r.spawner_tid) {
        w.ev_elsewhere.fetch_add(1, std::memory_order_relaxed);
        VF_COUNT("rare:local_task_ran_on_other_worker");  // stolen, or moved by the balancer
      }
    }
  }
}

void run_external_phase(World& w, uint64_t ep_seed, int phase) {
  w.cur_phase.store(phase, std::memory_order_relaxed);
  w.phase.store("submitters-running", std::memory_order_relaxed);
  vf::run_threads(w.cfg.submitters, vf::mix(ep_seed, uint64_t(phase)), [&](int t) {
    vf::Rng tr(vf::mix(ep_seed, uint64_t(t), uint64_t(phase), 3));
    if (w.exec->is_running_in()) {
      vf::violation("running-in-on-foreign-thread", "is_running_in() is true on an external submitter thread", w.cfg.describe());
    }
    for (uint32_t i = 0; i < w.cfg.per_submitter && !vf::failed(); ++i) {
      submit_task(w, -1, 0, tr);
      if (tr.chance(1, 16)) vf::raw_sleep_us(tr.range(10, 300));
    }
  });
}

void run_episode(Cfg cfg) {
  vf::Rng r(vf::mix(cfg.seed, cfg.index, 0xc07));
  World w;
  cfg.policy = vf::draw_policy(r, kStallPoints, 80, 6000);  // before any thread of the episode exists
  w.cfg = cfg;
  w.obj.w = &w;
  w.recs.reset(new Rec[cfg.max_tasks]);
  for (auto& o : w.order) o.store(0xffffffffu, std::memory_order_relaxed);
  uint64_t ep_seed = vf::mix(cfg.seed, cfg.index, 0x7);
  g_world = &w;
  vf::watchdog().set_context(w.cfg.describe());
  pin_some_cpus(cfg.pin, r);
  vf::watchdog().arm(true);
  ++g_tot.episodes[cfg.type];

  if (cfg.type == 0) {
    w.pool.reset(new ThreadPoolExecutor);
    auto& p = *w.pool;
    p.set_worker_number(size_t(cfg.workers));
    p.set_global_capacity(size_t(cfg.gcap));
    p.set_local_capacity(size_t(cfg.lcap));
    p.set_enable_work_stealing(cfg.steal);
    if (cfg.balance >= 0) p.set_balance_interval(std::chrono::microseconds(cfg.balance));
    w.exec = &p;
    int phases = cfg.restart ? 2 : 1;
    uint32_t from = 0;
    for (int ph = 0; ph < phases && !vf::failed(); ++ph) {
      w.stop_called.store(false, std::memory_order_relaxed);
      w.stop_returned.store(false, std::memory_order_relaxed);
      w.phase.store("start", std::memory_order_relaxed);
      double t0 = vf::now_s();
      int start_rc = p.start();
      w.t_start += vf::now_s() - t0;
      if (start_rc != 0) {
        vf::violation("start-failed", vf::fmt("start() failed in phase %d", ph), w.cfg.describe());
        break;
      }
      w.real_gcap = p._global_task_queue.capacity();
      t0 = vf::now_s();
      run_external_phase(w, ep_seed, ph);
      w.t_submit += vf::now_s() - t0;
      if (vf::failed()) break;
      // every external submission reported success and returned; tasks are still queued / running / spawning
      vf::thread_begin(ep_seed, 100 + ph);
      w.phase.store("stop", std::memory_order_relaxed);
      vf::set_op("stop");
      w.stop_called.store(true, std::memory_order_relaxed);
      uint64_t stop_call = vf::stamp_call();
      t0 = vf::now_s();
      p.stop();
      w.t_stop += vf::now_s() - t0;
      uint64_t stop_ret = vf::stamp_ret();
      (void)stop_ret;
      w.stop_returned.store(true, std::memory_order_relaxed);
      vf::set_op(nullptr);
      vf::progress();
      vf::thread_end();
      w.phase.store("oracle", std::memory_order_relaxed);
      uint64_t ran_at_stop = w.ran_total.load(std::memory_order_relaxed);
      uint32_t to = std::min(w.next.load(std::memory_order_relaxed), cfg.max_tasks);
      check_phase(w, from, to, stop_call);
      if (!vf::failed() && r.chance(1, 4)) vf::raw_sleep_us(300);
      if (!vf::failed() && w.ran_total.load(std::memory_order_relaxed) != ran_at_stop) {
        vf::violation("ran-after-stop-returned", "the number of executed tasks grew after stop() had returned", w.cfg.describe());
      }
      from = to;
      if (ph + 1 < phases) VF_COUNT("obs:restarts");
    }
    uint64_t ran_before_destroy = w.ran_total.load(std::memory_order_relaxed);
    w.phase.store("destroy", std::memory_order_relaxed);
    bool fail_before = vf::failed();
    w.pool.reset();  // dropped tasks are destroyed here, none of them may run
    if (!fail_before && w.ran_total.load(std::memory_order_relaxed) != ran_before_destroy) {
      vf::violation("ran-after-stop-returned", "tasks ran during the destruction of a stopped executor", w.cfg.describe());
    }
  } else if (cfg.type == 1) {
    w.exec = &::babylon::InplaceExecutor::instance();
    w.phase.store("inplace", std::memory_order_relaxed);
    vf::run_threads(cfg.submitters, ep_seed, [&](int t) {
      vf::Rng tr(vf::mix(ep_seed, uint64_t(t), 5));
      for (uint32_t i = 0; i < cfg.per_submitter && !vf::failed(); ++i) {
        submit_task(w, -1, 0, tr);
        if (w.exec->is_running_in()) {
          vf::violation("running-in-after-inplace-return", "is_running_in() still true after an inplace submission returned",
                        w.cfg.describe());
        }
      }
    });
    check_phase(w, 0, std::min(w.next.load(), cfg.max_tasks), 0);
  } else if (cfg.type == 2) {
    auto& nt = ::babylon::AlwaysUseNewThreadExecutor::instance();
    w.exec = &nt;
    run_external_phase(w, ep_seed, 0);
    w.phase.store("newthread-join", std::memory_order_relaxed);
    vf::thread_begin(ep_seed, 100);
    vf::set_op("join");
    nt.join();
    vf::set_op(nullptr);
    vf::thread_end();
    w.stop_returned.store(true, std::memory_order_relaxed);
    check_phase(w, 0, std::min(w.next.load(), cfg.max_tasks), 0);
  } else {
    w.failing.seed = vf::mix(cfg.seed, cfg.index, 0xf);
    w.failing.fail_per_4 = cfg.fail_per_4;
    w.exec = &w.failing;
    w.phase.store("failing", std::memory_order_relaxed);
    vf::run_threads(cfg.submitters, ep_seed, [&](int t) {
      vf::Rng tr(vf::mix(ep_seed, uint64_t(t), 6));
      for (uint32_t i = 0; i < cfg.per_submitter && !vf::failed(); ++i) submit_task(w, -1, 0, tr);
    });
    check_phase(w, 0, std::min(w.next.load(), cfg.max_tasks), 0);
  }
  vf::watchdog().arm(false);
  vf::pin_cpus(0);
  vf::disable_policy();

  uint32_t total = std::min(w.next.load(), cfg.max_tasks);
  g_tot.tasks += total;
  VF_COUNT_N("obs:tasks", total);
  VF_COUNT_N("obs:tasks_run", w.ran_total.load());
  bool nontrivial = w.ev_elsewhere.load() || w.ev_local_full.load() || w.ev_global_full.load() || w.ev_not_run.load() ||
                    w.ev_local.load() || (cfg.type == 3 && w.failing.refused.load() > 0) || cfg.type == 2;
  uint64_t fp = vf::mix(vf::mix(uint64_t(cfg.type), uint64_t(cfg.workers) * 100 + uint64_t(cfg.gcap), uint64_t(cfg.lcap),
                                uint64_t(cfg.balance + 1) * 2 + cfg.steal),
                        uint64_t(cfg.submitters) * 1000 + cfg.per_submitter, std::hash<std::string> {}(vf::args().variant), total);
  for (auto& o : w.order) fp = vf::mix(fp, o.load(std::memory_order_relaxed));
  vf::evaluated(fp, nontrivial);
  if (vf::report().samples.size() < 4 && (cfg.index % 23 == 0)) {
    std::string ord;
    for (int i = 0; i < 20; ++i) {
      uint32_t v = w.order[i].load();
      if (v == 0xffffffffu) break;
      ord += vf::fmt("%s#%u(%s)", i ? " " : "", v, w.recs[v].parent < 0 ? "ext" : "child");
    }
    vf::sample("{\"config\": " + vf::jstr(w.cfg.describe()) + ", \"tasks\": " + std::to_string(total) + ", \"ran\": " +
               std::to_string(w.ran_total.load()) + ", \"children_local\": " + std::to_string(w.ev_local.load()) +
               ", \"children_not_run_after_stop\": " + std::to_string(w.ev_not_run.load()) + ", \"first_runs\": " +
               vf::jstr(ord) + "}", 4);
  }
  if (vf::args().get("verbose", 0)) fprintf(stderr, "[c07] start=%.3fs submit=%.3fs stop=%.3fs tasks=%u ran=%lu %s\n", w.t_start, w.t_submit, w.t_stop, total, (unsigned long)w.ran_total.load(), w.cfg.describe().c_str());
  g_world = nullptr;
}

Cfg draw(uint64_t seed, uint64_t index) {
  vf::Rng r(vf::mix(seed, index, 0xc0f9));
  Cfg c;
  c.seed = seed;
  c.index = index;
  uint64_t t = r.below(20);
  c.type = t < 14 ? 0 : (t < 16 ? 1 : (t < 18 ? 2 : 3));
  c.submitters = int(r.range(1, 6));
  c.pin = r.chance(1, 5) ? int(r.range(1, 3)) : 0;
  bool thorough = vf::args().thorough;
  if (c.type == 0) {
    c.workers = int(r.range(1, 8));
    c.gcap = int(r.pick<int>({1, 1, 2, 3, 4, 8, 16, 64, 64}));
    // "large" local capacity: every child fits. EnumerableThreadLocal constructs 128 queues per block and every worker
    // builds a speculative block at start-up: 4096 (x2 slots x 128 B x 128 queues = 128 MB per worker) only in the
    // thorough tier and rarely; the quick tier uses 512 (16 MB per worker).
    // Measured here: with 512 the workers of one pool spend seconds building those blocks on a loaded machine
    // (stop() then waits for workers that have not even reached their loop), so the usual "large" value is 64.
    // 4096 was dropped after a thorough run: under TSan on a loaded machine the workers of one pool needed more than
    // the 30 s grace period just to build their blocks (no task can run meanwhile), which the stuck rule cannot tell
    // from a hang
    int large = thorough ? int(r.pick<int>({64, 64, 64, 64, 64, 512})) : 64;
    c.lcap = int(r.pick<int>({0, 1, 4, large, large}));
    c.steal = r.chance(1, 2);
    c.balance = int(r.pick<int>({-1, -1, 0, 1000}));
    c.restart = r.chance(1, 3);
    c.per_submitter = uint32_t(r.range(5, thorough ? 120 : 50));
    uint32_t external = uint32_t(c.submitters) * c.per_submitter * (c.restart ? 2 : 1);
    size_t real_cap = 1;
    while (real_cap < size_t(c.gcap) * 2) real_cap <<= 1;
    bool want_spawn = r.chance(3, 4);
    if (want_spawn && c.lcap >= 64) {
      c.spawn = true;
      c.max_tasks = std::min<uint32_t>(external * 3, uint32_t(c.lcap) - 12);  // all children fit into one local queue
      if (c.max_tasks < external + 8) {
        // keep the episode small enough for the children to fit
        c.per_submitter = std::max<uint32_t>(1, (uint32_t(c.lcap) - 12) / 3 / uint32_t(c.submitters) / (c.restart ? 2 : 1));
        external = uint32_t(c.submitters) * c.per_submitter * (c.restart ? 2 : 1);
        c.max_tasks = std::min<uint32_t>(external * 3, uint32_t(c.lcap) - 12);
        if (c.max_tasks < external) { c.max_tasks = external; c.spawn = false; }
      }
    } else if (want_spawn && real_cap >= 64) {
      // children may go to the global queue: it must hold every task of the episode + the stop markers
      uint32_t room = uint32_t(real_cap) - uint32_t(c.workers) - 2;
      if (external * 2 > room) {
        c.per_submitter = std::max<uint32_t>(1, room / 2 / uint32_t(c.submitters) / (c.restart ? 2 : 1));
        external = uint32_t(c.submitters) * c.per_submitter * (c.restart ? 2 : 1);
      }
      c.spawn = external < room;
      c.max_tasks = c.spawn ? room : external;
    } else {
      c.spawn = false;
      c.max_tasks = external;
    }
  } else if (c.type == 1) {
    c.per_submitter = uint32_t(r.range(5, 80));
    c.spawn = true;
    c.max_tasks = uint32_t(c.submitters) * c.per_submitter * 4;
  } else if (c.type == 2) {
    c.submitters = int(r.range(1, 3));
    c.per_submitter = uint32_t(r.range(3, VF_ASAN ? 10 : 25));
    c.spawn = r.chance(1, 2);
    c.max_tasks = uint32_t(c.submitters) * c.per_submitter * (c.spawn ? 2 : 1);
  } else {
    c.per_submitter = uint32_t(r.range(10, 80));
    c.fail_per_4 = int(r.pick<int>({4, 4, 1, 2, 3}));
    c.spawn = r.chance(1, 2);
    c.max_tasks = uint32_t(c.submitters) * c.per_submitter * (c.spawn ? 3 : 1);
  }
  return c;
}

}  // namespace

// ---------------------------------------------------------------------------------------------
// "storm" mode: sustained local spawning against a continuously sweeping balance thread.
// Added after the seeded change C07-a2 (the owner pops its local queue with the NON-concurrent
// flags when stealing is off — although the balance thread is still a second consumer) escaped
// the general episodes, whose local queues never hold more than a few dozen tasks. Here 2-8
// workers each run spawner tasks that push 8-24 children into their own local queue while the
// balancer (interval 0 or 100 us) keeps draining those queues into a large global queue;
// stealing on and off. Oracle: every task runs exactly once (per-task counters), all of them
// by the time the round barrier / stop() returns; a crash or sanitizer report is a violation.
static void run_storm(uint64_t seed, uint64_t index) {
  vf::Rng r(vf::mix(seed, index, 0x5707));
  int workers = int(r.range(2, 8));
  bool steal = r.chance(1, 2);
  int balance_us = int(r.pick<int>({0, 0, 100}));
  uint32_t spawners = uint32_t(r.range(8, 48)), kids = uint32_t(r.range(8, 24)), rounds = uint32_t(r.range(4, 16));
  // every sixth episode: more workers than one 128-element block of the enumerable thread-local holds (the steal
  // sweep then walks several blocks), stealing on
  if (index % 6 == 5) {
    workers = int(r.range(130, 170));
    steal = true;
    spawners = uint32_t(r.range(64, 200));
    kids = uint32_t(r.range(2, 6));
    rounds = uint32_t(r.range(2, 5));
    VF_COUNT("obs:storm_episodes_over_128_workers");
  }
  uint32_t per_round = spawners * (kids + 1), total = per_round * rounds;
  std::string desc = vf::fmt("storm ep=%lu seed=%lu workers=%d steal=%d balance_us=%d spawners=%u kids=%u rounds=%u",
                             (unsigned long)index, (unsigned long)seed, workers, int(steal), balance_us, spawners, kids, rounds);
  vf::watchdog().set_context(desc);
  std::string pol = vf::draw_policy(r, {"exec:local_before_push", "exec:balance_moved", "exec:local_empty", "bq:try_before_cas"}, 400, 3000);
  std::unique_ptr<std::atomic<uint8_t>[]> ran(new std::atomic<uint8_t>[total]);
  for (uint32_t i = 0; i < total; ++i) ran[i].store(0, std::memory_order_relaxed);
  std::atomic<uint32_t> done {0}, twice {0}, not_in_pool {0};
  ThreadPoolExecutor p;
  p.set_worker_number(size_t(workers));
  p.set_global_capacity(8192);
  p.set_local_capacity(64);
  p.set_enable_work_stealing(steal);
  p.set_balance_interval(std::chrono::microseconds(balance_us));
  if (p.start() != 0) { vf::inconclusive("storm: executor did not start"); return; }
  vf::watchdog().arm(true);
  auto run_one = [&](uint32_t id) {
    if (ran[id].fetch_add(1, std::memory_order_relaxed) != 0) twice.fetch_add(1, std::memory_order_relaxed);
    if (!p.is_running_in()) not_in_pool.fetch_add(1, std::memory_order_relaxed);
    done.fetch_add(1, std::memory_order_release);
    vf::progress();
  };
  for (uint32_t rd = 0; rd < rounds && !vf::failed(); ++rd) {
    uint32_t base = rd * per_round;
    for (uint32_t sidx = 0; sidx < spawners; ++sidx) {
      uint32_t sid = base + sidx * (kids + 1);
      int rc = p.submit([&, sid] {
        for (uint32_t k = 1; k <= kids; ++k) {
          uint32_t cid = sid + k;
          if (p.submit([&, cid] { run_one(cid); }) != 0) vf::violation("storm:child-submit-refused", "submit from a worker failed", desc);
        }
        run_one(sid);
      });
      if (rc != 0) vf::violation("storm:submit-refused", "submit to a running pool failed", desc);
    }
    // round barrier: everything submitted in this round has run (stuck rule through the watchdog)
    uint32_t want = base + per_round;
    while (done.load(std::memory_order_acquire) < want && !vf::failed()) {
      if (twice.load(std::memory_order_relaxed) != 0) break;
      vf::raw_sleep_us(200);
    }
    if (twice.load(std::memory_order_relaxed) != 0) break;
  }
  p.stop();
  vf::watchdog().arm(false);
  vf::disable_policy();
  uint32_t lost = 0, dup = 0, first_bad = UINT32_MAX;
  uint32_t expect_upto = std::min<uint32_t>(total, ((done.load() + per_round - 1) / per_round) * per_round);
  for (uint32_t i = 0; i < expect_upto; ++i) {
    uint8_t c = ran[i].load(std::memory_order_relaxed);
    if (c == 0) { ++lost; first_bad = std::min(first_bad, i); }
    if (c > 1) { ++dup; first_bad = std::min(first_bad, i); }
  }
  if (dup != 0 || twice.load() != 0)
    vf::violation("storm:task-ran-twice", vf::fmt("%u task(s) ran more than once", std::max(dup, twice.load())),
                  desc + vf::fmt("\npolicy=[%s] first bad task id=%u", pol.c_str(), first_bad));
  else if (lost != 0)
    vf::violation("storm:task-lost", vf::fmt("%u accepted task(s) never ran although stop() returned", lost),
                  desc + vf::fmt("\npolicy=[%s] first bad task id=%u", pol.c_str(), first_bad));
  if (not_in_pool.load() != 0)
    vf::violation("storm:not-running-in-executor", "a task ran on a thread that does not report is_running_in()", desc);
  VF_COUNT_N("obs:storm_tasks", total);
  VF_COUNT("obs:storm_episodes");
  uint64_t moved = vf::counter_value("point:exec:balance_moved");
  vf::evaluated(vf::mix(0x5707, uint64_t(workers) * 4 + uint64_t(steal) * 2 + (balance_us ? 1 : 0), spawners, kids * 100 + rounds), moved > 0);
  if (index < 2) vf::sample(vf::fmt("{\"mode\": \"storm\", \"config\": %s, \"tasks\": %u, \"policy\": %s}", vf::jstr(desc).c_str(), total, vf::jstr(pol).c_str()));
}

int main(int argc, char** argv) {
  vf::init(argc, argv, "C07", "c07_executor");
  auto& a = vf::args();
  auto& wd = vf::watchdog();
  wd.classify = []() -> std::string {
    World* w = g_world;
    if (!w) return "";
    // Workers never block (configuration rule), external submitters only wait for workers, stop()/join() only wait for
    // tasks that terminate: no progress for the grace period is a violation in every phase.
    return std::string("stuck:") + w->phase.load(std::memory_order_relaxed);
  };
  wd.dump_extra = []() -> std::string {
    World* w = g_world;
    if (!w) return "";
    std::string o = vf::fmt("tasks allocated=%u ran=%lu stop_called=%d stop_returned=%d\n", w->next.load(),
                            (unsigned long)w->ran_total.load(), int(w->stop_called.load()), int(w->stop_returned.load()));
    // (the pool object itself is not inspected here: the episode thread owns and resets it, and a dump racing with
    //  that reset was reported by TSan instead of the verdict in a thorough run)
    return o;
  };
  if (a.mode == "storm") {  // before the watchdog thread exists (it reads these members)
    wd.classify = []() -> std::string { return "stuck:storm-round-or-stop-never-finished"; };
    wd.dump_extra = nullptr;
  }
  wd.start();
  if (a.mode == "storm") {
    uint64_t ns = vf::budget(40, 1500);
    for (uint64_t e = 0; e < ns && !vf::failed(); ++e) {
      if (a.only_episode >= 0 && uint64_t(a.only_episode) != e) continue;
      run_storm(a.seed, e);
    }
    wd.shutdown();
    return vf::finish();
  }
  uint64_t n = vf::budget(150, 6000);
  for (uint64_t e = 0; e < n && !vf::failed(); ++e) {
    if (a.only_episode >= 0 && uint64_t(a.only_episode) != e) continue;
    run_episode(draw(a.seed, e));
  }
  wd.shutdown();
  vf::extra("episodes", vf::fmt("{\"pool\": %lu, \"inplace\": %lu, \"newthread\": %lu, \"failing\": %lu, \"tasks\": %lu, "
                                "\"children_submitted_after_stop_began_and_not_run\": %lu}",
                                (unsigned long)g_tot.episodes[0], (unsigned long)g_tot.episodes[1], (unsigned long)g_tot.episodes[2],
                                (unsigned long)g_tot.episodes[3], (unsigned long)g_tot.tasks,
                                (unsigned long)g_tot.children_not_required_not_run));
  if (g_tot.coro_refused_valid.load() > 0 && !vf::failed() && a.get("report-coro-refused", 1)) {
    vf::violation("failed-submission:future-valid:coroutine-execute",
                  vf::fmt("execute() of a coroutine on an executor whose invoke() refused returned a VALID future that "
                          "never becomes ready (the return code of the inner submit() is ignored); %lu occurrences this run",
                          (unsigned long)g_tot.coro_refused_valid.load()),
                  g_tot.coro_witness);
  }
  return vf::finish();
}
