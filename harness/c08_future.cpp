// C08 — Future / Promise / CountDownLatch monitors (DESIGN §5 C08).
//
// modes:
//   future   one promise per episode; 1–12 threads on copies of the future doing random
//            get / wait_for(t) / on_finish / then / ready before, around and after the single
//            set_value of a setter thread; value types int, string, move-only, reference, void;
//            scheduling interface M in {SchedInterface, HSched (delays), CvSched
//            (futex_need_create()==true, mutex+condvar)}
//   latch    CountDownLatch<M>(count 0..64), count_down(k) partition over threads, watchers on
//            copies of the latch future
//   huge     future episodes whose wait_for timeouts are all close to nanoseconds::max()
//            (deadline arithmetic; UBSan is the oracle in the asan variant)
//   all      future, then latch, then huge (last: in the asan+ubsan variant the first deadline
//            overflow aborts the process; future/latch episodes of that variant therefore draw no
//            timeout whose deadline is unrepresentable, tsan/plain mix them in everywhere)
//
// Oracles: see tools/notes/C08.md. All verdicts come from call/return stamps
// (vf::stamp_call / vf::stamp_ret), counters written with relaxed atomics, plain payload
// memory (TSan decides publication) and CLOCK_MONOTONIC lower bounds; wall-clock decides
// nothing except through the stuck rule.
#include <chrono>
#include <condition_variable>
#include <memory>

#include "common/vf.h"
#include "common/vf_interpose.h"

// TSan variant: compile the (header-only) future code the way release builds do (NDEBUG). The debug assert in
// FutureContext::value() performs an acquire load of _head, which would supply the happens-before edge that the
// READY exchange of the futex word has to provide for get()/wait_for() (mutant "READY exchange relaxed" escaped
// TSan because of it). The asan variant keeps the asserts.
#if VF_TSAN && !defined(NDEBUG)
#define NDEBUG
#define C08_LOCAL_NDEBUG
#endif
#include "babylon/future.h"
#ifdef C08_LOCAL_NDEBUG
#undef NDEBUG
#undef C08_LOCAL_NDEBUG
#include <cassert>
#endif

namespace {

using nanos = ::std::chrono::nanoseconds;

////////////////////////////////////////////////////////////////////////////////
// scheduling interfaces
struct HSched : public ::babylon::SchedInterface {
  inline static int futex_wait(uint32_t* futex, uint32_t val, const struct ::timespec* timeout) noexcept {
    VF_COUNT("obs:hsched_futex_wait");
    vf::perturb("c08:S:before_wait");
    return ::babylon::SchedInterface::futex_wait(futex, val, timeout);
  }
  inline static int futex_wake_one(uint32_t* futex) noexcept {
    vf::perturb("c08:S:before_wake");
    return ::babylon::SchedInterface::futex_wake_one(futex);
  }
  inline static int futex_wake_all(uint32_t* futex) noexcept {
    vf::perturb("c08:S:before_wake");
    return ::babylon::SchedInterface::futex_wake_all(futex);
  }
};

// user-space "futex": a word that has to be created, waits on a mutex+condvar pair
struct CvSched {
  struct Cell {
    uint32_t word = 0;  // first member: the address handed to the library
    ::std::mutex mu;
    ::std::condition_variable cv;
    uint64_t sleepers = 0;
  };
  constexpr static bool futex_need_create() noexcept { return true; }
  inline static uint32_t* create_futex() noexcept {
    VF_COUNT("obs:cv_create_futex");
    return &(new Cell)->word;
  }
  inline static void destroy_futex(uint32_t* futex) noexcept {
    VF_COUNT("obs:cv_destroy_futex");
    delete reinterpret_cast<Cell*>(futex);
  }
  inline static int futex_wait(uint32_t* futex, uint32_t val, const struct ::timespec* timeout) noexcept {
    auto* c = reinterpret_cast<Cell*>(futex);
    vf::perturb("c08:cv:before_wait");
    ::std::unique_lock<::std::mutex> lk(c->mu);
    if (reinterpret_cast<::std::atomic<uint32_t>*>(futex)->load(::std::memory_order_relaxed) != val) {
      errno = EAGAIN;
      return -1;
    }
    VF_COUNT("obs:cv_slept");
    if (timeout == nullptr) {
      c->cv.wait(lk);
      return 0;
    }
    if (timeout->tv_sec < 0 || timeout->tv_nsec < 0) {
      errno = EINVAL;
      return -1;
    }
    // a futex wait may return spuriously; clamp so that the condvar deadline cannot overflow
    int64_t ns = timeout->tv_sec > 3600 ? int64_t(3600) * 1000000000 : int64_t(timeout->tv_sec) * 1000000000 + timeout->tv_nsec;
    if (c->cv.wait_for(lk, nanos(ns)) == ::std::cv_status::timeout) {
      errno = ETIMEDOUT;
      return -1;
    }
    return 0;
  }
  inline static int futex_wake_one(uint32_t* futex) noexcept { return futex_wake_all(futex); }
  inline static int futex_wake_all(uint32_t* futex) noexcept {
    auto* c = reinterpret_cast<Cell*>(futex);
    vf::perturb("c08:cv:before_wake");
    { ::std::lock_guard<::std::mutex> lk(c->mu); }
    c->cv.notify_all();
    VF_COUNT("obs:cv_wake_all");
    return 0;
  }
  inline static void usleep(useconds_t us) noexcept { ::usleep(us); }
  inline static void yield() noexcept { ::sched_yield(); }
};

template <typename M> struct MName;
template <> struct MName<::babylon::SchedInterface> { static constexpr const char* name = "SchedInterface"; };
template <> struct MName<HSched> { static constexpr const char* name = "HSched"; };
template <> struct MName<CvSched> { static constexpr const char* name = "CvSched"; };

////////////////////////////////////////////////////////////////////////////////
// payloads: plain memory, so a missing release/acquire edge is a TSan report
struct Payload {
  uint64_t id = 0, inv = 0, a = 0, b = 0;
};
inline void fill_payload(Payload& p, uint64_t v) {
  p.id = v;
  p.a = v * 3;
  p.b = v * 5;
  p.inv = ~v;
}
inline uint64_t payload_digest(const Payload& p) {
  return p.id ^ (p.a * 0x100000001b3ULL) ^ (p.b << 7) ^ (p.inv * 0x9e3779b97f4a7c15ULL);
}
inline uint64_t payload_expect(uint64_t v) {
  Payload p;
  fill_payload(p, v);
  return payload_digest(p);
}
inline uint64_t fnv(const ::std::string& s) {
  uint64_t h = 1469598103934665603ULL;
  for (unsigned char c : s) h = (h ^ c) * 1099511628211ULL;
  return h ^ s.size();
}

enum OpKind : uint8_t { GET, WAIT_FOR, READY, ON_FINISH, THEN, THEN_VOID, COUNT_DOWN };
const char* kOpNames[] = {"get", "wait_for", "ready", "on_finish", "then", "then(void)", "count_down"};

struct CbRec {
  ::std::atomic<uint32_t> runs {0};
  ::std::atomic<uint32_t> bad {0};
  ::std::atomic<uint64_t> start {0}, end {0};
  ::std::atomic<int32_t> thread {-1};
  // written by the registering thread, read after join
  uint64_t reg_call = 0, reg_ret = 0;
  int32_t registrar = -1;
  uint8_t kind = 0, form = 0;
  bool registered = false;
};

struct OpRec {
  uint8_t kind = 0;
  int8_t result = -1;  // wait_for / ready: 0/1 ; get: 1
  uint8_t form = 0;
  bool value_ok = true;
  int64_t timeout_ns = 0;
  uint64_t call = 0, ret = 0;
  int64_t t0_ns = 0, t1_ns = 0;
  int32_t cb = -1;
  uint64_t arg = 0;  // count_down: k
};

struct Cfg {
  uint64_t seed = 0, index = 0;
  ::std::string mode, type, sched;
  int threads = 1, max_ops = 1, counters = 0;
  uint64_t count = 0;
  int setter_delay_us = 0;
  int pin = 0;
  bool huge = false;
  ::std::string policy;
  ::std::string describe() const {
    return vf::fmt("mode=%s ep=%lu seed=%lu T=%s M=%s threads=%d max_ops=%d counters=%d count=%lu setter_delay_us=%d pin=%d huge=%d policy=[%s]",
                   mode.c_str(), (unsigned long)index, (unsigned long)seed, type.c_str(), sched.c_str(), threads, max_ops, counters,
                   (unsigned long)count, setter_delay_us, pin, int(huge), policy.c_str());
  }
};

struct World {
  Cfg cfg;
  uint64_t v = 0;       // the value of this episode
  Payload side;         // written by the setter right before set_value, read by every reader afterwards
  Payload ref_target;   // target of Promise<Payload&>
  ::std::atomic<uint32_t> set_called {0}, set_returned {0};
  uint64_t set_call = 0, set_ret = 0;
  ::std::vector<CbRec> cbs;
  ::std::atomic<uint32_t> ncb {0};
  ::std::vector<::std::vector<OpRec>> ops;
  ::std::atomic<uint32_t> side_bad {0};
  ::std::atomic<int> counters_left {0};
  bool allow_overflow = false;
  explicit World(size_t max_cbs, size_t threads) : cbs(max_cbs), ops(threads) {}
  int alloc_cb() {
    uint32_t i = ncb.fetch_add(1, ::std::memory_order_relaxed);
    return i < cbs.size() ? int(i) : -1;
  }
};
World* g_world = nullptr;

// The deadline-overflow finding (DESIGN §6; see tools/notes/C08.md) is recorded but must not end the run: every
// other kind of violation stops the episode loop.
::std::atomic<uint32_t> g_fatal {0};
inline bool stop_now() { return g_fatal.load(::std::memory_order_relaxed) > 0; }
inline void viol(const ::std::string& key, const ::std::string& msg, const ::std::string& detail = "") {
  if (key.rfind("wait_for-deadline-overflow", 0) != 0) g_fatal.fetch_add(1, ::std::memory_order_relaxed);
  vf::violation(key, msg, detail);
}

inline int64_t mono_ns() {
  struct ::timespec ts;
  ::clock_gettime(CLOCK_MONOTONIC, &ts);
  return int64_t(ts.tv_sec) * 1000000000 + ts.tv_nsec;
}
inline int my_logical() { return vf::my_state()->logical.load(::std::memory_order_relaxed); }

////////////////////////////////////////////////////////////////////////////////
// Persistent worker threads. Thousands of short episodes with up to 13 threads each: creating the threads per
// episode dominates the run under TSan/ASan (TLS + shadow set-up per pthread_create). The hand-over through a
// mutex + condvar gives exactly the happens-before edges of create/join (episode start after the previous
// episode's end) and none inside an episode.
struct Workers {
  ::std::mutex mu;
  ::std::condition_variable cv_start, cv_done;
  uint64_t gen = 0, seed = 0;
  int active = 0, done = 0, pin = 0;
  bool quit = false;
  ::std::function<void(int)> body;
  ::std::vector<::std::thread> ts;

  void worker(int i) {
    uint64_t seen = 0;
    for (;;) {
      uint64_t sd;
      int pn;
      {
        ::std::unique_lock<::std::mutex> lk(mu);
        cv_start.wait(lk, [&] { return quit || (gen != seen && i < active); });
        if (quit) return;
        seen = gen;
        sd = seed;
        pn = pin;
      }
      vf::pin_cpus(pn);  // affinity of this worker for this episode (0 = all CPUs)
      vf::thread_begin(sd, i);
      body(i);
      vf::thread_end();
      {
        ::std::lock_guard<::std::mutex> lk(mu);
        ++done;
      }
      cv_done.notify_one();
    }
  }
  template <typename F>
  void run(int n, uint64_t episode_seed, int pin_cpus, F&& f) {
    while (int(ts.size()) < n) {
      int i = int(ts.size());
      ts.emplace_back([this, i] { worker(i); });
    }
    vf::expect_threads(uint64_t(n));
    ::std::unique_lock<::std::mutex> lk(mu);
    body = ::std::ref(f);
    seed = episode_seed;
    pin = pin_cpus;
    active = n;
    done = 0;
    ++gen;
    cv_start.notify_all();
    cv_done.wait(lk, [&] { return done == n; });
    active = 0;
    body = nullptr;
  }
  void shutdown() {
    {
      ::std::lock_guard<::std::mutex> lk(mu);
      quit = true;
    }
    cv_start.notify_all();
    for (auto& t : ts) t.join();
    ts.clear();
  }
};
Workers& workers() { static Workers* w = new Workers; return *w; }

////////////////////////////////////////////////////////////////////////////////
// value traits
template <typename T> struct Tr;
template <> struct Tr<int> {
  static constexpr const char* name = "int";
  using Val = int;
  template <typename P> static void set(P& p, World& w) { p.set_value(int(w.v)); }
  static uint64_t digest(const int& x) { return uint64_t(uint32_t(x)) * 0x9e3779b97f4a7c15ULL + 1; }
  static uint64_t expect(uint64_t v) { return digest(int(v)); }
};
template <> struct Tr<size_t> {  // latch future
  static constexpr const char* name = "size_t(latch)";
  using Val = size_t;
  static uint64_t digest(const size_t& x) { return uint64_t(x) * 0x9e3779b97f4a7c15ULL + 7; }
  static uint64_t expect(uint64_t) { return digest(0); }
};
template <> struct Tr<::std::string> {
  static constexpr const char* name = "string";
  using Val = ::std::string;
  static ::std::string make(uint64_t v) { return "c08:" + ::std::to_string(v) + ::std::string(40 + v % 30, char('a' + v % 26)); }
  template <typename P> static void set(P& p, World& w) { p.set_value(make(w.v)); }
  static uint64_t digest(const ::std::string& s) { return fnv(s); }
  static uint64_t expect(uint64_t v) { return fnv(make(v)); }
};
template <> struct Tr<::std::unique_ptr<Payload>> {
  static constexpr const char* name = "move-only";
  using Val = ::std::unique_ptr<Payload>;
  template <typename P> static void set(P& p, World& w) {
    auto u = ::std::make_unique<Payload>();
    fill_payload(*u, w.v);
    p.set_value(::std::move(u));
  }
  static uint64_t digest(const ::std::unique_ptr<Payload>& u) { return u ? payload_digest(*u) : 0; }
  static uint64_t expect(uint64_t v) { return payload_expect(v); }
};
template <> struct Tr<Payload&> {
  static constexpr const char* name = "reference";
  using Val = Payload;
  template <typename P> static void set(P& p, World& w) {
    fill_payload(w.ref_target, w.v);
    p.set_value(w.ref_target);
  }
  static uint64_t digest(const Payload& x) { return payload_digest(x); }
  static uint64_t expect(uint64_t v) { return payload_expect(v); }
};
template <> struct Tr<void> {
  static constexpr const char* name = "void";
  template <typename P> static void set(P& p, World&) { p.set_value(); }
  static uint64_t expect(uint64_t) { return 0x766f6964; }
};

////////////////////////////////////////////////////////////////////////////////
// callback bodies
inline void cb_enter(World* w, int idx) {
  uint64_t t = vf::stamp_call();
  CbRec& r = w->cbs[size_t(idx)];
  r.runs.fetch_add(1, ::std::memory_order_relaxed);
  r.start.store(t, ::std::memory_order_relaxed);
  r.thread.store(my_logical(), ::std::memory_order_relaxed);
  vf::perturb("cb:c08_mid");
}
inline void read_side(World* w) {
  // plain reads: ordered after the setter's plain writes only through set_value's publication
  Payload p = w->side;
  if (payload_digest(p) != payload_expect(w->v ^ 0x5a5a5a5a)) w->side_bad.fetch_add(1, ::std::memory_order_relaxed);
}
inline void cb_exit(World* w, int idx, uint64_t digest, uint64_t expect, bool check_side) {
  CbRec& r = w->cbs[size_t(idx)];
  if (digest != expect) r.bad.fetch_add(1, ::std::memory_order_relaxed);
  if (check_side) read_side(w);
  r.end.store(vf::stamp_ret(), ::std::memory_order_relaxed);
  vf::progress();
}

// timeouts: negative, zero, tiny … 20 ms, hours(10^6), nanoseconds::max()
struct Timeout {
  int64_t ns;
  int unit;  // 0 ns, 1 us, 2 ms, 3 hours
};
inline Timeout pick_timeout(vf::Rng& r, bool allow_overflow, bool huge_only) {
  if (huge_only) {
    switch (r.below(4)) {
      case 0: return {INT64_MAX, 0};
      case 1: return {INT64_MAX - int64_t(r.below(1000000)), 0};
      case 2: return {INT64_MAX - int64_t(r.below(uint64_t(1) << 40)), 0};  // still overflows now+timeout
      default: return {int64_t(3600) * 1000000000 * 1000000, 3};
    }
  }
  switch (r.below(20)) {
    case 0: return {-1, 0};
    case 1: return {INT64_MIN, 0};
    case 2: return {-5000000000LL, 0};
    case 3: return {-1000, 1};
    case 4: case 5: case 6: return {0, 0};
    case 7: return {1, 0};
    case 8: return {1000, 1};
    case 9: return {20000, 1};
    case 10: case 11: return {int64_t(r.range(1, 300)) * 1000, 1};
    case 12: return {1000000, 2};
    case 13: return {int64_t(r.range(1, 5)) * 1000000, 2};
    case 14: return {r.chance(1, 4) ? 20000000 : 2000000, 2};
    case 15: case 16: return {int64_t(3600) * 1000000000 * 1000000, 3};
    case 17: return allow_overflow ? Timeout {INT64_MAX, 0} : Timeout {int64_t(3600) * 1000000000 * 1000000, 3};
    case 18: return allow_overflow ? Timeout {INT64_MAX - int64_t(r.below(1000000)), 0} : Timeout {500000, 1};
    default: return {int64_t(r.range(0, 60000)), 0};
  }
}

////////////////////////////////////////////////////////////////////////////////
// one client operation on a copy of the future
template <typename T, typename M>
struct Runner {
  using Fut = ::babylon::Future<T, M>;
  struct ThenRec {
    ::babylon::Future<uint64_t, M> f;
    uint64_t expect;
  };
  struct ThenVoidRec {
    ::babylon::Future<void, M> f;
    int cb;
  };
  struct Store {
    ::std::vector<ThenRec> thens;
    ::std::vector<ThenVoidRec> void_thens;
  };

  static uint64_t read_value(Fut& f) {
    if constexpr (::std::is_void<T>::value) {
      f.get();
      return Tr<void>::expect(0);
    } else {
      return Tr<T>::digest(f.get());
    }
  }

  // registers callback `idx` in one of the accepted signatures; returns the form used
  template <typename F>
  static uint8_t register_cb(F& f, World* w, int idx, vf::Rng& r) {
    auto tok = ::std::make_unique<uint64_t>(uint64_t(idx) ^ 0x70c);
    uint64_t expect = Tr<T>::expect(w->v);
    if constexpr (::std::is_void<T>::value) {
      f.on_finish([w, idx, expect, tok = ::std::move(tok)]() {
        cb_enter(w, idx);
        cb_exit(w, idx, *tok == (uint64_t(idx) ^ 0x70c) ? expect : 0, expect, true);
      });
      return 3;
    } else {
      using V = typename Tr<T>::Val;
      uint8_t form = uint8_t(r.below(3));
      if (form == 0) {
        f.on_finish([w, idx, expect, tok = ::std::move(tok)](const V& x) {  // run_callback(C(T&&))
          cb_enter(w, idx);
          cb_exit(w, idx, *tok == (uint64_t(idx) ^ 0x70c) ? Tr<T>::digest(x) : 0, expect, true);
        });
      } else if (form == 1) {
        f.on_finish([w, idx, expect, tok = ::std::move(tok)](V& x) {  // run_callback(C(T&)) (or T&& via conversion for references)
          cb_enter(w, idx);
          cb_exit(w, idx, *tok == (uint64_t(idx) ^ 0x70c) ? Tr<T>::digest(x) : 0, expect, true);
        });
      } else {
        f.on_finish([w, idx, expect, tok = ::std::move(tok)]() {  // run_callback(C())
          cb_enter(w, idx);
          cb_exit(w, idx, *tok == (uint64_t(idx) ^ 0x70c) ? expect : 0, expect, true);
        });
        form = 3;
      }
      return form;
    }
  }

  static void do_op(World& w, Fut& master, int thread, OpKind kind, vf::Rng& r, Store& store) {
    OpRec op;
    op.kind = kind;
    Fut f = master;  // every operation works on its own copy (on_finish/then consume the copy, see docs)
    vf::set_op(kOpNames[kind]);
    switch (kind) {
      case GET: {
        op.call = vf::stamp_call();
        uint64_t d = read_value(f);
        op.ret = vf::stamp_ret();
        op.result = 1;
        op.value_ok = d == Tr<T>::expect(w.v);
        read_side(&w);
        break;
      }
      case WAIT_FOR: {
        Timeout t = pick_timeout(r, w.allow_overflow, w.cfg.huge);
        op.timeout_ns = t.ns;
        op.form = uint8_t(t.unit);
        vf::set_op(kOpNames[kind], uint64_t(t.ns));
        bool res;
        op.t0_ns = mono_ns();
        op.call = vf::stamp_call();
        switch (t.unit) {
          case 1: res = f.wait_for(::std::chrono::microseconds(t.ns / 1000)); break;
          case 2: res = f.wait_for(::std::chrono::milliseconds(t.ns / 1000000)); break;
          case 3: res = f.wait_for(::std::chrono::hours(t.ns / (int64_t(3600) * 1000000000))); break;
          default: res = f.wait_for(nanos(t.ns)); break;
        }
        op.ret = vf::stamp_ret();
        op.t1_ns = mono_ns();
        op.result = res ? 1 : 0;
        if (res) {
          // value must be there: get() may not block now
          op.value_ok = read_value(f) == Tr<T>::expect(w.v);
          read_side(&w);
        }
        break;
      }
      case READY: {
        op.call = vf::stamp_call();
        bool res = f.ready();
        op.ret = vf::stamp_ret();
        op.result = res ? 1 : 0;
        if (res) {
          // "ready" = set_value sealed the state; the value is read through get()
          op.value_ok = read_value(f) == Tr<T>::expect(w.v);
          read_side(&w);
        }
        break;
      }
      case ON_FINISH: {
        int idx = w.alloc_cb();
        if (idx < 0) return;
        CbRec& c = w.cbs[size_t(idx)];
        c.kind = ON_FINISH;
        c.registrar = thread;
        op.cb = idx;
        op.call = c.reg_call = vf::stamp_call();
        c.form = op.form = register_cb(f, &w, idx, r);
        op.ret = c.reg_ret = vf::stamp_ret();
        c.registered = true;
        break;
      }
      case THEN: {
        int idx = w.alloc_cb();
        if (idx < 0) return;
        CbRec& c = w.cbs[size_t(idx)];
        c.kind = THEN;
        c.registrar = thread;
        op.cb = idx;
        uint64_t salt = uint64_t(idx) * 1315423911ULL + 17;
        uint64_t expect = Tr<T>::expect(w.v);
        World* wp = &w;
        bool chain = r.chance(1, 3);
        ::babylon::Future<uint64_t, M> tf;
        op.call = c.reg_call = vf::stamp_call();
        if constexpr (::std::is_void<T>::value) {
          tf = f.then([wp, idx, expect, salt]() -> uint64_t {
            cb_enter(wp, idx);
            cb_exit(wp, idx, expect, expect, true);
            return expect + salt;
          });
          op.form = 3;
        } else {
          using V = typename Tr<T>::Val;
          // then(C(V&)) does not compile for T = V& (ResultOfCallback instantiates run_callback<C, V&>, whose
          // first overload is selected by IsInvocable<C, V& &&> == IsInvocable<C, V&> but then calls
          // callback(std::move(value))): compile-time limitation of the library, noted in tools/notes/C08.md
          if (::std::is_reference<T>::value || r.chance(1, 2)) {
            tf = f.then([wp, idx, expect, salt](const V& x) -> uint64_t {
              cb_enter(wp, idx);
              uint64_t d = Tr<T>::digest(x);
              cb_exit(wp, idx, d, expect, true);
              return d + salt;
            });
            op.form = 0;
          } else if constexpr (!::std::is_reference<T>::value) {
            tf = f.then([wp, idx, expect, salt](V& x) -> uint64_t {
              cb_enter(wp, idx);
              uint64_t d = Tr<T>::digest(x);
              cb_exit(wp, idx, d, expect, true);
              return d + salt;
            });
            op.form = 1;
          }
        }
        uint64_t want = expect + salt;
        if (chain) {
          VF_COUNT("obs:then_chained");
          tf = tf.then([](uint64_t x) -> uint64_t { return (x ^ 0xabcdef) + 3; });
          want = (want ^ 0xabcdef) + 3;
        }
        op.ret = c.reg_ret = vf::stamp_ret();
        c.form = op.form;
        c.registered = true;
        if (r.chance(1, 3)) {
          // block on the derived future right away (a get like any other)
          vf::set_op("then-future.get");
          uint64_t got = tf.get();
          uint64_t ret = vf::stamp_ret();
          OpRec g;
          g.kind = GET;
          g.call = op.ret;
          g.ret = ret;
          g.result = 1;
          g.value_ok = got == want;
          g.form = 9;  // derived future
          read_side(&w);
          w.ops[size_t(thread)].push_back(op);
          w.ops[size_t(thread)].push_back(g);
          vf::set_op(nullptr);
          vf::progress(2);
          return;
        }
        store.thens.push_back({tf, want});
        break;
      }
      case THEN_VOID: {
        int idx = w.alloc_cb();
        if (idx < 0) return;
        CbRec& c = w.cbs[size_t(idx)];
        c.kind = THEN_VOID;
        c.registrar = thread;
        op.cb = idx;
        uint64_t expect = Tr<T>::expect(w.v);
        World* wp = &w;
        ::babylon::Future<void, M> tf;
        op.call = c.reg_call = vf::stamp_call();
        if constexpr (::std::is_void<T>::value) {
          tf = f.then([wp, idx, expect]() {
            cb_enter(wp, idx);
            cb_exit(wp, idx, expect, expect, true);
          });
          op.form = 3;
        } else {
          using V = typename Tr<T>::Val;
          tf = f.then([wp, idx, expect](const V& x) {
            cb_enter(wp, idx);
            cb_exit(wp, idx, Tr<T>::digest(x), expect, true);
          });
          op.form = 0;
        }
        op.ret = c.reg_ret = vf::stamp_ret();
        c.form = op.form;
        c.registered = true;
        store.void_thens.push_back({tf, idx});
        break;
      }
      default: break;
    }
    vf::set_op(nullptr);
    w.ops[size_t(thread)].push_back(op);
    vf::progress();
  }

  // wait (without synchronising: relaxed loads) until the setter raised `flag`: a short yield spin so that the
  // operation lands right next to set_value, then 30us naps so that a stalled setter is not starved of CPU
  static void await_flag(::std::atomic<uint32_t>& flag) {
    for (int i = 0; !flag.load(::std::memory_order_relaxed) && !stop_now(); ++i) {
      if (i < 64) ::sched_yield();
      else vf::raw_sleep_us(30);
    }
  }

  // program of one client thread
  static void client(World& w, Fut& master, int thread, uint64_t ep_seed, Store& store, bool latch) {
    vf::Rng r(vf::mix(ep_seed, uint64_t(thread), 0xc1));
    int nops = int(r.range(1, uint64_t(w.cfg.max_ops)));
    for (int i = 0; i < nops && !stop_now(); ++i) {
      // when to issue: now / as soon as set_value has been called / after it returned / after a short sleep
      switch (r.below(6)) {
        case 0: case 1: break;
        case 2: case 3:
          await_flag(w.set_called);
          break;
        case 4:
          await_flag(w.set_returned);
          break;
        default: vf::raw_sleep_us(r.range(1, 300)); break;
      }
      OpKind k;
      uint64_t x = r.below(16);
      if (x < 3) k = GET;
      else if (x < 8) k = WAIT_FOR;
      else if (x < 10) k = READY;
      else if (x < 13) k = ON_FINISH;
      else if (x < 15) k = THEN;
      else k = THEN_VOID;
      if (w.cfg.huge && x < 10) k = WAIT_FOR;
      (void)latch;
      do_op(w, master, thread, k, r, store);
    }
  }

  // derived futures: checked after set_value and every registration returned
  static void check_thens(World& w, ::std::vector<Store>& stores) {
    for (auto& s : stores) {
      for (auto& t : s.thens) {
        VF_COUNT("obs:then_future_checked");
        if (!t.f.ready()) {
          viol("then-future-not-ready", "future returned by then() is not ready although set_value and then() both returned",
                        w.cfg.describe());
        } else if (t.f.get() != t.expect) {
          viol("then-wrong-value", vf::fmt("future returned by then() carries %lx, expected f(value)=%lx",
                                                    (unsigned long)t.f.get(), (unsigned long)t.expect), w.cfg.describe());
        }
      }
      for (auto& t : s.void_thens) {
        VF_COUNT("obs:then_future_checked");
        if (!t.f.ready() || !t.f.wait_for(nanos(0))) {
          viol("then-future-not-ready", "Future<void> returned by then() is not ready although set_value and then() both returned",
                        w.cfg.describe());
        }
      }
    }
  }
};

////////////////////////////////////////////////////////////////////////////////
// oracles
::std::string op_str(const OpRec& o, int thread) {
  return vf::fmt("t%d:%s(form=%u timeout=%ldns)->%d call=%lu ret=%lu elapsed=%ldns cb=%d", thread, kOpNames[o.kind], o.form,
                 (long)o.timeout_ns, o.result, (unsigned long)o.call, (unsigned long)o.ret, (long)(o.t1_ns - o.t0_ns), o.cb);
}
::std::string cb_str(const CbRec& c, int idx) {
  return vf::fmt("cb%d(%s form=%u by t%d) reg=[%lu..%lu] runs=%u ran_on=t%d run=[%lu..%lu] bad=%u", idx, kOpNames[c.kind], c.form,
                 c.registrar, (unsigned long)c.reg_call, (unsigned long)c.reg_ret, c.runs.load(), c.thread.load(),
                 (unsigned long)c.start.load(), (unsigned long)c.end.load(), c.bad.load());
}
::std::string history(World& w) {
  ::std::string o = w.cfg.describe() + vf::fmt("\nset_value: call=%lu ret=%lu value=%lu\n", (unsigned long)w.set_call,
                                               (unsigned long)w.set_ret, (unsigned long)w.v);
  int n = 0;
  for (size_t t = 0; t < w.ops.size(); ++t)
    for (auto& op : w.ops[t])
      if (n++ < 80) o += op_str(op, int(t)) + "\n";
  uint32_t ncb = ::std::min<uint32_t>(w.ncb.load(), uint32_t(w.cbs.size()));
  for (uint32_t i = 0; i < ncb && i < 60; ++i) o += cb_str(w.cbs[i], int(i)) + "\n";
  return o;
}

struct Outcome {
  uint64_t fp = 0;
  bool nontrivial = false;
};

// `value_time(t)`: had the value-setting call been *called* strictly before stamp t?  (future: set_call < t)
// `surely_set(t)`: had it *returned* strictly before stamp t?
template <typename CalledBefore, typename ReturnedBefore>
Outcome common_oracle(World& w, CalledBefore&& called_before, ReturnedBefore&& returned_before, uint64_t last_ret,
                      const char* setter_name) {
  Outcome out;
  uint64_t h = vf::mix(::std::hash<::std::string> {}(w.cfg.type + "/" + w.cfg.sched + "/" + w.cfg.mode + "/" + vf::args().variant),
                       uint64_t(w.cfg.threads), w.cfg.count);
  uint32_t ncb = ::std::min<uint32_t>(w.ncb.load(::std::memory_order_relaxed), uint32_t(w.cbs.size()));
  for (uint32_t i = 0; i < ncb; ++i) {
    CbRec& c = w.cbs[i];
    if (!c.registered) continue;
    VF_COUNT("obs:callbacks");
    uint32_t runs = c.runs.load(::std::memory_order_relaxed);
    uint64_t start = c.start.load(::std::memory_order_relaxed), end = c.end.load(::std::memory_order_relaxed);
    int th = c.thread.load(::std::memory_order_relaxed);
    if (runs == 0) {
      viol("callback-not-run", vf::fmt("callback registered with %s never ran although %s and the registration both returned",
                                                kOpNames[c.kind], setter_name), cb_str(c, int(i)) + "\n" + history(w));
      continue;
    }
    if (runs > 1) {
      viol("callback-ran-twice", vf::fmt("callback registered with %s ran %u times", kOpNames[c.kind], runs),
                    cb_str(c, int(i)) + "\n" + history(w));
      continue;
    }
    if (!called_before(start)) {
      viol("callback-before-set_value", vf::fmt("callback started before %s was called", setter_name),
                    cb_str(c, int(i)) + "\n" + history(w));
    }
    if (c.bad.load(::std::memory_order_relaxed)) {
      viol("callback-wrong-value", "callback observed a value different from the one set", cb_str(c, int(i)) + "\n" + history(w));
    }
    if (end > ::std::max(last_ret, c.reg_ret)) {
      viol("callback-late", vf::fmt("callback was still running after both %s and its registration had returned", setter_name),
                    cb_str(c, int(i)) + "\n" + history(w));
    }
    int cls;
    if (th == c.registrar && c.reg_call < start && end < c.reg_ret) {
      if (returned_before(c.reg_call)) { VF_COUNT("obs:cb_inline_after_set"); cls = 1; }
      else { VF_COUNT("rare:cb_inline_while_set_value_in_flight"); cls = 2; out.nontrivial = true; }
    } else {
      if (called_before(c.reg_ret)) { VF_COUNT("rare:cb_queued_while_set_value_in_flight"); cls = 3; out.nontrivial = true; }
      else { VF_COUNT("obs:cb_queued_before_set"); cls = 4; }
    }
    h = vf::mix(h, uint64_t(c.kind) * 8 + uint64_t(cls), uint64_t(c.registrar));
  }
  for (size_t t = 0; t < w.ops.size(); ++t) {
    for (auto& o : w.ops[t]) {
      VF_COUNT("obs:ops");
      switch (o.kind) {
        case GET:
          VF_COUNT("obs:get");
          if (!called_before(o.ret)) {
            viol("get-returned-before-set_value", vf::fmt("get() returned before %s was called", setter_name),
                          op_str(o, int(t)) + "\n" + history(w));
          }
          if (!o.value_ok) viol("get-wrong-value", "get() returned a value different from the one set", op_str(o, int(t)) + "\n" + history(w));
          if (!returned_before(o.call)) { VF_COUNT("obs:get_called_before_set_returned"); }
          break;
        case WAIT_FOR: {
          VF_COUNT("obs:wait_for");
          int64_t want = o.timeout_ns < 0 ? 0 : o.timeout_ns;
          if (o.result == 1) {
            if (!called_before(o.ret)) {
              viol("wait_for-true-before-set_value", vf::fmt("wait_for returned true before %s was called", setter_name),
                            op_str(o, int(t)) + "\n" + history(w));
            }
            if (!o.value_ok) {
              viol("get-wrong-value", "value read after wait_for==true differs from the one set", op_str(o, int(t)) + "\n" + history(w));
            }
            if (!returned_before(o.call)) VF_COUNT("obs:wait_for_true_racing");
          } else {
            VF_COUNT("rare:timeout_expired");
            out.nontrivial = out.nontrivial || want > 0;
            if (o.t1_ns - o.t0_ns < want) {
              // the deadline `now + timeout` is not representable for these inputs: same root cause as the UBSan report
              bool overflow = want > INT64_MAX - o.t0_ns;
              viol(overflow ? "wait_for-deadline-overflow:false-early" : "wait_for-false-early",
                            vf::fmt("wait_for(%ldns) returned false after only %ldns", (long)o.timeout_ns, (long)(o.t1_ns - o.t0_ns)),
                            op_str(o, int(t)) + "\n" + history(w));
            }
            if (returned_before(o.call)) {
              viol("wait_for-false-after-set_value", vf::fmt("wait_for called after %s returned came back false", setter_name),
                            op_str(o, int(t)) + "\n" + history(w));
            }
          }
          if (o.timeout_ns < 0) VF_COUNT("obs:wait_for_negative");
          if (o.timeout_ns == 0) VF_COUNT("obs:wait_for_zero");
          if (o.timeout_ns >= int64_t(3600) * 1000000000 * 1000000) VF_COUNT("obs:wait_for_huge");
          if (o.timeout_ns > INT64_MAX - o.t0_ns) VF_COUNT("obs:wait_for_deadline_not_representable");
          h = vf::mix(h, uint64_t(o.result), t);
          break;
        }
        case READY:
          VF_COUNT("obs:ready");
          if (o.result == 1) {
            if (!called_before(o.ret)) {
              viol("ready-true-before-set_value", vf::fmt("ready() returned true before %s was called", setter_name),
                            op_str(o, int(t)) + "\n" + history(w));
            }
            if (!o.value_ok) viol("get-wrong-value", "value read after ready()==true differs from the one set", op_str(o, int(t)) + "\n" + history(w));
          } else if (returned_before(o.call)) {
            viol("ready-false-after-set_value", vf::fmt("ready() called after %s returned came back false", setter_name),
                          op_str(o, int(t)) + "\n" + history(w));
          }
          h = vf::mix(h, uint64_t(o.result) + 2, t);
          break;
        default: break;
      }
    }
  }
  if (w.side_bad.load(::std::memory_order_relaxed)) {
    viol("side-payload-not-visible", "memory written by the setter before set_value was not visible to a reader after get/wait_for/callback",
                  history(w));
  }
  out.fp = h;
  return out;
}

uint64_t futex_slept_total() {
  uint64_t s = 0;
  auto* all = vf::thread_states();
  for (int i = 0; i < vf::kMaxThreads; ++i) s += all[i].futex_slept.load(::std::memory_order_relaxed);
  return s + vf::counter_value("obs:cv_slept");
}
uint64_t rare_points() {
  return vf::counter_value("point:fut:on_finish_lost_to_sealed");
}

const ::std::vector<::std::string> kStallPoints = {
    "fut:value_constructed", "fut:sealed", "fut:on_finish_before_cas", "fut:on_finish_lost_to_sealed", "fut:waiter_registered",
    "fut:before_waiter_register",  // proposed in hooks_proposed/C08.diff (never hit without it)
    "futex:before_wait", "futex:before_wake", "c08:S:before_wait", "c08:S:before_wake", "c08:cv:before_wait", "c08:cv:before_wake",
    "cb:c08_mid"};

void sample_episode(World& w, const char* what) {
  if (vf::report().samples.size() >= 4) return;
  ::std::string hist;
  int n = 0;
  for (size_t t = 0; t < w.ops.size(); ++t)
    for (auto& o : w.ops[t])
      if (n++ < 20) hist += vf::fmt("%st%zu:%s->%d", hist.empty() ? "" : " ", t, kOpNames[o.kind], o.result);
  vf::sample("{\"kind\": " + vf::jstr(what) + ", \"config\": " + vf::jstr(w.cfg.describe()) + ", \"callbacks\": " +
             ::std::to_string(w.ncb.load()) + ", \"first_ops\": " + vf::jstr(hist) + "}", 4);
}

////////////////////////////////////////////////////////////////////////////////
// mode: future
template <typename T, typename M>
void run_future(Cfg cfg, vf::Rng& r) {
  using R = Runner<T, M>;
  cfg.type = Tr<T>::name;
  cfg.sched = MName<M>::name;
  int threads = cfg.threads;
  World w(size_t(threads + 1) * size_t(cfg.max_ops + 2) + 4, size_t(threads + 1));
  w.cfg = cfg;
  w.v = r.next() >> 1;
  w.allow_overflow = cfg.huge || !VF_ASAN;
  g_world = &w;
  uint64_t slept_before = futex_slept_total(), rare_before = rare_points();
  uint64_t ep_seed = vf::mix(cfg.seed, cfg.index, 0xf07);
  int promise_cbs = int(r.below(3));
  {
    ::babylon::Promise<T, M> promise;
    ::std::vector<typename R::Fut> masters;
    for (int t = 0; t < threads; ++t) masters.push_back(promise.get_future());
    ::std::vector<typename R::Store> stores(size_t(threads + 1));
    vf::watchdog().set_context(w.cfg.describe());
    vf::watchdog().arm(true);
    workers().run(threads + 1, ep_seed, cfg.pin, [&](int t) {
      if (t < threads) {
        R::client(w, masters[size_t(t)], t, ep_seed, stores[size_t(t)], false);
        return;
      }
      // the setter
      vf::Rng sr(vf::mix(ep_seed, 0x5e77e2));
      for (int i = 0; i < promise_cbs; ++i) {
        // Promise::on_finish: same registration path, saves a future copy
        int idx = w.alloc_cb();
        if (idx < 0) break;
        CbRec& c = w.cbs[size_t(idx)];
        c.kind = ON_FINISH;
        c.registrar = t;
        c.reg_call = vf::stamp_call();
        c.form = R::register_cb(promise, &w, idx, sr);
        c.reg_ret = vf::stamp_ret();
        c.registered = true;
        VF_COUNT("obs:promise_on_finish");
      }
      if (cfg.setter_delay_us > 0) vf::raw_sleep_us(uint64_t(cfg.setter_delay_us));
      fill_payload(w.side, w.v ^ 0x5a5a5a5a);
      vf::set_op("set_value");
      w.set_call = vf::stamp_call();
      w.set_called.store(1, ::std::memory_order_relaxed);
      Tr<T>::set(promise, w);
      w.set_ret = vf::stamp_ret();
      w.set_returned.store(1, ::std::memory_order_relaxed);
      vf::set_op(nullptr);
      vf::progress();
      if (!promise.ready()) viol("ready-false-after-set_value", "Promise::ready() false right after set_value returned", w.cfg.describe());
    });
    vf::watchdog().arm(false);
    vf::disable_policy();
    if (!stop_now()) {
      // quiescent checks from the main thread (everything returned)
      auto f = promise.get_future();
      if (!f.ready() || !f.wait_for(nanos(0)) || !f.wait_for(nanos(-1))) {
        viol("ready-false-after-set_value", "ready()/wait_for(0) false after set_value returned and all threads joined", history(w));
      } else if (R::read_value(f) != Tr<T>::expect(w.v)) {
        viol("get-wrong-value", "get() after join returned a value different from the one set", history(w));
      }
      R::check_thens(w, stores);
      // waiters that incremented the futex word after READY was swapped in leave their count behind
      uint32_t word = promise._context->_futex.value().load(::std::memory_order_relaxed);
      if (word != 0x80000000U) VF_COUNT("rare:waiter_incremented_after_ready");
      if (!(word & 0x80000000U)) viol("futex-word-not-ready", vf::fmt("futex word is 0x%x after set_value returned", word), history(w));
    }
  }
  uint64_t set_call = w.set_call, set_ret = w.set_ret;
  Outcome out = common_oracle(
      w, [&](uint64_t t) { return set_call < t; }, [&](uint64_t t) { return set_ret < t; }, set_ret, "set_value");
  bool slept = futex_slept_total() > slept_before;
  if (slept) VF_COUNT("obs:episodes_with_sleeping_waiter");
  out.nontrivial = out.nontrivial || slept || rare_points() > rare_before;
  vf::evaluated(out.fp, out.nontrivial);
  sample_episode(w, "future");
  g_world = nullptr;
}

template <typename T>
void run_future_m(const Cfg& cfg, vf::Rng& r, int m) {
  switch (m) {
    case 0: run_future<T, ::babylon::SchedInterface>(cfg, r); break;
    case 1: run_future<T, HSched>(cfg, r); break;
    default: run_future<T, CvSched>(cfg, r); break;
  }
}

void future_episode(uint64_t seed, uint64_t index, bool huge) {
  vf::Rng r(vf::mix(seed, index, huge ? 0xb16 : 0xf0));
  Cfg cfg;
  cfg.seed = seed;
  cfg.index = index;
  cfg.mode = huge ? "huge" : "future";
  cfg.huge = huge;
  cfg.threads = int(r.pick<int>({1, 2, 2, 3, 4, 4, 6, 8, 12}));
  cfg.max_ops = int(r.range(1, 5));
  cfg.setter_delay_us = int(r.pick<int>({0, 0, 0, 20, 100, 300, 300, 1000, 3000}));
  if (huge) cfg.setter_delay_us = int(r.pick<int>({0, 50, 300, 2000}));
  cfg.pin = int(r.pick<int>({0, 0, 0, 0, 1, 2, 3}));
  cfg.policy = vf::draw_policy(r, kStallPoints, 6, 3000);
  int ty = int(r.below(5)), m = int(r.below(3));
  switch (ty) {
    case 0: run_future_m<int>(cfg, r, m); break;
    case 1: run_future_m<::std::string>(cfg, r, m); break;
    case 2: run_future_m<::std::unique_ptr<Payload>>(cfg, r, m); break;
    case 3: run_future_m<Payload&>(cfg, r, m); break;
    default: run_future_m<void>(cfg, r, m); break;
  }
}

////////////////////////////////////////////////////////////////////////////////
// mode: latch
template <typename M>
void run_latch(Cfg cfg, vf::Rng& r) {
  using R = Runner<size_t, M>;
  cfg.type = Tr<size_t>::name;
  cfg.sched = MName<M>::name;
  int watchers = cfg.threads, counters = cfg.count == 0 ? 0 : cfg.counters;
  int total_threads = watchers + counters;
  // partition of count into chunks >= 1, dealt to the counting threads
  ::std::vector<::std::vector<uint64_t>> chunks(size_t(::std::max(counters, 1)));
  {
    uint64_t left = cfg.count;
    while (left > 0) {
      uint64_t k = r.chance(1, 2) ? 1 : r.range(1, ::std::min<uint64_t>(left, 9));
      chunks[r.below(uint64_t(counters))].push_back(k);
      left -= k;
    }
  }
  World w(size_t(watchers + 1) * size_t(cfg.max_ops + 2) + 4, size_t(total_threads + 1));
  w.cfg = cfg;
  w.v = 0;
  w.allow_overflow = !VF_ASAN;
  fill_payload(w.side, w.v ^ 0x5a5a5a5a);  // written before any thread starts: read_side is trivially ordered here
  g_world = &w;
  uint64_t slept_before = futex_slept_total(), rare_before = rare_points();
  uint64_t ep_seed = vf::mix(cfg.seed, cfg.index, 0x1a7c);
  w.counters_left.store(counters, ::std::memory_order_relaxed);
  {
    ::babylon::CountDownLatch<M> latch(size_t(cfg.count));
    ::std::vector<typename R::Fut> masters;
    for (int t = 0; t < watchers; ++t) masters.push_back(latch.get_future());
    ::std::vector<typename R::Store> stores(size_t(total_threads + 1));
    if (cfg.count == 0) {
      w.set_called.store(1, ::std::memory_order_relaxed);
      w.set_returned.store(1, ::std::memory_order_relaxed);
    }
    vf::watchdog().set_context(w.cfg.describe());
    vf::watchdog().arm(true);
    workers().run(total_threads, ep_seed, cfg.pin, [&](int t) {
      if (t < watchers) {
        R::client(w, masters[size_t(t)], t, ep_seed, stores[size_t(t)], true);
        return;
      }
      vf::Rng cr(vf::mix(ep_seed, uint64_t(t), 0xcd));
      for (uint64_t k : chunks[size_t(t - watchers)]) {
        if (cr.chance(1, 3)) vf::raw_sleep_us(cr.range(1, 200));
        OpRec op;
        op.kind = COUNT_DOWN;
        op.arg = k;
        vf::set_op("count_down", k);
        op.call = vf::stamp_call();
        w.set_called.store(1, ::std::memory_order_relaxed);
        if (k == 1 && cr.chance(1, 2)) latch.count_down();
        else latch.count_down(size_t(k));
        op.ret = vf::stamp_ret();
        vf::set_op(nullptr);
        w.ops[size_t(t)].push_back(op);
        vf::progress();
      }
      if (w.counters_left.fetch_sub(1, ::std::memory_order_relaxed) == 1) w.set_returned.store(1, ::std::memory_order_relaxed);
    });
    vf::watchdog().arm(false);
    vf::disable_policy();
    if (!stop_now()) {
      auto f = latch.get_future();
      if (!f.ready() || !f.wait_for(nanos(0))) {
        viol("latch-not-ready-after-last-count_down", "latch future not ready after every count_down returned (threads joined)", history(w));
      } else if (f.get() != 0) {
        viol("get-wrong-value", vf::fmt("latch future carries %zu, expected 0", f.get()), history(w));
      }
      R::check_thens(w, stores);
    }
  }
  // count_down history: "started before t" and "all returned before t"
  struct Cd { uint64_t call, ret, k; };
  ::std::vector<Cd> cds;
  for (auto& v : w.ops)
    for (auto& o : v)
      if (o.kind == COUNT_DOWN) cds.push_back({o.call, o.ret, o.arg});
  uint64_t last_ret = 0;
  for (auto& c : cds) last_ret = ::std::max(last_ret, c.ret);
  uint64_t count = cfg.count;
  auto called_before = [&](uint64_t t) {
    uint64_t s = 0;
    for (auto& c : cds) if (c.call < t) s += c.k;
    return s >= count;
  };
  auto returned_before = [&](uint64_t t) { return last_ret < t; };  // count==0: last_ret==0
  size_t viol_before = vf::report().violations.size();
  Outcome out = common_oracle(w, called_before, returned_before, last_ret, "the last count_down");
  if (vf::report().violations.size() > viol_before) {
    ::std::string cdh;
    for (auto& c : cds) cdh += vf::fmt("count_down(%lu) call=%lu ret=%lu\n", (unsigned long)c.k, (unsigned long)c.call, (unsigned long)c.ret);
    vf::note("latch episode with violation: " + w.cfg.describe() + "\n" + cdh.substr(0, 1500));
  }
  VF_COUNT_N("obs:count_downs", cds.size());
  if (cfg.count == 0) VF_COUNT("obs:latch_count_zero");
  bool slept = futex_slept_total() > slept_before;
  out.nontrivial = out.nontrivial || slept || rare_points() > rare_before;
  vf::evaluated(out.fp, out.nontrivial);
  sample_episode(w, "latch");
  g_world = nullptr;
}

void latch_episode(uint64_t seed, uint64_t index) {
  vf::Rng r(vf::mix(seed, index, 0x1a));
  Cfg cfg;
  cfg.seed = seed;
  cfg.index = index;
  cfg.mode = "latch";
  cfg.count = r.pick<uint64_t>({0, 1, 1, 2, 3, 5, 8, 17, 64});
  cfg.threads = int(r.range(1, 5));
  cfg.counters = int(r.range(1, 6));
  cfg.max_ops = int(r.range(1, 4));
  cfg.pin = int(r.pick<int>({0, 0, 0, 1, 2}));
  cfg.policy = vf::draw_policy(r, kStallPoints, 6, 2000);
  switch (r.below(3)) {
    case 0: run_latch<::babylon::SchedInterface>(cfg, r); break;
    case 1: run_latch<HSched>(cfg, r); break;
    default: run_latch<CvSched>(cfg, r); break;
  }
}

}  // namespace

#if VF_ASAN
// UBSan monitor hook (libubsan calls it for every report): attach the client operation that
// was in flight, so the deadline-overflow finding gets its own key with the offending input.
extern "C" void __ubsan_on_report(void) {
  auto* st = vf::my_state();
  const char* op = st->op.load(::std::memory_order_relaxed);
  int64_t arg = int64_t(st->op_arg.load(::std::memory_order_relaxed));
  World* w = g_world;
  ::std::string cfg = w ? w->cfg.describe() : ::std::string("-");
  if (op && strcmp(op, "wait_for") == 0 && arg > INT64_MAX - mono_ns()) {
    viol("wait_for-deadline-overflow:ubsan",
                  vf::fmt("UBSan report inside wait_for(%ldns): now + timeout is not representable in int64 "
                          "(FutureContext::wait_for_slow computes the deadline with a plain signed addition)", (long)arg), cfg);
  } else {
    viol(::std::string("ubsan-report-inside:") + (op ? op : "no-op"), "UBSan report while this client operation was in flight", cfg);
  }
  vf::write_report();
}
#endif

int main(int argc, char** argv) {
  vf::init(argc, argv, "C08", "c08_future");
  auto& a = vf::args();
  ::std::string mode = a.mode.empty() ? "all" : a.mode;
  auto& wd = vf::watchdog();
  // the futex word of a FutureContext counts waiters: it changes legitimately while others sleep
  wd.changed_word_is_lost_wakeup = false;
  wd.classify = []() -> ::std::string {
    World* w = g_world;
    if (!w) return "";
    if (w->set_returned.load(::std::memory_order_relaxed)) {
      return w->cfg.mode == "latch" ? "stuck:waiter-asleep-after-last-count_down-returned" : "stuck:waiter-asleep-after-set_value-returned";
    }
    return "";
  };
  wd.dump_extra = []() -> ::std::string {
    World* w = g_world;
    if (!w) return "";
    return vf::fmt("set_called=%u set_returned=%u callbacks=%u\n", w->set_called.load(), w->set_returned.load(), w->ncb.load());
  };
  wd.start();

  // `huge` episodes run last: in the asan+ubsan variant the first deadline overflow aborts the process
  // (-fno-sanitize-recover), after the on-report hook below has written the report of everything before it.
  uint64_t n_future = 0, n_latch = 0, n_huge = 0;
  if (mode == "all") {
    n_future = vf::budget(1600, 60000);
    n_latch = vf::budget(450, 16000);
    n_huge = vf::budget(80, 2000);
  } else if (mode == "future") n_future = vf::budget(1600, 60000);
  else if (mode == "latch") n_latch = vf::budget(450, 16000);
  else if (mode == "huge") n_huge = vf::budget(80, 2000);
  uint64_t e = 0;
  auto want = [&](uint64_t idx) { return a.only_episode < 0 || uint64_t(a.only_episode) == idx; };
  for (uint64_t i = 0; i < n_future && !stop_now(); ++i, ++e) if (want(e)) future_episode(a.seed, e, false);
  for (uint64_t i = 0; i < n_latch && !stop_now(); ++i, ++e) if (want(e)) latch_episode(a.seed, e);
  for (uint64_t i = 0; i < n_huge && !stop_now(); ++i, ++e) if (want(e)) future_episode(a.seed, e, true);
  workers().shutdown();
  wd.shutdown();
  return vf::finish();
}
