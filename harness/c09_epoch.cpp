// C09 — Epoch: nothing becomes reclaimable while a reader that may see it is in
// a critical region.
//
// Modes (all run by default):
//   ebr   classic epoch-based-reclamation client on the real Epoch: writers
//         unlink (exchange a shared cell), tick(), poll low_water_mark() and
//         reclaim (asan: real delete; tsan/plain: poison + state word); readers
//         open regions (thread-local style or Accessors, never both on one
//         Epoch), nested 1..4 deep, short and long, Accessors created / released
//         / kept idle / handed to other threads while locked.
//   solo  sequential scripts (accessor style on one thread, thread-local style on
//         lock-stepped worker threads) against an exact model of low_water_mark.
//
// Oracles:
//   (1) a reader inside a region never sees a reclaimed object (state word /
//       poisoned payload; ASan use-after-free; TSan race reader-read vs poison);
//   (2) offline on the stamped history: low_water_mark() returned L, some tick
//       t <= L, a region whose enter returned before tick(t) was called and
//       before the scan began  ==>  the region's exit had begun before
//       low_water_mark returned (with L = UINT64_MAX: no region spans the scan);
//   (3) no region overlapping a scan ==> the scan returns UINT64_MAX (idle,
//       released, reused accessors never hold the mark back); otherwise the mark
//       is not below what the oldest overlapping region can have observed;
//   (4) nesting: only the outermost unlock opens the region (slot word read by
//       its owner + oracle 1/2 on the outermost interval);
//   plus: tick values unique, dense and real-time ordered.
#include <condition_variable>
#include <deque>

#include "common/vf.h"

#include "babylon/concurrent/epoch.h"

namespace {

using ::babylon::Epoch;
using Accessor = ::babylon::Epoch::Accessor;

constexpr uint64_t kLive = 0x11fe11fe11fe11feULL;
constexpr uint64_t kDead = 0xdeaddeaddeaddeadULL;
constexpr uint64_t kPoison = 0xbadbadbadbadbadbULL;
// ordering claims between stamps of different threads keep this safety margin (cycles)
constexpr uint64_t kMargin = 2000;
constexpr size_t kMaxLwmLog = 200000;  // per writer and episode
constexpr size_t kReaderFullSpeedRegions = 40000;

inline uint64_t payload_of(uint64_t serial) { return serial * 0x9e3779b97f4a7c15ULL + 77; }

struct Obj {
  std::atomic<uint64_t> state {kLive};  // monitor word, relaxed only
  uint64_t payload = 0;                 // plain memory: creator writes, reclaimer poisons
  uint64_t serial = 0;
  uint64_t pad[5] = {0, 0, 0, 0, 0};
};

struct Region {
  uint64_t enter_call = 0, enter_ret = 0, exit_call = 0, exit_ret = 0;
  uint32_t slot = 0;
  int16_t t_in = -1, t_out = -1;
  uint8_t depth = 1;
  bool moved = false;
};
struct Tick { uint64_t t, call, ret; int writer; };
struct Lwm { uint64_t call, ret, L; int writer; };

struct Config {
  bool accessor_style = true;
  int writers = 1, readers = 2;
  int quota = 300;        // unlinks per writer
  int max_depth = 1;      // nesting
  int long_pct = 20;      // % of long regions
  int handoff_pct = 0;    // accessor style: % of regions handed to another thread while locked
  int release_pct = 30;   // accessor style: % release after region (else keep idle / destroy)
  bool churn = false;     // thread-local style: readers are generations of short-lived threads
  int batch = 1;          // writer polls the mark every `batch` unlinks
  int pin = 0;
  std::string policy;
  std::string describe() const {
    return vf::fmt("style=%s writers=%d readers=%d quota=%d depth<=%d long=%d%% handoff=%d%% release=%d%% churn=%d batch=%d pin=%d policy=[%s]",
                   accessor_style ? "accessor" : "thread-local", writers, readers, quota, max_depth, long_pct,
                   handoff_pct, release_pct, int(churn), batch, pin, policy.c_str());
  }
};

struct Moved {
  Accessor acc;
  Region rec;
  std::vector<Obj*> seen;
  int depth = 1;
  int hops = 0;
  uint64_t slot_version = 0;
};

struct World {
  Config cfg;
  uint64_t seed = 0, index = 0;
  Epoch* epoch = nullptr;
  std::atomic<Obj*> cell {nullptr};
  std::atomic<int> writers_done {0};
  std::atomic<int> scanning {0};
  std::atomic<int> tick_pending {0};
  std::atomic<uint64_t> serial {0};
  std::vector<std::vector<Region>> regions;  // per role
  std::vector<std::vector<Tick>> ticks;
  std::vector<std::vector<Lwm>> lwms;
  std::vector<std::vector<std::pair<Obj*, uint64_t>>> leftover;  // per writer: pending at exit
  std::vector<std::vector<Obj*>> graveyard;                        // per writer: poisoned objects (non-asan)
  std::mutex handoff_mu;
  std::deque<Moved> handoff;
  std::mutex idle_mu;
  std::vector<Accessor> idle_kept;  // unlocked accessors that outlive the reader threads
  std::atomic<uint64_t> slot_seen_mask[8];  // accessor indexes ever created (reuse detection), 512 bits
  std::atomic<uint64_t> held_back {0}, handoffs {0}, reclaimed {0};
  std::atomic<int> handoff_queued {0};  // mirrors handoff.size() (bounded: a queued region holds the mark back)
};

World* g_world = nullptr;

std::string region_str(const Region& r) {
  return vf::fmt("region{slot=%u thread_in=%d thread_out=%d depth=%u moved=%d enter=[%lu,%lu] exit=[%lu,%lu]}", r.slot,
                 r.t_in, r.t_out, r.depth, int(r.moved), (unsigned long)r.enter_call, (unsigned long)r.enter_ret,
                 (unsigned long)r.exit_call, (unsigned long)r.exit_ret);
}

// ---------------------------------------------------------------- oracle 1: dereference
inline void check_obj(World& w, Obj* p, const Region& rec, const char* where) {
  if (p == nullptr) return;
  // In the asan variant a reclaimed object is really freed: the loads below are the detector.
  uint64_t st = p->state.load(std::memory_order_relaxed);
  uint64_t pl = p->payload;  // plain read: TSan checks reader-exit happens-before the poison write
  uint64_t se = p->serial;
  VF_COUNT("obs:derefs");
  if (st != kLive || pl != payload_of(se)) {
    vf::violation("c09:reader-saw-reclaimed-object",
                  vf::fmt("a reader inside an open region dereferenced an object that was already reclaimed (%s)", where),
                  w.cfg.describe() + vf::fmt("\nobject serial=%lu state=%016lx payload=%016lx\n", (unsigned long)se,
                                             (unsigned long)st, (unsigned long)pl) +
                      region_str(rec) + vf::fmt("\nnow=%lu episode=%lu seed=%lu", (unsigned long)vf::stamp_call(),
                                                (unsigned long)w.index, (unsigned long)w.seed));
  }
}

inline uint64_t slot_word(World& w, size_t index) {
  return w.epoch->_slots[index].version.load(std::memory_order_relaxed);
}

// One region, from a fresh lock or continued after a hand-off. `acc` is null in
// thread-local style. Returns true if the region was handed off (accessor moved away).
struct RegionRunner {
  World& w;
  int thread;
  vf::Rng& rng;
  std::vector<Region>& log;

  void lock(Accessor* acc) { if (acc) acc->lock(); else w.epoch->lock(); }
  void unlock(Accessor* acc) { if (acc) acc->unlock(); else w.epoch->unlock(); }
  size_t slot_of(Accessor* acc) {
    return acc ? acc->_index : size_t(::babylon::ThreadId::current_thread_id<Epoch>().value);
  }
  void recheck(std::vector<Obj*>& seen, const Region& rec, const char* where) {
    for (Obj* p : seen) check_obj(w, p, rec, where);
  }

  bool run(Accessor* acc, Moved* cont) {
    Region rec;
    std::vector<Obj*> seen;
    int depth = 1;
    int hops = 0;
    uint64_t word = 0;
    if (cont) {
      hops = cont->hops;
      rec = cont->rec;
      seen = std::move(cont->seen);
      depth = cont->depth;
      word = cont->slot_version;
      rec.moved = true;
      recheck(seen, rec, "after hand-off to another thread");
    } else {
      if (w.tick_pending.load(std::memory_order_relaxed) > 0) VF_COUNT("rare:enter_between_tick_and_scan");
      rec.t_in = int16_t(thread);
      rec.enter_call = vf::stamp_call();
      lock(acc);
      rec.enter_ret = vf::stamp_ret();
      rec.slot = uint32_t(slot_of(acc));
      word = slot_word(w, rec.slot);
      if (word == UINT64_MAX) {
        vf::violation("c09:lock-did-not-publish-slot", "after the outermost lock() the slot word still says 'outside'",
                      w.cfg.describe() + "\n" + region_str(rec));
      }
    }
    bool is_long = rng.chance(uint64_t(w.cfg.long_pct), 100);
    int steps = is_long ? int(rng.range(20, 150)) : int(rng.range(1, 4));
    int target_depth = int(rng.range(1, uint64_t(w.cfg.max_depth)));
    for (int s = 0; s < steps; ++s) {
      uint64_t a = rng.below(100);
      if (a < 45) {
        Obj* p = w.cell.load(std::memory_order_acquire);
        check_obj(w, p, rec, "fresh load of the shared cell");
        if (seen.size() < 6) seen.push_back(p); else seen[rng.below(seen.size())] = p;
      } else if (a < 65) {
        recheck(seen, rec, "pointer obtained earlier in the same region");
      } else if (a < 75 && depth < target_depth) {
        lock(acc);
        ++depth;
        if (uint8_t(depth) > rec.depth) rec.depth = uint8_t(depth);
        VF_COUNT("obs:nested_lock");
        if (slot_word(w, rec.slot) != word) {
          vf::violation("c09:nested-lock-changed-slot", "a nested lock() changed the epoch recorded by the outermost lock()",
                        w.cfg.describe() + "\n" + region_str(rec));
        }
      } else if (a < 85 && depth > 1) {
        unlock(acc);
        --depth;
        VF_COUNT("obs:inner_unlock");
        if (slot_word(w, rec.slot) != word) {
          vf::violation("c09:nesting-inner-unlock-opened-region",
                        "an inner unlock() (nesting depth still > 0) changed the slot word: the region was opened early",
                        w.cfg.describe() + "\n" + region_str(rec) +
                            vf::fmt("\ndepth_after=%d word_before=%lu word_after=%lu", depth, (unsigned long)word,
                                    (unsigned long)slot_word(w, rec.slot)));
        }
        recheck(seen, rec, "after an inner unlock of a nested region");
      } else if (a < 88 && acc != nullptr && hops < 3 && rng.chance(uint64_t(w.cfg.handoff_pct), 100) &&
                 w.writers_done.load(std::memory_order_relaxed) < w.cfg.writers &&
                 w.handoff_queued.load(std::memory_order_relaxed) < w.cfg.readers) {
        Moved m;
        m.hops = hops + 1;
        m.acc = std::move(*acc);
        m.rec = rec;
        m.seen = std::move(seen);
        m.depth = depth;
        m.slot_version = word;
        {
          std::lock_guard<std::mutex> g(w.handoff_mu);
          w.handoff.push_back(std::move(m));
          w.handoff_queued.fetch_add(1, std::memory_order_relaxed);
        }
        w.handoffs.fetch_add(1, std::memory_order_relaxed);
        VF_COUNT("rare:region_handed_off");
        return true;
      } else {
        vf::perturb("cb:c09_region");
      }
    }
    while (depth > 1) {
      unlock(acc);
      --depth;
      if (slot_word(w, rec.slot) != word) {
        vf::violation("c09:nesting-inner-unlock-opened-region",
                      "an inner unlock() (nesting depth still > 0) changed the slot word: the region was opened early",
                      w.cfg.describe() + "\n" + region_str(rec));
      }
      recheck(seen, rec, "after an inner unlock of a nested region");
    }
    recheck(seen, rec, "last use before the outermost unlock");
    rec.t_out = int16_t(thread);
    rec.exit_call = vf::stamp_call();
    unlock(acc);
    rec.exit_ret = vf::stamp_ret();
    if (slot_word(w, rec.slot) != UINT64_MAX) {
      vf::violation("c09:outermost-unlock-left-slot-locked", "after the outermost unlock() the slot word is not 'outside'",
                    w.cfg.describe() + "\n" + region_str(rec));
    }
    log.push_back(rec);
    VF_COUNT("obs:regions");
    vf::progress();
    return false;
  }
};

void note_created(World& w, Accessor& acc) {
  if (w.scanning.load(std::memory_order_relaxed) > 0) VF_COUNT("rare:accessor_created_during_scan");
  size_t i = acc._index;
  if (i < 512) {
    uint64_t bit = 1ULL << (i & 63);
    uint64_t prev = w.slot_seen_mask[i >> 6].fetch_or(bit, std::memory_order_relaxed);
    if (prev & bit) VF_COUNT("rare:accessor_slot_reused");
  }
}

void reader_body(World& w, int role, int thread, uint64_t regions_cap) {
  vf::Rng& rng = vf::tl_rng();
  RegionRunner rr {w, thread, rng, w.regions[size_t(role)]};
  std::vector<Accessor> idle;
  uint64_t done = 0;
  while (w.writers_done.load(std::memory_order_acquire) < w.cfg.writers && done < regions_cap) {
    ++done;
    if (!w.cfg.accessor_style) {
      rr.run(nullptr, nullptr);
    } else {
      bool adopted = false;
      if (w.handoff_queued.load(std::memory_order_relaxed) > 0 && rng.chance(2, 3)) {
        Moved m;
        {
          std::lock_guard<std::mutex> g(w.handoff_mu);
          if (!w.handoff.empty()) {
            m = std::move(w.handoff.front());
            w.handoff.pop_front();
            w.handoff_queued.fetch_sub(1, std::memory_order_relaxed);
            adopted = true;
          }
        }
        if (adopted) {
          VF_COUNT("rare:region_adopted");
          Accessor acc = std::move(m.acc);
          if (!rr.run(&acc, &m)) {
            if (rng.chance(1, 2)) acc.release();
            else if (idle.size() < 4) idle.push_back(std::move(acc));
          }
        }
      }
      if (!adopted) {
        Accessor acc;
        if (!idle.empty() && rng.chance(1, 2)) {
          size_t k = rng.below(idle.size());
          acc = std::move(idle[k]);  // swap: idle[k] now holds the empty one
          idle.erase(idle.begin() + long(k));
          VF_COUNT("obs:idle_accessor_relocked");
        } else {
          acc = w.epoch->create_accessor();
          note_created(w, acc);
        }
        if (!rr.run(&acc, nullptr)) {
          uint64_t x = rng.below(100);
          if (x < uint64_t(w.cfg.release_pct)) {
            acc.release();
            VF_COUNT("obs:accessor_released");
          } else if (x < uint64_t(w.cfg.release_pct) + 35 && idle.size() < 4) {
            idle.push_back(std::move(acc));
          }  // else destroyed at scope end (implicit release)
        }
      }
    }
    if (rng.chance(1, 8)) vf::perturb("cb:c09_between_regions");
    // bounded history: a reader far ahead of the writers slows down (it still keeps regions opening and closing)
    if (rr.log.size() > kReaderFullSpeedRegions) vf::raw_sleep_us(100);
  }
  if (w.cfg.accessor_style && !idle.empty()) {
    std::lock_guard<std::mutex> g(w.idle_mu);
    // half of the idle accessors outlive this thread (alive, unlocked), the rest are released here
    for (size_t i = 0; i < idle.size(); i += 2) w.idle_kept.push_back(std::move(idle[i]));
  }
}

void reader_role(World& w, int role, uint64_t episode_seed) {
  if (!w.cfg.accessor_style && w.cfg.churn) {
    // generations of short-lived threads: thread ids (= slot indexes) are recycled
    uint64_t gen = 0;
    while (w.writers_done.load(std::memory_order_acquire) < w.cfg.writers && gen < 4000) {
      ++gen;
      std::thread t([&w, role, episode_seed, gen] {
        vf::thread_begin(vf::mix(episode_seed, uint64_t(role), gen), role);
        reader_body(w, role, role, 1 + vf::tl_rng().below(12));
        vf::thread_end();
      });
      t.join();
      VF_COUNT("obs:reader_thread_generations");
    }
  } else {
    reader_body(w, role, role, UINT64_MAX);
  }
}

void reclaim(World& w, int writer, Obj* o) {
  if (o == nullptr) return;
  w.reclaimed.fetch_add(1, std::memory_order_relaxed);
  VF_COUNT("obs:reclaims");
#if VF_ASAN
  (void)writer;
  delete o;
#else
  o->payload = kPoison;  // plain write
  o->state.store(kDead, std::memory_order_relaxed);
  w.graveyard[size_t(writer)].push_back(o);
#endif
}

void writer_role(World& w, int writer) {
  vf::Rng& rng = vf::tl_rng();
  std::deque<std::pair<Obj*, uint64_t>> pending;
  auto& tlog = w.ticks[size_t(writer)];
  auto& llog = w.lwms[size_t(writer)];
  uint64_t last_t = 0;
  auto poll = [&](bool first_after_tick) {
    Lwm m;
    m.writer = writer;
    w.scanning.fetch_add(1, std::memory_order_relaxed);
    m.call = vf::stamp_call();
    m.L = w.epoch->low_water_mark();
    m.ret = vf::stamp_ret();
    w.scanning.fetch_sub(1, std::memory_order_relaxed);
    if (first_after_tick) w.tick_pending.fetch_sub(1, std::memory_order_relaxed);
    if (llog.size() < kMaxLwmLog) llog.push_back(m);  // unlogged calls are simply not judged
    VF_COUNT("obs:lwm_calls");
    if (!pending.empty() && m.L < pending.back().second) {
      w.held_back.fetch_add(1, std::memory_order_relaxed);
      VF_COUNT("rare:reclaim_held_back_by_region");
    }
    while (!pending.empty() && pending.front().second <= m.L) {
      reclaim(w, writer, pending.front().first);
      pending.pop_front();
    }
    vf::progress();
  };
  for (int i = 0; i < w.cfg.quota && !vf::failed(); ++i) {
    Obj* n = new Obj;
    n->serial = w.serial.fetch_add(1, std::memory_order_relaxed) + 1;
    n->payload = payload_of(n->serial);
    Obj* old = w.cell.exchange(n, std::memory_order_acq_rel);
    if (rng.chance(1, 16)) vf::perturb("cb:c09_after_unlink");
    w.tick_pending.fetch_add(1, std::memory_order_relaxed);
    Tick tk;
    tk.writer = writer;
    tk.call = vf::stamp_call();
    tk.t = w.epoch->tick();
    tk.ret = vf::stamp_ret();
    tlog.push_back(tk);
    if (tk.t <= last_t) {
      vf::violation("c09:tick-not-increasing", "tick() returned a value not larger than an earlier tick of the same thread",
                    w.cfg.describe() + vf::fmt("\nprev=%lu now=%lu", (unsigned long)last_t, (unsigned long)tk.t));
    }
    last_t = tk.t;
    pending.emplace_back(old, tk.t);
    if (rng.chance(1, 16)) vf::perturb("cb:c09_after_tick");
    bool do_poll = (i % w.cfg.batch) == w.cfg.batch - 1;
    if (do_poll) poll(true); else w.tick_pending.fetch_sub(1, std::memory_order_relaxed);
    int guard = 0;
    while (pending.size() > 48 && !vf::failed()) {  // bounded backlog: wait for readers to leave
      if (++guard > 4) vf::raw_sleep_us(guard > 200 ? 500 : 30);
      else ::sched_yield();
      poll(false);
    }
  }
  for (auto& p : pending) w.leftover[size_t(writer)].push_back(p);
  w.writers_done.fetch_add(1, std::memory_order_release);
}

// ---------------------------------------------------------------- offline oracles
void offline_oracles(World& w, std::vector<Region>& regions, std::vector<Tick>& ticks, std::vector<Lwm>& lwms) {
  const std::string cfg = w.cfg.describe() + vf::fmt("\nepisode=%lu seed=%lu", (unsigned long)w.index, (unsigned long)w.seed);
  // --- ticks: unique, dense, real-time ordered
  std::sort(ticks.begin(), ticks.end(), [](const Tick& a, const Tick& b) { return a.t < b.t; });
  bool dense = true;
  for (size_t i = 0; i < ticks.size(); ++i) {
    if (ticks[i].t != i + 1) {
      dense = false;
      vf::violation("c09:tick-values-not-unique-dense",
                    "tick() values of one Epoch are not exactly 1..N (duplicate or skipped epoch)",
                    cfg + vf::fmt("\nposition %zu holds tick value %lu (writer %d)", i, (unsigned long)ticks[i].t, ticks[i].writer));
      break;
    }
  }
  {
    std::vector<const Tick*> by_call, by_ret;
    for (auto& t : ticks) { by_call.push_back(&t); by_ret.push_back(&t); }
    std::sort(by_call.begin(), by_call.end(), [](const Tick* a, const Tick* b) { return a->call < b->call; });
    std::sort(by_ret.begin(), by_ret.end(), [](const Tick* a, const Tick* b) { return a->ret < b->ret; });
    size_t j = 0;
    const Tick* maxp = nullptr;
    for (const Tick* b : by_call) {
      while (j < by_ret.size() && by_ret[j]->ret + kMargin < b->call) {
        if (!maxp || by_ret[j]->t > maxp->t) maxp = by_ret[j];
        ++j;
      }
      if (maxp && maxp->t >= b->t) {
        vf::violation("c09:tick-real-time-order",
                      "a tick() that began after another tick() had returned obtained a smaller-or-equal epoch",
                      cfg + vf::fmt("\nearlier tick t=%lu [%lu,%lu] writer %d; later tick t=%lu [%lu,%lu] writer %d",
                                    (unsigned long)maxp->t, (unsigned long)maxp->call, (unsigned long)maxp->ret, maxp->writer,
                                    (unsigned long)b->t, (unsigned long)b->call, (unsigned long)b->ret, b->writer));
        break;
      }
    }
  }
  if (!dense) return;
  vf::progress();
  const size_t N = ticks.size();
  // --- oracle 2
  std::sort(lwms.begin(), lwms.end(), [](const Lwm& a, const Lwm& b) { return a.call < b.call; });
  std::vector<const Tick*> by_ret;
  for (auto& t : ticks) by_ret.push_back(&t);
  std::sort(by_ret.begin(), by_ret.end(), [](const Tick* a, const Tick* b) { return a->ret < b->ret; });
  std::vector<const Region*> by_enter;
  for (auto& r : regions) by_enter.push_back(&r);
  std::sort(by_enter.begin(), by_enter.end(), [](const Region* a, const Region* b) { return a->enter_ret < b->enter_ret; });
  std::vector<const Region*> pref_latest_exit(by_enter.size());
  for (size_t i = 0; i < by_enter.size(); ++i) {
    pref_latest_exit[i] = (i == 0 || by_enter[i]->exit_call > pref_latest_exit[i - 1]->exit_call) ? by_enter[i] : pref_latest_exit[i - 1];
  }
  // for oracle 3: regions by exit_ret descending with suffix-min enter_call
  std::vector<const Region*> by_exit;
  for (auto& r : regions) by_exit.push_back(&r);
  std::sort(by_exit.begin(), by_exit.end(), [](const Region* a, const Region* b) { return a->exit_ret < b->exit_ret; });
  std::vector<const Region*> suf_earliest_enter(by_exit.size());
  for (size_t i = by_exit.size(); i-- > 0;) {
    suf_earliest_enter[i] = (i + 1 == by_exit.size() || by_exit[i]->enter_call < suf_earliest_enter[i + 1]->enter_call) ? by_exit[i] : suf_earliest_enter[i + 1];
  }
  std::vector<uint64_t> pref_max_t(by_ret.size());
  for (size_t i = 0; i < by_ret.size(); ++i) pref_max_t[i] = std::max(by_ret[i]->t, i ? pref_max_t[i - 1] : 0);

  // pm_call[t] = latest call stamp among tick(1..t): a region whose enter returned before that stamp (and before
  // the scan began) recorded an epoch < t, so a scan that sees it cannot return L >= t.
  std::vector<uint64_t> pm_call(N + 1, 0);
  for (size_t i = 0; i < N; ++i) pm_call[i + 1] = std::max(pm_call[i], ticks[i].call);  // ticks sorted by t, dense
  vf::progress();
  uint64_t checked2 = 0, checked3_idle = 0, checked3_bound = 0;
  for (const Lwm& m : lwms) {
    vf::progress();
    if (m.L != UINT64_MAX && m.L > N) {
      vf::violation("c09:mark-above-global-epoch", "low_water_mark() returned a finite value larger than any epoch ever issued",
                    cfg + vf::fmt("\nL=%lu ticks=%zu", (unsigned long)m.L, N));
      return;
    }
    size_t lc = size_t(std::min<uint64_t>(m.L, N));
    uint64_t X = std::min(pm_call[lc], m.call);  // enter.ret < X  ==>  recorded epoch < some t <= L, and visible to the scan
    if (X > kMargin) {
      // regions whose enter returned before X
      size_t lo = 0, hi = by_enter.size();
      while (lo < hi) {
        size_t mid = (lo + hi) / 2;
        if (by_enter[mid]->enter_ret + kMargin < X) lo = mid + 1; else hi = mid;
      }
      if (lo > 0) {
        ++checked2;
        const Region* r = pref_latest_exit[lo - 1];
        if (r->exit_call > m.ret + kMargin) {
          // find a witness tick
          const Tick* wt = nullptr;
          for (auto& t : ticks) if (t.t <= m.L && r->enter_ret + kMargin < t.call) { wt = &t; break; }
          vf::violation("c09:lwm-reached-tick-while-older-region-open",
                        "low_water_mark() reached a tick although a region entered before that tick was still open when the call returned",
                        cfg + "\n" + region_str(*r) +
                            vf::fmt("\nlow_water_mark [%lu,%lu] returned %lu (writer %d)\ntick t=%lu [%lu,%lu] (writer %d)",
                                    (unsigned long)m.call, (unsigned long)m.ret, (unsigned long)m.L, m.writer,
                                    (unsigned long)(wt ? wt->t : 0), (unsigned long)(wt ? wt->call : 0),
                                    (unsigned long)(wt ? wt->ret : 0), wt ? wt->writer : -1));
          return;
        }
      }
    }
    // --- oracle 3
    {
      // regions with exit_ret + margin >= m.call  (may overlap the scan)
      size_t lo = 0, hi = by_exit.size();
      while (lo < hi) {
        size_t mid = (lo + hi) / 2;
        if (by_exit[mid]->exit_ret + kMargin < m.call) lo = mid + 1; else hi = mid;
      }
      const Region* oldest = lo < by_exit.size() ? suf_earliest_enter[lo] : nullptr;
      if (oldest == nullptr || oldest->enter_call > m.ret + kMargin) {
        ++checked3_idle;
        if (m.L != UINT64_MAX) {
          vf::violation("c09:mark-held-back-with-no-region-open",
                        "low_water_mark() returned a finite value although no region overlapped the call "
                        "(an unlocked / released / reused slot holds the mark back)",
                        cfg + vf::fmt("\nlow_water_mark [%lu,%lu] returned %lu (writer %d)", (unsigned long)m.call,
                                      (unsigned long)m.ret, (unsigned long)m.L, m.writer));
          return;
        }
      } else if (m.L != UINT64_MAX) {
        // lower bound: the oldest overlapping region observed at least every tick returned before its enter call
        size_t a = 0, b = by_ret.size();
        while (a < b) {
          size_t mid = (a + b) / 2;
          if (by_ret[mid]->ret + kMargin < oldest->enter_call) a = mid + 1; else b = mid;
        }
        uint64_t bound = a ? pref_max_t[a - 1] : 0;
        ++checked3_bound;
        if (m.L < bound) {
          vf::violation("c09:mark-below-every-overlapping-region",
                        "low_water_mark() is smaller than the epoch any region overlapping the call can have observed",
                        cfg + "\noldest overlapping " + region_str(*oldest) +
                            vf::fmt("\nlow_water_mark [%lu,%lu] returned %lu, lower bound %lu", (unsigned long)m.call,
                                    (unsigned long)m.ret, (unsigned long)m.L, (unsigned long)bound));
          return;
        }
      }
    }
  }
  VF_COUNT_N("obs:oracle2_lwm_with_older_region", checked2);
  VF_COUNT_N("obs:oracle3_lwm_no_overlap", checked3_idle);
  VF_COUNT_N("obs:oracle3_lwm_lower_bound", checked3_bound);
}

// ---------------------------------------------------------------- ebr episode
const std::vector<std::string> kStallPoints = {"epoch:lock_loaded_version", "epoch:scan_slot", "epoch:scan_slot",
                                               "cb:c09_region", "cb:c09_after_tick", "cb:c09_after_unlink",
                                               "ida:alloc_before_cas", "ida:dealloc_before_cas"};

void run_ebr(uint64_t seed, uint64_t index) {
  uint64_t es = vf::mix(seed, index, 0xc09);
  vf::Rng r(es);
  World w;
  g_world = &w;
  w.seed = seed;
  w.index = index;
  Config& c = w.cfg;
  c.accessor_style = r.chance(3, 5);
  c.writers = int(r.range(1, 3));
  c.readers = int(r.pick<int>({1, 2, 3, 4, 6, 8}));
  c.quota = int(r.pick<int>({60, 150, 300, 600})) / (VF_TSAN ? 2 : 1);
  c.max_depth = int(r.range(1, 4));
  c.long_pct = int(r.pick<int>({0, 10, 30, 70}));
  c.handoff_pct = c.accessor_style ? int(r.pick<int>({0, 20, 60})) : 0;
  c.release_pct = int(r.pick<int>({10, 40, 80}));
  c.churn = !c.accessor_style && r.chance(1, 3);
  c.batch = int(r.pick<int>({1, 1, 2, 5}));
  c.pin = int(r.pick<int>({0, 0, 1, 2, 3}));
  c.policy = vf::draw_policy(r, kStallPoints, 400, 8000);
  for (auto& m : w.slot_seen_mask) m.store(0, std::memory_order_relaxed);
  int nthreads = c.writers + c.readers;
  w.regions.resize(size_t(nthreads));
  w.ticks.resize(size_t(c.writers));
  w.lwms.resize(size_t(c.writers));
  w.leftover.resize(size_t(c.writers));
  w.graveyard.resize(size_t(c.writers));
  w.epoch = new Epoch;
  {
    Obj* first = new Obj;
    first->serial = w.serial.fetch_add(1) + 1;
    first->payload = payload_of(first->serial);
    w.cell.store(first, std::memory_order_release);
  }
  vf::watchdog().set_context(c.describe() + vf::fmt(" episode=%lu", (unsigned long)index));
  if (vf::args().get("verbose", 0)) fprintf(stderr, "[c09] %.2f ebr episode %lu %s\n", vf::now_s(), (unsigned long)index, c.describe().c_str());
  vf::pin_cpus(c.pin);
  vf::watchdog().arm(true);
  vf::run_threads(nthreads, es, [&](int i) {
    if (i < c.writers) writer_role(w, i);
    else reader_role(w, i, es);
  });
  vf::disable_policy();
  vf::pin_cpus(0);
  // Regions handed off but not adopted: finish them here (main thread), then every region is closed.
  {
    vf::Rng mr(vf::mix(es, 0xfeed));
    RegionRunner rr {w, nthreads, mr, w.regions[0]};
    while (true) {
      Moved m;
      {
        std::lock_guard<std::mutex> g(w.handoff_mu);
        if (w.handoff.empty()) break;
        m = std::move(w.handoff.front());
        w.handoff.pop_front();
      }
      Accessor acc = std::move(m.acc);
      w.cfg.handoff_pct = 0;
      rr.run(&acc, &m);
    }
  }
  // Quiescence: no region open; idle unlocked accessors are still alive, many were released/reused.
  {
    Lwm m;
    m.writer = -1;
    m.call = vf::stamp_call();
    m.L = w.epoch->low_water_mark();
    m.ret = vf::stamp_ret();
    VF_COUNT("obs:quiescent_lwm_checks");
    if (m.L != UINT64_MAX) {
      vf::violation("c09:mark-held-back-at-quiescence",
                    "every region is closed (idle and released accessors only) but low_water_mark() is finite",
                    c.describe() + vf::fmt("\nL=%lu idle_accessors_alive=%zu accessor_number=%zu", (unsigned long)m.L,
                                           w.idle_kept.size(), w.epoch->accessor_number()));
    }
    // no reader exists any more: whatever is still pending is reclaimed here
    for (size_t wr = 0; wr < w.leftover.size(); ++wr) {
      for (auto& p : w.leftover[wr]) reclaim(w, int(wr), p.first);
    }
  }
  std::vector<Region> regions;
  std::vector<Tick> ticks;
  std::vector<Lwm> lwms;
  for (auto& v : w.regions) regions.insert(regions.end(), v.begin(), v.end());
  for (auto& v : w.ticks) ticks.insert(ticks.end(), v.begin(), v.end());
  for (auto& v : w.lwms) lwms.insert(lwms.end(), v.begin(), v.end());
  if (vf::args().get("verbose", 0)) fprintf(stderr, "[c09] %.2f joined: regions=%zu ticks=%zu lwms=%zu\n", vf::now_s(), regions.size(), ticks.size(), lwms.size());
  if (!vf::failed()) offline_oracles(w, regions, ticks, lwms);
  if (vf::args().get("verbose", 0)) fprintf(stderr, "[c09] %.2f oracle done\n", vf::now_s());
  vf::watchdog().arm(false);

  uint64_t fp = vf::mix(uint64_t(c.accessor_style) | uint64_t(c.writers) << 1 | uint64_t(c.readers) << 4 |
                            uint64_t(c.max_depth) << 8 | uint64_t(c.churn) << 12 | uint64_t(c.batch) << 13,
                        uint64_t(c.long_pct) | uint64_t(c.handoff_pct) << 8 | uint64_t(c.pin) << 16);
  {
    // order in which writers obtained the first 128 epochs
    std::sort(ticks.begin(), ticks.end(), [](const Tick& a, const Tick& b) { return a.t < b.t; });
    for (size_t i = 0; i < ticks.size() && i < 128; ++i) fp = vf::mix(fp, uint64_t(ticks[i].writer) + 1);
    fp = vf::mix(fp, std::min<uint64_t>(w.held_back.load(), 15), std::min<uint64_t>(w.handoffs.load(), 15));
  }
  bool nontrivial = w.held_back.load() > 0 || w.handoffs.load() > 0;
  vf::evaluated(fp, nontrivial);
  if (nontrivial) {
    vf::sample("{\"mode\": \"ebr\", \"config\": " + vf::jstr(c.describe()) +
               vf::fmt(", \"regions\": %zu, \"ticks\": %zu, \"lwm_calls\": %zu, \"polls_held_back_by_open_region\": %lu, "
                       "\"regions_handed_to_other_thread\": %lu, \"reclaimed\": %lu}",
                       regions.size(), ticks.size(), lwms.size(), (unsigned long)w.held_back.load(),
                       (unsigned long)w.handoffs.load(), (unsigned long)w.reclaimed.load()), 3);
  }
  // teardown
  w.idle_kept.clear();
  delete w.cell.load();
  for (auto& g : w.graveyard) for (Obj* o : g) delete o;
  delete w.epoch;
  g_world = nullptr;
}

// ---------------------------------------------------------------- solo episodes (exact model)
struct Worker {
  std::mutex mu;
  std::condition_variable cv;
  int cmd = 0;  // 1 lock, 2 unlock, 3 exit
  bool busy = false;
  std::thread th;
  size_t slot = 0;
};

void run_solo(uint64_t seed, uint64_t index) {
  uint64_t es = vf::mix(seed, index, 0x5010);
  vf::Rng r(es);
  bool accessor_style = r.chance(1, 2);
  int nops = int(r.range(40, 400));
  Epoch* epoch = new Epoch;
  uint64_t model_version = 0;
  uint64_t fp = vf::mix(es & 1, uint64_t(accessor_style));
  uint64_t lwm_checks = 0, finite_marks = 0;
  std::string trace;
  auto tr = [&](const std::string& s) { if (trace.size() < 6000) trace += s + "; "; };
  auto fail = [&](const char* key, const std::string& msg) {
    vf::violation(key, msg, vf::fmt("solo episode=%lu seed=%lu style=%s\nscript: ", (unsigned long)index, (unsigned long)seed,
                                    accessor_style ? "accessor" : "thread-local") + trace);
  };
  if (accessor_style) {
    struct MA { Accessor acc; bool valid = false; int depth = 0; uint64_t g = 0; };
    int n = int(r.range(1, 12));
    const size_t na = size_t(n);
    std::vector<MA> as(na);
    size_t live = 0, peak = 0;
    for (int op = 0; op < nops && !vf::failed(); ++op) {
      MA& a = as[r.below(as.size())];
      uint64_t x = r.below(100);
      if (x < 15) {
        if (!a.valid) {
          a.acc = epoch->create_accessor();
          a.valid = true; a.depth = 0;
          ++live; peak = std::max(peak, live);
          tr(vf::fmt("create->slot%zu", a.acc._index));
          if (!bool(a.acc)) fail("c09:solo-created-accessor-invalid", "create_accessor() returned an unusable accessor");
        }
      } else if (x < 45) {
        if (a.valid && a.depth < 4) {
          a.acc.lock();
          if (a.depth++ == 0) a.g = model_version;
          tr(vf::fmt("lock slot%zu d=%d", a.acc._index, a.depth));
        }
      } else if (x < 70) {
        if (a.valid && a.depth > 0) {
          a.acc.unlock();
          --a.depth;
          tr(vf::fmt("unlock slot%zu d=%d", a.acc._index, a.depth));
        }
      } else if (x < 78) {
        if (a.valid && a.depth == 0) {
          if (r.chance(1, 2)) a.acc.release(); else a.acc = Accessor {};
          a.valid = false; --live;
          tr("release");
          if (bool(a.acc)) fail("c09:solo-released-accessor-valid", "a released accessor still reports usable");
        }
      } else if (x < 86) {
        MA& b = as[r.below(as.size())];
        if (&a != &b && a.valid && !b.valid) {  // move a (possibly locked) accessor into an empty variable
          if (r.chance(1, 2)) b.acc = std::move(a.acc);
          else { Accessor tmp {std::move(a.acc)}; b.acc = std::move(tmp); }
          b.valid = true; b.depth = a.depth; b.g = a.g;
          a.valid = false; a.depth = 0;
          tr(vf::fmt("move slot%zu", b.acc._index));
          if (bool(a.acc) || !bool(b.acc)) fail("c09:solo-move-validity", "moved-from accessor usable or moved-to accessor unusable");
        }
      } else {
        uint64_t t = epoch->tick();
        ++model_version;
        tr(vf::fmt("tick->%lu", (unsigned long)t));
        if (t != model_version) fail("c09:solo-tick-value", vf::fmt("tick() returned %lu, model %lu", (unsigned long)t, (unsigned long)model_version));
      }
      uint64_t expect = UINT64_MAX;
      for (auto& m : as) if (m.valid && m.depth > 0) expect = std::min(expect, m.g);
      uint64_t got = epoch->low_water_mark();
      ++lwm_checks;
      if (expect != UINT64_MAX) ++finite_marks;
      if (got != expect) {
        fail("c09:solo-low-water-mark-differs-from-model",
             vf::fmt("sequential script: low_water_mark() = %lu, model says %lu", (unsigned long)got, (unsigned long)expect));
      }
      // slot reuse is documented as "may be reused": observed, not demanded (C09 only says a released accessor
      // never holds the mark back, which the model comparison above decides)
      if (epoch->accessor_number() == peak) VF_COUNT("obs:solo_slots_reused_exactly"); else VF_COUNT("obs:solo_slots_not_reused");
      fp = vf::mix(fp, x / 8, expect == UINT64_MAX ? 0 : expect + 1);
    }
    for (auto& m : as) { while (m.valid && m.depth > 0) { m.acc.unlock(); --m.depth; } }
    if (epoch->low_water_mark() != UINT64_MAX && !vf::failed()) fail("c09:solo-low-water-mark-differs-from-model", "all unlocked but mark finite");
    as.clear();
  } else {
    int n = int(r.range(1, 5));
    const size_t nw = size_t(n);
    std::vector<Worker> ws(nw);
    std::vector<int> depth(size_t(n), 0);
    std::vector<uint64_t> g(size_t(n), 0);
    for (int k = 0; k < n; ++k) {
      Worker* wk = &ws[size_t(k)];
      wk->th = std::thread([wk, epoch, es, k] {
        vf::thread_begin(es, k);
        std::unique_lock<std::mutex> l(wk->mu);
        while (true) {
          wk->cv.wait(l, [&] { return wk->busy; });
          int c = wk->cmd;
          if (c == 1) epoch->lock();
          else if (c == 2) epoch->unlock();
          wk->slot = ::babylon::ThreadId::current_thread_id<Epoch>().value;
          wk->busy = false;
          wk->cv.notify_all();
          if (c == 3) break;
        }
        l.unlock();
        vf::thread_end();
      });
    }
    auto send = [&](int k, int cmd) {
      Worker& wk = ws[size_t(k)];
      std::unique_lock<std::mutex> l(wk.mu);
      wk.cmd = cmd;
      wk.busy = true;
      wk.cv.notify_all();
      wk.cv.wait(l, [&] { return !wk.busy; });
    };
    for (int op = 0; op < nops && !vf::failed(); ++op) {
      int k = int(r.below(uint64_t(n)));
      uint64_t x = r.below(100);
      if (x < 40) {
        if (depth[size_t(k)] < 4) {
          send(k, 1);
          if (depth[size_t(k)]++ == 0) g[size_t(k)] = model_version;
          tr(vf::fmt("T%d lock d=%d", k, depth[size_t(k)]));
        }
      } else if (x < 75) {
        if (depth[size_t(k)] > 0) {
          send(k, 2);
          --depth[size_t(k)];
          tr(vf::fmt("T%d unlock d=%d", k, depth[size_t(k)]));
        }
      } else {
        uint64_t t = epoch->tick();
        ++model_version;
        tr(vf::fmt("tick->%lu", (unsigned long)t));
        if (t != model_version) fail("c09:solo-tick-value", vf::fmt("tick() returned %lu, model %lu", (unsigned long)t, (unsigned long)model_version));
      }
      uint64_t expect = UINT64_MAX;
      for (int q = 0; q < n; ++q) if (depth[size_t(q)] > 0) expect = std::min(expect, g[size_t(q)]);
      uint64_t got = epoch->low_water_mark();
      ++lwm_checks;
      if (expect != UINT64_MAX) ++finite_marks;
      if (got != expect) {
        fail("c09:solo-low-water-mark-differs-from-model",
             vf::fmt("lock-stepped thread-local script: low_water_mark() = %lu, model says %lu", (unsigned long)got, (unsigned long)expect));
      }
      fp = vf::mix(fp, x / 8 + uint64_t(k) * 16, expect == UINT64_MAX ? 0 : expect + 1);
    }
    for (int k = 0; k < n; ++k) {
      while (depth[size_t(k)] > 0) { send(k, 2); --depth[size_t(k)]; }
      send(k, 3);
      ws[size_t(k)].th.join();
    }
    if (epoch->low_water_mark() != UINT64_MAX && !vf::failed()) fail("c09:solo-low-water-mark-differs-from-model", "all threads gone but mark finite");
  }
  VF_COUNT_N("obs:solo_lwm_checks", lwm_checks);
  VF_COUNT_N("obs:solo_finite_marks", finite_marks);
  vf::evaluated(fp, finite_marks > 0);
  if (finite_marks > 0) {
    vf::sample("{\"mode\": \"solo\", \"style\": " + vf::jstr(accessor_style ? "accessor" : "thread-local") +
               vf::fmt(", \"ops\": %d, \"lwm_checked_vs_model\": %lu, \"script_head\": ", nops, (unsigned long)lwm_checks) +
               vf::jstr(trace.substr(0, 400)) + "}", 4);
  }
  delete epoch;
}

}  // namespace

int main(int argc, char** argv) {
  vf::init(argc, argv, "C09", "c09_epoch");
  auto& a = vf::args();
  std::string mode = a.mode.empty() ? "all" : a.mode;
  auto& wd = vf::watchdog();
  // C09 has no liveness part: a hang of the harness is inconclusive, never a violation
  wd.classify = []() -> std::string { return ""; };
  wd.dump_extra = []() -> std::string {
    World* w = g_world;
    if (!w || !w->epoch) return "";
    return vf::fmt("epoch: version=%lu accessor_number=%zu writers_done=%d\n", (unsigned long)w->epoch->_version.load(),
                   w->epoch->accessor_number(), w->writers_done.load());
  };
  wd.start();
  uint64_t n_ebr = 0, n_solo = 0;
  if (mode == "all" || mode == "ebr") n_ebr = vf::budget(220, 5000);
  if (mode == "all" || mode == "solo") n_solo = vf::budget(300, 6000);
  uint64_t e = 0;
  auto want = [&](uint64_t idx) { return a.only_episode < 0 || uint64_t(a.only_episode) == idx; };
  for (uint64_t i = 0; i < n_ebr && !vf::failed(); ++i, ++e) if (want(e)) run_ebr(a.seed, e);
  for (uint64_t i = 0; i < n_solo && !vf::failed(); ++i, ++e) if (want(e)) run_solo(a.seed, e);
  wd.shutdown();
  vf::extra("fence_paths", "\"entry fence of Epoch::lock (store slot; seq_cst fence; load): strength not decidable by this family on x86 (DESIGN §1)\"");
  return vf::finish();
}
