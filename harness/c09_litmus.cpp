// C09 — store-buffering (Dekker) litmus for the entry fence of babylon::Epoch::lock.
//
// DESIGN §1 first listed the strength of that fence as "not decidable on x86"; an
// independently seeded change (seeded/C09-a1: seq_cst -> acq_rel, which is a compiler
// barrier only on x86) came with a litmus that exposes it in well under a second, so the
// monitor now contains that experiment, driven through the public API only:
//
//   reader R                                   writer W (a reclaimer)
//   (k plain stores to lines owned elsewhere)  cell.store(i)              // unlink i-1
//   region.lock()                              t   = epoch.tick()
//   seen = cell.load()                         lwm = epoch.low_water_mark()
//   ... stays inside the region until W finished its scan ...
//
// Oracle (sound: it cannot fire on correct code): if R read the OLD value (seen == i-1) it may
// still hold the object unlinked before tick t and it is inside its region during W's whole
// scan, so low_water_mark() must not have returned >= t. If R entered too late to be counted
// by the scan it is guaranteed to read the new value, and the round is not judged.
// The "far" stores are ordinary application stores that keep R's store buffer busy (x86
// drains it in order), which is what lets a too-weak fence show.
//
// One evaluation = one block of rounds with a drawn configuration (region style, number of
// far stores, W's delay range). Non-trivial = the block contained rounds in which the reader
// really saw the old object (the judged, racing outcome).
#include "common/vf.h"

#include "babylon/concurrent/epoch.h"

#include <atomic>
#include <thread>

using ::babylon::Epoch;

namespace {

struct alignas(128) Padded {
  std::atomic<uint64_t> v {0};
};
constexpr size_t kFar = 12;

struct World {
  Epoch epoch;
  Padded cell, go, r_seen, r_done, r_out, w_done, stop;
  Padded far_lines[kFar];
  std::atomic<size_t> far_n {kFar};
};

inline bool spin_until(const std::atomic<uint64_t>& a, uint64_t value) {
  size_t spins = 0;
  while (a.load(std::memory_order_acquire) != value) {
    _mm_pause();
    if (++spins > 20000) { ::sched_yield(); spins = 0; }
  }
  return true;
}

void helper_thread(World& w) {
  uint64_t n = 0;
  while (w.stop.v.load(std::memory_order_relaxed) == 0) {
    for (auto& line : w.far_lines) line.v.store(++n, std::memory_order_relaxed);
    for (int i = 0; i < 20; ++i) _mm_pause();
  }
}

template <typename Region>
void reader_thread(World& w, Region& region, uint64_t first) {
  for (uint64_t i = first;; ++i) {
    (void)w.cell.v.load(std::memory_order_relaxed);  // keep a (soon stale) copy in our cache
    size_t spins = 0;
    uint64_t g;
    while ((g = w.go.v.load(std::memory_order_acquire)) != i) {
      if (g == UINT64_MAX) return;
      _mm_pause();
      if (++spins > 20000) { ::sched_yield(); spins = 0; }
    }
    size_t fn = w.far_n.load(std::memory_order_relaxed);
    for (size_t k = 0; k < fn; ++k) w.far_lines[k].v.store(i, std::memory_order_relaxed);
    region.lock();
    auto seen = w.cell.v.load(std::memory_order_acquire);
    w.r_seen.v.store(seen, std::memory_order_relaxed);
    w.r_done.v.store(i, std::memory_order_release);
    spin_until(w.w_done.v, i);  // do not leave the region before the writer finished its scan
    region.unlock();
    w.r_out.v.store(i, std::memory_order_release);
    vf::progress();
  }
}

}  // namespace

int main(int argc, char** argv) {
  vf::init(argc, argv, "C09", "c09_litmus");
  // No schedule-point hook in this experiment: the hook's counter update is a locked RMW that
  // drains the reader's store buffer right before the slot store and closes the very window
  // the litmus is about (measured: 0 violations in 4.8M rounds with the hook installed against
  // the weakened fence, hundreds without it).
#ifdef BABYLON_VERIF
  ::babylon::verif::point_hook = nullptr;
#endif
  auto& wd = vf::watchdog();
  wd.classify = []() -> std::string { return "stuck:litmus-round-never-completed"; };
  wd.start();
  uint64_t blocks = vf::budget(600, 30000);
  uint64_t rounds_per_block = uint64_t(vf::args().get("rounds", 8000));
  vf::Rng rng(vf::mix(vf::args().seed, 0xc09511));
  uint64_t total_rounds = 0, total_old = 0;
  for (int style = 0; style < 2 && !vf::failed(); ++style) {  // 0 = Accessor, 1 = thread-local
    World w;
    auto accessor = style == 0 ? w.epoch.create_accessor() : Epoch::Accessor {};
    vf::expect_threads(2);
    std::thread helper([&] { vf::thread_begin(vf::args().seed, 100); helper_thread(w); vf::thread_end(); });
    std::thread reader([&] {
      vf::thread_begin(vf::args().seed, 101);
      if (style == 0) reader_thread(w, accessor, 1); else reader_thread(w, w.epoch, 1);
      vf::thread_end();
    });
    wd.arm(true);
    uint64_t i = 0;
    for (uint64_t b = 0; b < blocks / 2 + 1 && !vf::failed(); ++b) {
      size_t far_n = size_t(rng.pick<uint64_t>({0, 2, 6, 12, 12}));
      uint64_t max_delay = rng.pick<uint64_t>({200, 1200, 1200, 5000});
      w.far_n.store(far_n, std::memory_order_relaxed);
      wd.set_context(vf::fmt("style=%s far_stores=%zu max_delay=%lu block=%lu", style ? "thread-local" : "accessor", far_n,
                             (unsigned long)max_delay, (unsigned long)b));
      uint64_t old_seen = 0;
      for (uint64_t r = 0; r < rounds_per_block && !vf::failed(); ++r) {
        ++i;
        uint64_t delay = rng.below(max_delay);
        w.go.v.store(i, std::memory_order_release);
        auto begin = __rdtsc();
        while (__rdtsc() - begin < delay) {}
        // unlink + tick + scan, exactly as a reclaimer does
        w.cell.v.store(i, std::memory_order_release);
        auto t = w.epoch.tick();
        auto lwm = w.epoch.low_water_mark();
        w.w_done.v.store(i, std::memory_order_release);
        spin_until(w.r_done.v, i);
        auto seen = w.r_seen.v.load(std::memory_order_relaxed);
        if (seen == i - 1) {
          ++old_seen;
          if (lwm >= t) {
            vf::violation("sb-litmus:lwm-reached-tick-while-reader-held-older-object",
                          "a reader inside its region read the object unlinked before tick t, yet low_water_mark() "
                          "returned >= t during that region: the object would have been reclaimed under the reader",
                          vf::fmt("style=%s far_stores=%zu round=%lu tick=%lu low_water_mark=%lu", style ? "thread-local" : "accessor",
                                  far_n, (unsigned long)i, (unsigned long)t, (unsigned long)lwm));
          }
        }
        spin_until(w.r_out.v, i);
        (void)w.epoch.low_water_mark();  // a reclaimer polls the mark; also leaves R's slot line shared
        vf::progress();
      }
      total_rounds += rounds_per_block;
      total_old += old_seen;
      VF_COUNT_N("obs:litmus_rounds", rounds_per_block);
      VF_COUNT_N("obs:litmus_reader_saw_old_object", old_seen);
      vf::evaluated(vf::mix(uint64_t(style), far_n, max_delay, old_seen > 0 ? (old_seen > 100 ? 2 : 1) : 0), old_seen > 0);
      if (b < 2) vf::sample(vf::fmt("{\"style\": \"%s\", \"far_stores\": %zu, \"max_delay_tsc\": %lu, \"rounds\": %lu, \"reader_saw_old\": %lu}",
                                    style ? "thread-local" : "accessor", far_n, (unsigned long)max_delay,
                                    (unsigned long)rounds_per_block, (unsigned long)old_seen));
    }
    wd.arm(false);
    w.go.v.store(UINT64_MAX, std::memory_order_release);
    w.stop.v.store(1, std::memory_order_relaxed);
    reader.join();
    helper.join();
  }
  vf::extra("litmus", vf::fmt("{\"rounds\": %lu, \"judged_rounds_reader_saw_old\": %lu}", (unsigned long)total_rounds,
                              (unsigned long)total_old));
  if (total_old == 0) vf::shortfall("the reader never saw the old object: no round was judged");
  wd.shutdown();
  return vf::finish();
}
