// C10 — GarbageCollector: every reclaimer handed to retire() is invoked exactly
// once, only after every critical region that was open when it was retired has
// closed, and no later than the return of stop() / of the destructor; retire
// blocks while the queue is full and loses nothing.
//
// One episode: fresh GarbageCollector<Reclaimer> (queue capacity 1/2/8/1024 or
// default), 1..6 retiring threads (own short regions between / around retires,
// retire(R) and batch retire(R, epoch) after one tick), 0..3 region holders
// (thread-local style or Accessors, never both on one collector; accessor
// regions may be closed by another thread), then stop() / destructor:
//   stop mode "idle"    every blocking region closed before stop()/~ is called
//                       (holders may keep opening *new* regions during stop());
//   stop mode "across"  1..2 regions opened shortly before the last j retires
//                       stay open across the call of stop() and are closed by
//                       holder threads a drawn delay later (never by the thread
//                       that sits in stop(), so a stop() that waits is fine too).
// The collector's usleep() back-off is interposed (state + optional shortening:
// removing delay never adds behaviour a correct collector may rely on).
//
// Oracles:
//   exactly-once   per-id invocation counter: >1 ever, or 0 after stop()/~
//                  returned for an id whose retire() returned before stop() was
//                  called. A missing invocation is keyed by shape: some region
//                  that can block it was still open when stop() was called
//                  (DESIGN §6 suspected defect) vs. nothing could block it.
//   not-early      online: region-open set snapshotted at the retire call, every
//                  snapshotted region must have begun its exit when the
//                  reclaimer runs; offline on stamps: region.enter.ret <
//                  retire.call  ==>  region.exit.call <= invoke stamp.
//   publication    plain payload written before retire(), plain per-region note
//                  written before unlock: both read inside the reclaimer (TSan).
//   progress       retire()/stop() that never return with nothing able to block
//                  them (stuck rule).
#include <deque>

#include "common/vf.h"

#include "babylon/concurrent/garbage_collector.h"

namespace {

using ::babylon::Epoch;
using Accessor = ::babylon::Epoch::Accessor;

constexpr uint64_t kMargin = 2000;   // cycles; every cross-thread ordering claim keeps this distance
constexpr size_t kMaxRegions = 1024; // per table slot and episode

struct World;
struct Reclaimer {
  World* w = nullptr;
  int64_t id = -1;
  bool moved_from = false;
  Reclaimer() = default;
  Reclaimer(World* world, int64_t i) : w(world), id(i) {}
  Reclaimer(Reclaimer&& o) noexcept : w(o.w), id(o.id), moved_from(o.moved_from) { o.moved_from = true; }
  Reclaimer& operator=(Reclaimer&& o) noexcept {
    if (this != &o) {
      dispose();
      w = o.w; id = o.id; moved_from = o.moved_from;
      o.moved_from = true;
    }
    return *this;
  }
  Reclaimer(const Reclaimer&) = delete;
  Reclaimer& operator=(const Reclaimer&) = delete;
  ~Reclaimer() { dispose(); }
  void dispose() noexcept;
  void operator()() noexcept;
};
using GC = ::babylon::GarbageCollector<Reclaimer>;

struct RegionRec { uint64_t enter_call = 0, enter_ret = 0, exit_call = UINT64_MAX, exit_ret = UINT64_MAX; int closer = -1; };
struct TableSlot {
  std::atomic<uint64_t> open_serial {0};  // serial of the region currently open in this slot (0 = none)
  std::atomic<uint64_t> exit_begun {0};   // highest serial whose exit has begun
  std::vector<RegionRec> log;             // reserved up front, element s-1 = region s
  std::vector<uint64_t> note;             // plain cells, written once right before the unlock of region s
  uint64_t next_serial = 0;               // owner only
};
struct SnapItem { uint32_t slot; uint64_t serial; };
struct Task {
  std::atomic<uint32_t> count {0};
  std::atomic<uint64_t> invoke_stamp {0};
  std::atomic<uint64_t> destroyed_stamp {0};  // a live (not moved-from) reclaimer was destroyed
  uint64_t ref_call = 0;      // stamp before tick / retire: regions entered before it block this task
  uint64_t retire_ret = 0;
  uint64_t epoch = 0;         // explicit lowest_epoch (0 = retire(R))
  uint64_t payload = 0;       // plain, written before retire
  int retirer = -1;
  bool inside_own_region = false;
  std::vector<SnapItem> snap; // plain, written before retire
};

struct Config {
  bool accessor_style = true;
  int cap = 8;              // 0 = default queue
  int retirers = 2, holders = 1, quota = 20;
  int across = 0;           // number of regions held open across stop() (0 = idle stop)
  int gate_j = 1;           // across: the regions open before the last j retires
  bool dtor = false;        // idle only: destructor instead of stop()
  int explicit_pct = 30;    // % of batch retires with an explicit epoch
  int reader_pct = 40;      // % of retires preceded by a short region of the retirer
  int sleep_cap_us = 0;     // 0 = collector sleeps as long as it asks for
  int close_delay_us = 0;   // across: delay between "stop() was called" and the region exit
  int pin = 0;
  std::string policy;
  std::string describe() const {
    return vf::fmt("style=%s cap=%d retirers=%d holders=%d quota=%d stop=%s across=%d gate_j=%d explicit=%d%% reader=%d%% "
                   "sleep_cap=%dus close_delay=%dus pin=%d policy=[%s]",
                   accessor_style ? "accessor" : "thread-local", cap, retirers, holders, quota,
                   across ? "across-open-region" : (dtor ? "destructor" : "idle"), across, gate_j, explicit_pct, reader_pct,
                   sleep_cap_us, close_delay_us, pin, policy.c_str());
  }
};

struct Handoff { Accessor acc; uint32_t slot; uint64_t serial; bool across; };

struct World {
  Config cfg;
  uint64_t seed = 0, index = 0;
  GC* gc = nullptr;
  size_t ntasks = 0;
  std::unique_ptr<Task[]> tasks;
  std::vector<TableSlot*> table;  // one per retirer + holder (pooled across episodes: big allocations are slow under TSan)
  std::atomic<uint64_t> retire_seq {0}, retired_done {0};
  std::atomic<int> across_open {0}, across_closed {0};
  std::atomic<bool> stop_called {false}, finish {false}, fatal {false};
  std::atomic<uint64_t> blocked_full {0}, held_back {0}, invoked {0};
  std::mutex handoff_mu;
  std::deque<Handoff> handoff;
  std::mutex order_mu;
  std::vector<int> invoke_order;  // retirer of the first 128 invocations
  uint64_t stop_call = 0, stop_ret = 0;
};
World* g_world = nullptr;
std::atomic<int> g_sleep_cap_us {0};
std::atomic<int> g_in_backoff {0};

void fatal(World& w, const std::string& key, const std::string& msg, const std::string& detail) {
  vf::violation(key, msg, w.cfg.describe() + vf::fmt("\nepisode=%lu seed=%lu\n", (unsigned long)w.index, (unsigned long)w.seed) + detail);
  w.fatal.store(true, std::memory_order_relaxed);
}

void Reclaimer::dispose() noexcept {
  if (w != nullptr && id >= 0 && !moved_from) {
    Task& t = w->tasks[size_t(id)];
    if (t.count.load(std::memory_order_relaxed) == 0) {
      t.destroyed_stamp.store(vf::stamp_call(), std::memory_order_relaxed);
      VF_COUNT("obs:reclaimer_destroyed_uninvoked");
    }
  }
  w = nullptr;
  id = -1;
}

void Reclaimer::operator()() noexcept {
  uint64_t iv = vf::stamp_call();
  if (w == nullptr || id < 0) {
    VF_COUNT("obs:empty_reclaimer_invoked");
    if (g_world) fatal(*g_world, "c10:empty-reclaimer-invoked", "the collector invoked a default-constructed (stop marker) reclaimer", "");
    return;
  }
  Task& t = w->tasks[size_t(id)];
  uint32_t c = t.count.fetch_add(1, std::memory_order_relaxed);
  if (c >= 1 || moved_from) {
    fatal(*w, "c10:reclaimer-invoked-twice", "a reclaimer was invoked more than once (or through a moved-from task)",
          vf::fmt("id=%ld retirer=%d invocations=%u moved_from=%d", (long)id, t.retirer, c + 1, int(moved_from)));
    return;
  }
  t.invoke_stamp.store(iv, std::memory_order_relaxed);
  if (t.payload != uint64_t(id) * 0x9e3779b97f4a7c15ULL + 5) {  // plain read: published through retire()
    fatal(*w, "c10:reclaimer-payload-not-published", "the reclaimer does not see the payload written before retire()",
          vf::fmt("id=%ld", (long)id));
  }
  for (const SnapItem& s : t.snap) {
    TableSlot& ts = *w->table[s.slot];
    if (ts.exit_begun.load(std::memory_order_relaxed) < s.serial) {
      fatal(*w, "c10:reclaimer-invoked-while-older-region-open",
            "a reclaimer ran although a region that was open when it was retired has not begun to close",
            vf::fmt("id=%ld retirer=%d epoch=%lu region slot=%u serial=%lu exit_begun=%lu invoke_stamp=%lu", (long)id, t.retirer,
                    (unsigned long)t.epoch, s.slot, (unsigned long)s.serial,
                    (unsigned long)ts.exit_begun.load(std::memory_order_relaxed), (unsigned long)iv));
      return;
    }
    if (ts.note[s.serial] != s.serial) {  // plain read: region exit happens-before this invocation
      fatal(*w, "c10:region-exit-not-visible-to-reclaimer", "note written before the region's unlock is not visible in the reclaimer",
            vf::fmt("id=%ld slot=%u serial=%lu", (long)id, s.slot, (unsigned long)s.serial));
    }
  }
  if (!t.snap.empty()) w->held_back.fetch_add(1, std::memory_order_relaxed);
  uint64_t n = w->invoked.fetch_add(1, std::memory_order_relaxed);
  if (n < 128) {
    std::lock_guard<std::mutex> g(w->order_mu);
    w->invoke_order.push_back(t.retirer);
  }
  vf::perturb("cb:c10_reclaimer");
  vf::progress();
}

// ---------------------------------------------------------------- regions
struct RegionOps {
  World& w;
  int thread;
  uint32_t slot;        // own table slot
  Accessor acc;         // accessor style: own accessor (re-created after a hand-off)

  void lock() { if (w.cfg.accessor_style) { if (!acc) acc = w.gc->epoch().create_accessor(); acc.lock(); } else w.gc->epoch().lock(); }
  bool can_open() { TableSlot& ts = *w.table[slot]; return ts.next_serial + 1 < kMaxRegions && ts.exit_begun.load(std::memory_order_relaxed) == ts.next_serial; }
  uint64_t open() {
    TableSlot& ts = *w.table[slot];
    uint64_t s = ++ts.next_serial;
    RegionRec& r = ts.log[s - 1];
    r.enter_call = vf::stamp_call();
    lock();
    r.enter_ret = vf::stamp_ret();
    ts.open_serial.store(s, std::memory_order_relaxed);
    VF_COUNT("obs:regions");
    return s;
  }
  static void close_region(World& w, int thread, uint32_t slot, uint64_t s, Accessor* a) {
    TableSlot& ts = *w.table[slot];
    RegionRec& r = ts.log[s - 1];
    ts.note[s] = s;  // plain write, must happen-before every reclaimer that waited for this region
    ts.open_serial.store(0, std::memory_order_relaxed);
    ts.exit_begun.store(s, std::memory_order_relaxed);
    r.closer = thread;
    r.exit_call = vf::stamp_call();
    if (a) a->unlock(); else w.gc->epoch().unlock();
    r.exit_ret = vf::stamp_ret();
  }
  void close(uint64_t s) { close_region(w, thread, slot, s, w.cfg.accessor_style ? &acc : nullptr); }
  // accessor style: let another thread close it
  void hand_off(uint64_t s, bool across) {
    Handoff h {std::move(acc), slot, s, across};
    std::lock_guard<std::mutex> g(w.handoff_mu);
    w.handoff.push_back(std::move(h));
    VF_COUNT("rare:region_handed_to_other_thread");
  }
};

bool adopt_and_close(World& w, int thread, vf::Rng& rng, bool only_after_stop_called) {
  Handoff h;
  {
    std::lock_guard<std::mutex> g(w.handoff_mu);
    bool hold_across = only_after_stop_called && !w.stop_called.load(std::memory_order_relaxed);
    auto it = w.handoff.begin();
    while (it != w.handoff.end() && it->across && hold_across) ++it;  // across-stop regions stay open until stop() was called
    if (it == w.handoff.end()) return false;
    h = std::move(*it);
    w.handoff.erase(it);
  }
  if (h.across) {
    if (w.cfg.close_delay_us) vf::raw_sleep_us(uint64_t(w.cfg.close_delay_us));
  } else if (rng.chance(1, 2)) {
    vf::perturb("cb:c10_adopted_region");
  }
  RegionOps::close_region(w, thread, h.slot, h.serial, &h.acc);
  if (h.across) w.across_closed.fetch_add(1, std::memory_order_relaxed);
  VF_COUNT("rare:region_closed_by_other_thread");
  return true;
}

void snapshot_open(World& w, std::vector<SnapItem>& out, uint32_t own_slot, bool include_own) {
  for (uint32_t k = 0; k < w.table.size(); ++k) {
    if (k == own_slot && !include_own) continue;
    uint64_t s = w.table[k]->open_serial.load(std::memory_order_relaxed);
    if (s) out.push_back({k, s});
  }
}

void retirer_role(World& w, int me) {
  vf::Rng& rng = vf::tl_rng();
  RegionOps ro {w, me, uint32_t(me), Accessor {}};
  const Config& c = w.cfg;
  size_t base = size_t(me) * size_t(c.quota);
  int i = 0;
  const uint64_t total = uint64_t(c.retirers) * uint64_t(c.quota);
  // retire inside the retirer's own region only when retire() cannot block (it would wait for itself)
  const bool own_region_retire_ok = c.cap >= 1024 && total + 2 < 1024;
  while (i < c.quota && !w.fatal.load(std::memory_order_relaxed)) {
    if (rng.chance(uint64_t(c.reader_pct), 100) && ro.can_open()) {  // short reader region
      uint64_t s = ro.open();
      vf::perturb("cb:c10_retirer_region");
      ro.close(s);
    }
    int n = rng.chance(uint64_t(c.explicit_pct), 100) ? int(rng.range(1, 4)) : 1;
    n = std::min(n, c.quota - i);
    uint64_t own = 0;
    if (own_region_retire_ok && rng.chance(1, 6) && ro.can_open()) own = ro.open();
    // across mode: exactly the last gate_j retires (<= queue capacity, so they cannot block for ever) wait until the
    // long regions are open; a claim never straddles that threshold
    const uint64_t threshold = total - uint64_t(c.gate_j);
    uint64_t first_seq = w.retire_seq.load(std::memory_order_relaxed);
    while (true) {
      int nn = n;
      if (c.across && first_seq < threshold) nn = int(std::min<uint64_t>(uint64_t(n), threshold - first_seq));
      if (w.retire_seq.compare_exchange_weak(first_seq, first_seq + uint64_t(nn), std::memory_order_relaxed)) { n = nn; break; }
    }
    if (c.across && first_seq >= threshold) {
      vf::set_op("wait-gate");
      while (w.across_open.load(std::memory_order_relaxed) < c.across && !w.fatal.load(std::memory_order_relaxed)) vf::raw_sleep_us(20);
    }
    bool explicit_epoch = n > 1 || rng.chance(uint64_t(c.explicit_pct), 300);
    std::vector<SnapItem> snap;
    snapshot_open(w, snap, ro.slot, own != 0);
    uint64_t ref = vf::stamp_call();
    uint64_t e = explicit_epoch ? w.gc->epoch().tick() : 0;
    for (int k = 0; k < n; ++k, ++i) {
      size_t id = base + size_t(i);
      Task& t = w.tasks[id];
      t.retirer = me;
      t.epoch = e;
      t.snap = snap;
      t.payload = uint64_t(id) * 0x9e3779b97f4a7c15ULL + 5;
      t.inside_own_region = own != 0;
      if (explicit_epoch) {
        t.ref_call = ref;
      } else {
        t.ref_call = vf::stamp_call();
      }
      if (w.gc->_queue.size() >= w.gc->_queue.capacity()) {
        w.blocked_full.fetch_add(1, std::memory_order_relaxed);
        VF_COUNT("rare:retire_against_full_queue");
      }
      vf::set_op("retire", id);
      if (explicit_epoch) w.gc->retire(Reclaimer {&w, int64_t(id)}, e);
      else w.gc->retire(Reclaimer {&w, int64_t(id)});
      t.retire_ret = vf::stamp_ret();
      vf::set_op(nullptr);
      w.retired_done.fetch_add(1, std::memory_order_relaxed);
      VF_COUNT("obs:retires");
      vf::progress();
      if (rng.chance(1, 8)) vf::perturb("cb:c10_after_retire");
    }
    if (own) {
      VF_COUNT("obs:retire_inside_own_region");
      ro.close(own);
    }
  }
}

void holder_role(World& w, int me, int holder_index) {
  vf::Rng& rng = vf::tl_rng();
  RegionOps ro {w, me, uint32_t(me), Accessor {}};
  const Config& c = w.cfg;
  const uint64_t total = uint64_t(c.retirers) * uint64_t(c.quota);
  bool across_holder = holder_index < c.across;
  if (across_holder) {
    // open shortly before the last gate_j retires, keep open across the call of stop()
    vf::set_op("wait-for-gate-position");
    while (w.retired_done.load(std::memory_order_relaxed) + uint64_t(c.gate_j) < total && !w.fatal.load(std::memory_order_relaxed)) vf::raw_sleep_us(50);
    uint64_t s = ro.open();
    w.across_open.fetch_add(1, std::memory_order_relaxed);
    VF_COUNT("obs:region_open_across_stop");
    if (c.accessor_style && rng.chance(1, 2)) {
      ro.hand_off(s, true);  // closed by whichever holder adopts it after stop() was called
    } else {
      vf::set_op("hold-across-stop");
      while (!w.stop_called.load(std::memory_order_relaxed) && !w.fatal.load(std::memory_order_relaxed)) vf::raw_sleep_us(20);
      if (c.close_delay_us) vf::raw_sleep_us(uint64_t(c.close_delay_us));
      ro.close(s);
      w.across_closed.fetch_add(1, std::memory_order_relaxed);
    }
  }
  vf::set_op("holder-loop");
  while (!w.finish.load(std::memory_order_relaxed)) {
    if (c.accessor_style && adopt_and_close(w, me, rng, true)) continue;
    if (w.fatal.load(std::memory_order_relaxed)) { vf::raw_sleep_us(100); continue; }
    if (ro.can_open() && rng.chance(3, 4)) {
      uint64_t s = ro.open();
      if (c.accessor_style && rng.chance(1, 4)) {
        ro.hand_off(s, false);
      } else {
        uint64_t x = rng.below(100);
        if (x < 50) vf::perturb("cb:c10_holder_region");
        else if (x < 90) vf::raw_sleep_us(rng.range(20, 400));
        else vf::raw_sleep_us(rng.range(1000, 8000));
        ro.close(s);
      }
    } else {
      vf::raw_sleep_us(rng.range(10, 200));
    }
  }
  while (c.accessor_style && adopt_and_close(w, me, rng, false)) {}
}

// ---------------------------------------------------------------- episode
const std::vector<std::string> kStallPoints = {"gc:consumed", "gc:consumed", "gc:backoff", "gc:backoff", "epoch:scan_slot",
                                               "epoch:lock_loaded_version", "cb:c10_reclaimer", "cb:c10_after_retire",
                                               "bq:push_ticket", "bq:try_n_before_cas"};

void run_episode(uint64_t seed, uint64_t index) {
  uint64_t es = vf::mix(seed, index, 0xc10);
  vf::Rng r(es);
  World w;
  w.seed = seed;
  w.index = index;
  Config& c = w.cfg;
  c.accessor_style = r.chance(1, 2);
  c.cap = int(r.pick<int>({0, 1, 2, 8, 8, 1024, 1024}));
  c.retirers = int(r.range(1, 6));
  int eff_cap = c.cap == 0 ? 1 : c.cap;
  c.quota = eff_cap <= 2 ? int(r.range(2, 14)) : (eff_cap == 8 ? int(r.range(4, 40)) : int(r.pick<int>({3, 20, 80, 150, 400})));
  c.across = r.chance(2, 5) ? int(r.range(1, 2)) : 0;
  c.holders = int(r.range(c.across ? uint64_t(c.across) : 0, 3));
  if (c.across && c.accessor_style && c.holders < 2) c.holders = 2;
  int total = c.retirers * c.quota;
  c.gate_j = int(r.range(1, uint64_t(std::min(total, std::min(eff_cap, 6)))));  // blocked retires always fit into the queue
  c.dtor = !c.across && r.chance(1, 3);
  c.explicit_pct = int(r.pick<int>({0, 30, 70}));
  c.reader_pct = int(r.pick<int>({0, 30, 80}));
  c.sleep_cap_us = int(r.pick<int>({0, 0, 30, 300}));
  c.close_delay_us = int(r.pick<int>({0, 100, 2000, 15000}));
  c.pin = int(r.pick<int>({0, 0, 0, 0, 2, 3}));
  c.policy = vf::draw_policy(r, kStallPoints, 40, 12000);
  w.ntasks = size_t(total);
  w.tasks.reset(new Task[w.ntasks]);
  int nthreads = c.retirers + c.holders;
  static std::vector<TableSlot*>& pool = *new std::vector<TableSlot*>;  // never destroyed: stays reachable for LSan
  for (int i = 0; i < nthreads; ++i) {
    if (pool.size() <= size_t(i)) {
      pool.push_back(new TableSlot);
      pool.back()->log.resize(kMaxRegions);
      pool.back()->note.assign(kMaxRegions + 1, 0);
    }
    TableSlot* ts = pool[size_t(i)];
    for (uint64_t k = 0; k < ts->next_serial; ++k) { ts->log[k] = RegionRec {}; ts->note[k + 1] = 0; }
    ts->next_serial = 0;
    ts->open_serial.store(0, std::memory_order_relaxed);
    ts->exit_begun.store(0, std::memory_order_relaxed);
    w.table.push_back(ts);
  }
  g_sleep_cap_us.store(c.sleep_cap_us, std::memory_order_relaxed);
  w.gc = new GC;
  if (c.cap) w.gc->set_queue_capacity(size_t(c.cap));
  g_world = &w;
  vf::watchdog().set_context(c.describe() + vf::fmt(" episode=%lu", (unsigned long)index));
  if (vf::args().get("verbose", 0)) fprintf(stderr, "[c10] %.3f episode %lu %s\n", vf::now_s(), (unsigned long)index, c.describe().c_str());
  vf::pin_cpus(c.pin);
  vf::watchdog().arm(true);
  w.gc->start();
  std::vector<std::thread> retirers, holders;
  for (int i = 0; i < c.retirers; ++i) retirers.emplace_back([&w, es, i] { vf::thread_begin(es, i); retirer_role(w, i); vf::thread_end(); });
  for (int i = 0; i < c.holders; ++i) {
    int me = c.retirers + i;
    holders.emplace_back([&w, es, me, i] { vf::thread_begin(es, me); holder_role(w, me, i); vf::thread_end(); });
  }
  for (auto& t : retirers) t.join();
  const bool verbose = vf::args().get("verbose", 0) != 0;
  if (verbose) fprintf(stderr, "[c10]   %.3f retirers joined\n", vf::now_s());
  bool all_retired = w.retired_done.load(std::memory_order_relaxed) == w.ntasks;
  if (!c.across) {
    if (c.dtor || r.chance(1, 2)) {
      // every region closed and no holder left: the collector may be destroyed
      w.finish.store(true, std::memory_order_relaxed);
      for (auto& t : holders) t.join();
      holders.clear();
    }
  }
  if (r.chance(1, 3)) vf::raw_sleep_us(r.pick<uint64_t>({50, 1200, 5000}));  // policy-chosen moment
  vf::set_op(c.dtor ? "destructor" : "stop");
  w.stop_called.store(true, std::memory_order_relaxed);
  w.stop_call = vf::stamp_call();
  if (c.dtor) { delete w.gc; w.gc = nullptr; }
  else w.gc->stop();
  w.stop_ret = vf::stamp_ret();
  if (verbose) fprintf(stderr, "[c10]   %.3f stop returned\n", vf::now_s());
  vf::set_op(nullptr);
  vf::progress();
  // ---- exactly-once at the return of stop()/destructor
  std::vector<size_t> lost;
  if (all_retired) {
    for (size_t id = 0; id < w.ntasks; ++id) if (w.tasks[id].count.load(std::memory_order_relaxed) == 0) lost.push_back(id);
  }
  w.finish.store(true, std::memory_order_relaxed);
  for (auto& t : holders) t.join();
  {
    vf::Rng mr(vf::mix(es, 77));
    while (c.accessor_style && adopt_and_close(w, nthreads, mr, false)) {}
  }
  vf::disable_policy();
  vf::pin_cpus(0);
  vf::watchdog().arm(false);
  // ---- classify missing invocations
  std::vector<const RegionRec*> regs;
  for (TableSlot* ts : w.table) for (uint64_t s = 0; s < ts->next_serial; ++s) regs.push_back(&ts->log[s]);
  if (!lost.empty()) {
    size_t known_shape = 0, other = 0;
    std::string d_known, d_other;
    for (size_t id : lost) {
      Task& t = w.tasks[id];
      // a region that may have recorded an epoch below this task's and may still have been open when stop() was called
      const RegionRec* blocker = nullptr;
      for (const RegionRec* rg : regs) {
        if (rg->enter_call < t.retire_ret + kMargin && (rg->exit_ret == UINT64_MAX || rg->exit_ret + kMargin > w.stop_call)) { blocker = rg; break; }
      }
      std::string line = vf::fmt("id=%zu retirer=%d epoch=%lu retire=[%lu,%lu] destroyed_uninvoked_at=%lu", id, t.retirer,
                                 (unsigned long)t.epoch, (unsigned long)t.ref_call, (unsigned long)t.retire_ret,
                                 (unsigned long)t.destroyed_stamp.load());
      if (blocker) {
        ++known_shape;
        if (known_shape <= 6) d_known += line + vf::fmt(" ; region enter=[%lu,%lu] exit=[%lu,%lu]\n", (unsigned long)blocker->enter_call,
                                                        (unsigned long)blocker->enter_ret, (unsigned long)blocker->exit_call, (unsigned long)blocker->exit_ret);
      } else {
        ++other;
        if (other <= 6) d_other += line + "\n";
      }
    }
    std::string head = vf::fmt("%s [%lu,%lu] returned; %zu of %zu reclaimers retired before it was called were never invoked\n",
                               c.dtor ? "destructor" : "stop()", (unsigned long)w.stop_call, (unsigned long)w.stop_ret, lost.size(), w.ntasks);
    if (other) {
      fatal(w, "c10:reclaimer-never-invoked",
            "stop()/destructor returned but a reclaimer retired earlier was never invoked although no region that could block it "
            "was open when stop() was called", head + d_other);
    }
    if (known_shape) {
      // DESIGN §6: recorded, routed through known_findings by the driver; the run goes on
      VF_COUNT("obs:episodes_with_reclaimers_dropped_at_stop");
      VF_COUNT_N("obs:reclaimers_dropped_at_stop", known_shape);
      vf::violation("c10:stop-with-open-region-drops-blocked-reclaimers",
                    "stop() returned while a region was still open: reclaimers still blocked by that region (consumed in the same "
                    "batch as the stop marker) were destroyed without being invoked",
                    c.describe() + vf::fmt("\nepisode=%lu seed=%lu\n", (unsigned long)index, (unsigned long)seed) + head + d_known);
    }
  }
  // ---- never twice (also after the regions closed), never after stop returned
  for (size_t id = 0; id < w.ntasks; ++id) {
    Task& t = w.tasks[id];
    uint32_t n = t.count.load(std::memory_order_relaxed);
    if (n > 1) fatal(w, "c10:reclaimer-invoked-twice", "a reclaimer was invoked more than once", vf::fmt("id=%zu invocations=%u", id, n));
    uint64_t iv = t.invoke_stamp.load(std::memory_order_relaxed);
    if (n == 1 && iv > w.stop_ret + kMargin) {
      fatal(w, "c10:reclaimer-invoked-after-stop-returned", "a reclaimer ran after stop()/destructor had returned",
            vf::fmt("id=%zu invoke=%lu stop_ret=%lu", id, (unsigned long)iv, (unsigned long)w.stop_ret));
    }
  }
  // ---- not-early, offline on stamps
  {
    std::sort(regs.begin(), regs.end(), [](const RegionRec* a, const RegionRec* b) { return a->enter_ret < b->enter_ret; });
    std::vector<const RegionRec*> pref(regs.size());
    for (size_t i = 0; i < regs.size(); ++i) pref[i] = (i == 0 || regs[i]->exit_call > pref[i - 1]->exit_call) ? regs[i] : pref[i - 1];
    uint64_t checked = 0;
    for (size_t id = 0; id < w.ntasks && !w.fatal.load(); ++id) {
      Task& t = w.tasks[id];
      if (t.count.load(std::memory_order_relaxed) == 0 || t.ref_call == 0) continue;
      uint64_t iv = t.invoke_stamp.load(std::memory_order_relaxed);
      size_t lo = 0, hi = regs.size();
      while (lo < hi) { size_t mid = (lo + hi) / 2; if (regs[mid]->enter_ret + kMargin < t.ref_call) lo = mid + 1; else hi = mid; }
      if (lo == 0) continue;
      ++checked;
      const RegionRec* rg = pref[lo - 1];
      if (rg->exit_call > iv + kMargin) {
        fatal(w, "c10:reclaimer-invoked-while-older-region-open",
              "a reclaimer ran although a region entered before its retire() had not begun to close (stamped history)",
              vf::fmt("id=%zu retirer=%d epoch=%lu retire_call=%lu invoke=%lu ; region enter=[%lu,%lu] exit=[%lu,%lu] closer=%d", id, t.retirer,
                      (unsigned long)t.epoch, (unsigned long)t.ref_call, (unsigned long)iv, (unsigned long)rg->enter_call,
                      (unsigned long)rg->enter_ret, (unsigned long)rg->exit_call, (unsigned long)rg->exit_ret, rg->closer));
      }
    }
    VF_COUNT_N("obs:not_early_checked_against_older_region", checked);
  }
  if (w.gc) {
    vf::set_op("destructor-after-stop");
    delete w.gc;
    w.gc = nullptr;
  }
  uint64_t fp = vf::mix(uint64_t(c.accessor_style) | uint64_t(c.cap) << 1 | uint64_t(c.retirers) << 12 | uint64_t(c.holders) << 16 |
                            uint64_t(c.across) << 20 | uint64_t(c.dtor) << 23 | uint64_t(c.gate_j) << 24,
                        uint64_t(c.quota), uint64_t(c.sleep_cap_us) | uint64_t(c.close_delay_us) << 20);
  for (int x : w.invoke_order) fp = vf::mix(fp, uint64_t(x) + 1);
  fp = vf::mix(fp, lost.size());
  bool nontrivial = w.blocked_full.load() > 0 || w.held_back.load() > 0 || c.across > 0;
  if (c.across) VF_COUNT("obs:episodes_stop_with_region_open");
  else if (c.dtor) VF_COUNT("obs:episodes_destructor");
  else VF_COUNT("obs:episodes_stop_idle");
  if (w.held_back.load()) VF_COUNT_N("rare:reclaim_held_back_by_region", w.held_back.load());
  vf::evaluated(fp, nontrivial);
  if (nontrivial) {
    vf::sample("{\"config\": " + vf::jstr(c.describe()) +
               vf::fmt(", \"retired\": %zu, \"invoked\": %lu, \"retire_calls_against_full_queue\": %lu, "
                       "\"reclaimers_that_waited_for_a_region\": %lu, \"regions\": %zu, \"never_invoked_at_stop_return\": %zu}",
                       w.ntasks, (unsigned long)w.invoked.load(), (unsigned long)w.blocked_full.load(),
                       (unsigned long)w.held_back.load(), regs.size(), lost.size()), 4);
  }
  g_world = nullptr;
  if (verbose) fprintf(stderr, "[c10]   %.3f episode done\n", vf::now_s());
}

// Minimal deterministic-shape reproduction of the DESIGN §6 drop (used in the notes): one region, one retire, stop().
int run_repro() {
  int dropped = 0, tries = 20;
  for (int k = 0; k < tries; ++k) {
    World w;
    w.ntasks = 1;
    w.tasks.reset(new Task[1]);
    w.tasks[0].payload = 5;
    GC gc;
    gc.set_queue_capacity(4);              // with the default capacity 1 the marker can never share a batch with a task
    gc.start();
    while (g_in_backoff.load() == 0) ::sched_yield();  // collector found the queue empty and sleeps >= 1 ms
    Accessor a = gc.epoch().create_accessor();
    a.lock();                              // region open ...
    gc.retire(Reclaimer {&w, 0});          // ... blocks this reclaimer
    std::thread closer([&] { vf::raw_sleep_us(50000); a.unlock(); });
    gc.stop();                             // returns without waiting for the region
    uint32_t n = w.tasks[0].count.load();
    closer.join();
    fprintf(stderr, "[c10 repro] try %d: invoked %u time(s) by the return of stop(), destroyed uninvoked: %s\n", k, n,
            w.tasks[0].destroyed_stamp.load() ? "yes" : "no");
    dropped += n == 0;
  }
  fprintf(stderr, "[c10 repro] reclaimer dropped in %d of %d tries\n", dropped, tries);
  return dropped;
}

}  // namespace

// ---------------------------------------------------------------------------------------------
// "wrap" mode: more than 32768 x capacity retirements through a tiny queue, so that the 16-bit slot
// versions of the collector's queue wrap while retire() keeps hitting a full queue (the producer is
// faster than the collector, whose back-off sleeps are shortened by the interposed usleep). Added
// after the seeded change C10-a2 (`version == expected` -> `>=` in the queue's spin-wait slow path,
// which only differs at the wrap) escaped the ordinary episodes, which retire a few hundred tasks.
// Oracle: every reclaimer is invoked exactly once by the time stop() returns, none dropped un-invoked;
// stop() returns (stuck rule).
struct WrapReclaimer {
  std::atomic<uint8_t>* cnt = nullptr;
  std::atomic<uint64_t>* dropped = nullptr;
  bool armed = false;
  WrapReclaimer() = default;
  WrapReclaimer(std::atomic<uint8_t>* c, std::atomic<uint64_t>* d) : cnt(c), dropped(d), armed(true) {}
  WrapReclaimer(WrapReclaimer&& o) noexcept : cnt(o.cnt), dropped(o.dropped), armed(o.armed) { o.armed = false; }
  WrapReclaimer& operator=(WrapReclaimer&& o) noexcept {
    if (this != &o) {
      if (armed) dropped->fetch_add(1, std::memory_order_relaxed);
      cnt = o.cnt; dropped = o.dropped; armed = o.armed;
      o.armed = false;
    }
    return *this;
  }
  ~WrapReclaimer() { if (armed) dropped->fetch_add(1, std::memory_order_relaxed); }
  void operator()() noexcept {
    if (!armed) return;
    armed = false;
    cnt->fetch_add(1, std::memory_order_relaxed);
    vf::progress();
  }
};

static void run_wrap(uint64_t seed, uint64_t index) {
  vf::Rng r(vf::mix(seed, index, 0xc10e));
  size_t cap = size_t(r.pick<int>({1, 1, 2, 4}));
  size_t real_cap = 1;
  while (real_cap < cap) real_cap <<= 1;
  uint64_t wraps = r.range(2, 3);  // the expected slot version wraps every 32768 rounds of the ring: several chances per episode
  uint64_t n = wraps * 32768 * real_cap + r.range(500, 4000);
  int retirers = int(r.range(1, 3));
  if (index == 0) { cap = real_cap = 1; retirers = 1; n = 3 * 32768 + r.range(500, 4000); }
  std::string desc = vf::fmt("wrap ep=%lu seed=%lu capacity=%zu retirements=%lu retirers=%d", (unsigned long)index,
                             (unsigned long)seed, cap, (unsigned long)n, retirers);
  vf::watchdog().set_context(desc);
  g_sleep_cap_us.store(1, std::memory_order_relaxed);
  std::unique_ptr<std::atomic<uint8_t>[]> cnt(new std::atomic<uint8_t>[n]);
  for (uint64_t i = 0; i < n; ++i) cnt[i].store(0, std::memory_order_relaxed);
  std::atomic<uint64_t> dropped {0}, next {0};
  {
    ::babylon::GarbageCollector<WrapReclaimer> gc;
    gc.set_queue_capacity(cap);
    gc.start();
    vf::watchdog().arm(true);
    vf::run_threads(retirers, vf::mix(seed, index, 7), [&](int) {
      for (;;) {
        uint64_t i = next.fetch_add(1, std::memory_order_relaxed);
        if (i >= n || vf::failed()) break;
        gc.retire(WrapReclaimer(&cnt[i], &dropped));
        vf::progress();
      }
    });
    gc.stop();
    vf::watchdog().arm(false);
  }
  g_sleep_cap_us.store(0, std::memory_order_relaxed);
  uint64_t never = 0, twice = 0, first = UINT64_MAX;
  for (uint64_t i = 0; i < n; ++i) {
    uint8_t c = cnt[i].load(std::memory_order_relaxed);
    if (c == 0) { ++never; first = std::min(first, i); }
    if (c > 1) { ++twice; first = std::min(first, i); }
  }
  if (twice)
    vf::violation("c10:wrap:reclaimer-invoked-twice", vf::fmt("%lu reclaimer(s) invoked more than once", (unsigned long)twice),
                  desc + vf::fmt(" first=%lu", (unsigned long)first));
  if (never || dropped.load())
    vf::violation("c10:wrap:reclaimer-never-invoked",
                  vf::fmt("%lu of %lu reclaimers were never invoked although stop() returned (%lu destroyed un-invoked)",
                          (unsigned long)never, (unsigned long)n, (unsigned long)dropped.load()),
                  desc + vf::fmt(" first never-invoked id=%lu (slot-version wrap of a capacity-%zu queue is at id %lu)",
                                 (unsigned long)first, real_cap, (unsigned long)(32768 * real_cap)));
  VF_COUNT_N("obs:wrap_retirements", n);
  VF_COUNT("obs:wrap_episodes");
  vf::evaluated(vf::mix(0xc10e, cap, uint64_t(retirers), n & 0xff), true);
  if (index < 2) vf::sample(vf::fmt("{\"mode\": \"wrap\", \"config\": %s}", vf::jstr(desc).c_str()));
}

// The collector's back-off (and the blocked push of retire()) sleep through ::usleep: record the state and optionally
// shorten the sleep. A shorter sleep only removes delay; correctness of a collector must not depend on it.
extern "C" int usleep(useconds_t us) {
  int cap = g_sleep_cap_us.load(std::memory_order_relaxed);
  g_in_backoff.fetch_add(1, std::memory_order_relaxed);
  VF_COUNT("obs:library_usleep");
  vf::raw_sleep_us(cap > 0 && us > useconds_t(cap) ? uint64_t(cap) : uint64_t(us));
  g_in_backoff.fetch_sub(1, std::memory_order_relaxed);
  return 0;
}

int main(int argc, char** argv) {
  vf::init(argc, argv, "C10", "c10_gc");
  auto& a = vf::args();
  if (a.mode == "repro") {
    run_repro();
    return 0;
  }
  if (a.mode == "wrap") {
    auto& wdw = vf::watchdog();
    wdw.classify = []() -> std::string { return "stuck:wrap:retire-or-stop-never-returned"; };
    wdw.start();
    uint64_t nw = vf::budget(4, 60);
    for (uint64_t e = 0; e < nw && !vf::failed(); ++e) run_wrap(a.seed, e);
    wdw.shutdown();
    return vf::finish();
  }
  auto& wd = vf::watchdog();
  wd.classify = []() -> std::string {
    World* w = g_world;
    if (!w) return "";
    // nothing can legitimately block: every across-stop region closed (or none), ordinary regions are time-bounded (<= 8 ms)
    if (w->cfg.across && w->across_closed.load() < w->cfg.across) return "";
    return w->stop_called.load() ? "c10:stop-never-returned" : "c10:retire-never-returned";
  };
  wd.dump_extra = []() -> std::string {
    World* w = g_world;
    if (!w || !w->gc) return "";
    return vf::fmt("gc: queue size=%zu capacity=%zu epoch version=%lu lwm=%lu retired=%lu/%zu invoked=%lu across_open=%d across_closed=%d in_usleep=%d\n",
                   w->gc->_queue.size(), w->gc->_queue.capacity(), (unsigned long)w->gc->_epoch._version.load(),
                   (unsigned long)w->gc->_epoch.low_water_mark(), (unsigned long)w->retired_done.load(), w->ntasks,
                   (unsigned long)w->invoked.load(), w->across_open.load(), w->across_closed.load(), g_in_backoff.load());
  };
  wd.start();
  uint64_t n = vf::budget(260, 8000);
  for (uint64_t e = 0; e < n; ++e) {
    if (a.only_episode >= 0 && uint64_t(a.only_episode) != e) continue;
    run_episode(a.seed, e);
    // only violations other than the listed known shape end the run early
    bool stop = false;
    {
      auto& rep = vf::report();
      std::lock_guard<std::mutex> g(rep.mu);
      for (auto& v : rep.violations) if (v.key != "c10:stop-with-open-region-drops-blocked-reclaimers") stop = true;
    }
    if (stop) break;
  }
  wd.shutdown();
  return vf::finish();
}
