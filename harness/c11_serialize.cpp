// C11 — serialization: round trip over every presentation, exact size, protobuf
// wire compatibility (both directions, unknown fields, defaults, permuted order)
// and hostile-input safety by structured mutation. gcc asan (asserts on, debug
// wire-type check) and plain (-O2 -DNDEBUG). Single threaded; every slice of work
// (one root type of one phase) runs in a forked child so that an abort /
// std::terminate / sanitizer report of the parser is attributed to the exact
// (type, presentation) and the rest of the run continues.
//
// VF_USES_PROTO  (links test/proto/arena_example.proto: TestMessage is the documented compat table)
//
// modes: (default) all | roundtrip | compat | hostile      --type <name> restricts to one root type
#include <cxxabi.h>
#include <sys/mman.h>
#include <sys/resource.h>
#include <sys/wait.h>

#include <exception>
#include <typeinfo>

#include "common/vf.h"
// the zoo needs vf.h first
#include "common/c11_zoo.h"

using namespace zoo;

////////////////////////////////////////////////////////////////////////////////
// child runner
namespace child {

struct Rec {
  char tag;
  std::string payload;
};

static int g_fd = -1;

static void put(char tag, const std::string& payload) {
  std::string buf;
  uint32_t n = uint32_t(payload.size());
  buf.push_back(tag);
  buf.append(reinterpret_cast<const char*>(&n), 4);
  buf += payload;
  size_t off = 0;
  while (off < buf.size()) {
    ssize_t w = ::write(g_fd, buf.data() + off, buf.size() - off);
    if (w <= 0) _exit(73);
    off += size_t(w);
  }
}

struct PipeSink : Sink {
  void violation(const std::string& k, const std::string& m, const std::string& d) override {
    std::string p = k;
    p.push_back('\0');
    p += m;
    p.push_back('\0');
    p += d;
    put('V', p);
  }
  void evaluated(uint64_t fp, bool nt) override {
    std::string p(reinterpret_cast<const char*>(&fp), 8);
    p.push_back(nt ? 1 : 0);
    put('E', p);
  }
  void sample(const std::string& j) override { put('S', j); }
};

static void on_terminate() {
  Blackbox* b = blackbox();
  const char* tn = "unknown";
  std::string demangled;
  if (std::type_info* t = abi::__cxa_current_exception_type()) {
    int st = 0;
    char* d = abi::__cxa_demangle(t->name(), nullptr, nullptr, &st);
    demangled = d ? d : t->name();
    free(d);
    tn = demangled.c_str();
  }
  std::string what;
  try {
    if (auto e = std::current_exception()) std::rethrow_exception(e);
  } catch (const std::exception& ex) {
    what = ex.what();
  } catch (...) {
  }
  snprintf(b->what, sizeof b->what, "terminate:%s|%s", tn, what.c_str());
  _exit(70);
}
// Budget of one case (one value / one hostile input), measured in CPU time of this
// process (ITIMER_VIRTUAL ticks), never wall time: machine load cannot fake a hang.
// The same tick watches the resident set: a parser that loops while allocating is
// stopped before it eats the machine.
static volatile int g_ticks = 0;
constexpr int kTickMs = 100;
constexpr int kCpuLimitTicks = 30;         // 3 s of CPU for a single case (inputs are <= 1 MB)
constexpr long kRssLimitPages = 393216;     // 1.5 GB
static void on_tick(int) {
  Blackbox* b = blackbox();
  if (++g_ticks > kCpuLimitTicks) {
    snprintf(b->what, sizeof b->what, "cpu-timeout");
    _exit(72);
  }
  int fd = ::open("/proc/self/statm", O_RDONLY);
  if (fd >= 0) {
    char buf[128];
    ssize_t n = ::read(fd, buf, sizeof buf - 1);
    ::close(fd);
    if (n > 0) {
      buf[n] = 0;
      const char* p = buf;
      while (*p && *p != ' ') ++p;
      long rss = atol(p);
      if (rss > kRssLimitPages) {
        snprintf(b->what, sizeof b->what, "memory-blowup");
        _exit(72);
      }
    }
  }
}
inline void arm_cpu_timer() {
  g_ticks = 0;
  static bool armed = false;
  if (armed) return;
  armed = true;
  struct itimerval it;
  memset(&it, 0, sizeof it);
  it.it_value.tv_usec = kTickMs * 1000;
  it.it_interval.tv_usec = kTickMs * 1000;
  setitimer(ITIMER_VIRTUAL, &it, nullptr);
}

struct Outcome {
  bool completed = false;
  std::string death;  // "" if completed
  Blackbox bb;
  std::vector<Rec> recs;
};

static Blackbox* shared_bb() {
  static Blackbox* p = [] {
    void* m = mmap(nullptr, sizeof(Blackbox), PROT_READ | PROT_WRITE, MAP_SHARED | MAP_ANONYMOUS, -1, 0);
    return m == MAP_FAILED ? nullptr : static_cast<Blackbox*>(m);
  }();
  return p;
}

template <typename F>
Outcome run(F&& body) {
  Outcome out;
  Blackbox* sbb = shared_bb();
  memset(sbb, 0, sizeof *sbb);
  int fds[2];
  if (pipe(fds) != 0) {
    out.death = "pipe() failed";
    return out;
  }
  fflush(stdout);
  fflush(stderr);
  pid_t pid = fork();
  if (pid < 0) {
    out.death = "fork() failed";
    return out;
  }
  if (pid == 0) {
    ::close(fds[0]);
    g_fd = fds[1];
    blackbox() = sbb;
    static PipeSink ps;
    sink() = &ps;
    std::set_terminate(on_terminate);
    signal(SIGVTALRM, on_tick);
    // counter base line
    std::map<std::string, uint64_t> base;
    for (auto* c : vf::registry().counters) base[c->name] = c->v.load();
    body();
    for (auto* c : vf::registry().counters) {
      uint64_t d = c->v.load() - base[c->name];
      if (d) {
        std::string p = c->name;
        p.push_back('\0');
        p.append(reinterpret_cast<const char*>(&d), 8);
        put('C', p);
      }
    }
    put('D', "");
    _exit(0);
  }
  ::close(fds[1]);
  std::string all;
  char buf[65536];
  for (;;) {
    ssize_t r = ::read(fds[0], buf, sizeof buf);
    if (r < 0 && errno == EINTR) continue;
    if (r <= 0) break;
    all.append(buf, size_t(r));
  }
  ::close(fds[0]);
  int status = 0;
  while (waitpid(pid, &status, 0) < 0 && errno == EINTR) {
  }
  bool done = false;
  for (size_t off = 0; off + 5 <= all.size();) {
    char tag = all[off];
    uint32_t n;
    memcpy(&n, all.data() + off + 1, 4);
    if (off + 5 + n > all.size()) break;
    if (tag == 'D') done = true;
    else out.recs.push_back({tag, all.substr(off + 5, n)});
    off += 5 + n;
  }
  out.bb = *sbb;
  if (done && WIFEXITED(status) && WEXITSTATUS(status) == 0) {
    out.completed = true;
  } else if (WIFSIGNALED(status)) {
    out.death = vf::fmt("signal%d", WTERMSIG(status));
  } else if (WIFEXITED(status)) {
    int code = WEXITSTATUS(status);
    if (code == 70 || code == 72) out.death = out.bb.what;
    else if (code == 67 || code == 68 || code == 69) out.death = vf::fmt("sanitizer-exit%d", code);
    else out.death = vf::fmt("exit%d", code);
  } else {
    out.death = "unknown";
  }
  return out;
}

// apply the records of a child to this process' report
inline void apply(const Outcome& o, bool with_counts) {
  for (const Rec& r : o.recs) {
    if (r.tag == 'V') {
      size_t a = r.payload.find('\0');
      size_t b = r.payload.find('\0', a + 1);
      vf::violation(r.payload.substr(0, a), r.payload.substr(a + 1, b - a - 1), r.payload.substr(b + 1));
    } else if (!with_counts) {
      continue;
    } else if (r.tag == 'E') {
      uint64_t fp;
      memcpy(&fp, r.payload.data(), 8);
      vf::evaluated(fp, r.payload[8] != 0);
    } else if (r.tag == 'S') {
      vf::sample(r.payload);
    } else if (r.tag == 'C') {
      size_t a = r.payload.find('\0');
      uint64_t d;
      memcpy(&d, r.payload.data() + a + 1, 8);
      vf::counter(r.payload.substr(0, a)).v.fetch_add(d, std::memory_order_relaxed);
    }
  }
}

inline unsigned kind_bit_of(const char* pres) {
  for (int k = 0; k < P_KINDS; ++k)
    if (strcmp(pres, pres_class(PresKind(k))) == 0) return 1u << k;
  return 0;
}

// Run `body(skip_kinds)` in children until one completes; a child that dies is
// reported as a violation keyed by (phase, type, presentation, reason) and the
// slice is retried without that presentation class.
template <typename F>
void run_slice(const char* phase, const char* type, unsigned& skip_kinds, F&& body) {
  for (int attempt = 0; attempt < 5; ++attempt) {
    unsigned skip = skip_kinds;
    Outcome o = run([&] { body(skip); });
    apply(o, o.completed);
    if (o.completed) return;
    std::string reason = o.death;
    std::string what;
    size_t bar = reason.find('|');
    if (bar != std::string::npos) {
      what = reason.substr(bar + 1);
      reason = reason.substr(0, bar);
    }
    const char* ph = o.bb.phase[0] ? o.bb.phase : phase;
    const char* ty = o.bb.type[0] ? o.bb.type : type;
    const char* pr = o.bb.pres[0] ? o.bb.pres : "-";
    std::string key = vf::fmt("c11:died:%s:%s:%s:%s", ph, ty, pr, reason.c_str());
    std::string input(reinterpret_cast<const char*>(o.bb.input), std::min<size_t>(o.bb.input_len, sizeof o.bb.input));
    vf::violation(key,
                  vf::fmt("the process died inside the serialization code (%s%s%s) instead of returning", reason.c_str(),
                          what.empty() ? "" : ": ", what.c_str()),
                  vf::fmt("phase=%s type=%s presentation=%s block=%d input_len=%u\ninput=", ph, ty, pr, o.bb.block,
                          o.bb.input_len) + hex(input, 2048));
    VF_COUNT("obs:child_died");
    unsigned bit = kind_bit_of(pr);
    // died while generating / serializing (no presentation involved): once, retry with the
    // conservative generator (no empty vector<float|double>, the only generator choice that
    // changes which library code runs before the first parse)
    if (!bit && !(skip_kinds & SKIP_GEN_EMPTY_FP_VECTORS)) bit = SKIP_GEN_EMPTY_FP_VECTORS;
    if (!bit || (skip_kinds & bit)) {
      vf::note(vf::fmt("slice %s/%s abandoned after death outside a skippable presentation (%s)", phase, type, key.c_str()));
      return;
    }
    skip_kinds |= bit;
    vf::note(vf::fmt("slice %s/%s: %s disabled after %s; slice re-run", phase, type,
                     bit == SKIP_GEN_EMPTY_FP_VECTORS ? "empty vector<float|double> values" : pr, key.c_str()));
  }
}

}  // namespace child

////////////////////////////////////////////////////////////////////////////////
// phase 1: round trip + size, per root type
template <typename T>
void roundtrip_type(const char* name, int idx, uint64_t seed, uint64_t nvalues, unsigned skip) {
  std::unique_ptr<Holder<T>> src;
  for (uint64_t i = 0; i < nvalues; ++i) {
    child::arm_cpu_timer();
    uint64_t vseed = vf::mix(seed, uint64_t(idx), i, 0x11);
    uint64_t salt = vf::mix(seed, uint64_t(idx), i, 0x12);
    Gen g(vseed);
    g.no_empty_fp_vectors = (skip & SKIP_GEN_EMPTY_FP_VECTORS) != 0;
    bool reuse = src && (salt & 1);
    if (!reuse) src.reset(new Holder<T>);
    gen_root(g, *src);
    if (reuse) {
      // The object already went through size passes for its previous value. What it
      // serializes to must depend on its value only: compare with a fresh object that is
      // given the same value (sizes only — unordered containers may iterate differently).
      VF_COUNT("obs:source_object_reused");
      bb_set("roundtrip-reused-object", name, nullptr, "");
      std::unique_ptr<Holder<T>> fresh(new Holder<T>);
      Gen g2(vseed);
      g2.no_empty_fp_vectors = g.no_empty_fp_vectors;
      gen_root(g2, *fresh);
      std::string b_reused, b_fresh;
      bool ok1 = Serialization::serialize_to_string(src->ref(), b_reused);
      bool ok2 = Serialization::serialize_to_string(fresh->ref(), b_fresh);
      size_t predicted = Serialization::calculate_serialized_size(src->ref());
      if (!ok1 || !ok2 || b_reused.size() != b_fresh.size()) {
        sink()->violation(std::string("c11:stale-size-cache:") + name,
                          vf::fmt("an object that was serialized before with another value serializes to %zu bytes "
                                  "(predicted %zu); a fresh object holding the same value serializes to %zu bytes",
                                  b_reused.size(), predicted, b_fresh.size()),
                          "reused object=" + hex(b_reused) + "\nfresh object =" + hex(b_fresh));
        src.swap(fresh);  // go on with the fresh one
      }
    }
    roundtrip_value(name, *src, skip, salt);
    if (i < 1 && idx % 16 == 3) {
      std::string bytes;
      Serialization::serialize_to_string(src->ref(), bytes);
      sink()->sample(vf::fmt("{\"phase\": \"roundtrip\", \"type\": %s, \"bytes\": %zu, \"hex\": %s, \"presentations\": %zu}",
                             vf::jstr(name).c_str(), bytes.size(), vf::jstr(hex(bytes, 48)).c_str(), presentations().size()));
    }
  }
}

////////////////////////////////////////////////////////////////////////////////
// wire-format walker (top level of a message-shaped encoding)
struct WireRec {
  size_t off, len;          // whole record
  uint32_t field, wt;
  size_t len_off, len_len;  // position of the length varint (wt == 2)
  size_t pay_off, pay_len;
};
static bool read_varint(const std::string& s, size_t& p, uint64_t& v) {
  v = 0;
  for (int i = 0; i < 10 && p < s.size(); ++i) {
    uint8_t b = uint8_t(s[p++]);
    v |= uint64_t(b & 0x7f) << (7 * i);
    if (!(b & 0x80)) return true;
  }
  return false;
}
static void put_varint(std::string& s, uint64_t v) {
  while (v >= 0x80) {
    s.push_back(char(v | 0x80));
    v >>= 7;
  }
  s.push_back(char(v));
}
static std::vector<WireRec> walk(const std::string& s, size_t begin, size_t end) {
  std::vector<WireRec> out;
  size_t p = begin;
  std::string view = s.substr(0, end);
  while (p < end) {
    WireRec r {};
    r.off = p;
    uint64_t tag;
    if (!read_varint(view, p, tag)) break;
    r.field = uint32_t(tag >> 3);
    r.wt = uint32_t(tag & 7);
    if (r.wt == 0) {
      uint64_t v;
      r.pay_off = p;
      if (!read_varint(view, p, v)) break;
      r.pay_len = p - r.pay_off;
    } else if (r.wt == 1 || r.wt == 5) {
      size_t n = r.wt == 1 ? 8 : 4;
      if (p + n > end) break;
      r.pay_off = p;
      r.pay_len = n;
      p += n;
    } else if (r.wt == 2) {
      uint64_t n;
      r.len_off = p;
      if (!read_varint(view, p, n)) break;
      r.len_len = p - r.len_off;
      if (n > end - p) break;
      r.pay_off = p;
      r.pay_len = size_t(n);
      p += size_t(n);
    } else {
      break;
    }
    r.len = p - r.off;
    out.push_back(r);
  }
  return out;
}

////////////////////////////////////////////////////////////////////////////////
// phase 2: protobuf compatibility
#define TWIN_SCALARS(X) X(b) X(i8) X(i16) X(i32) X(i64) X(u8) X(u16) X(u32) X(u64) X(f) X(d) X(e) X(s) X(by)
#define TWIN_PACKED(X) X(rpb) X(rpi8) X(rpi16) X(rpi32) X(rpi64) X(rpu8) X(rpu16) X(rpu32) X(rpu64) X(rpf) X(rpd) X(rpe)
#define TWIN_UNPACKED(X) X(rb) X(ri8) X(ri16) X(ri32) X(ri64) X(ru8) X(ru16) X(ru32) X(ru64) X(rf) X(rd) X(re)

// presence: babylon always writes scalars; an empty string member is not written (documented), protobuf then
// reports the default "" for it
template <typename A>
static bool presence_ok(const A& a, bool has) {
  if constexpr (std::is_same_v<A, std::string>) return has || a.empty();
  else return has;
}
template <typename A, typename B>
static bool same_scalar(const A& a, const B& b) {
  if constexpr (std::is_floating_point_v<A>) return memcmp(&a, &b, sizeof a) == 0 && sizeof(a) == sizeof(b);
  else if constexpr (std::is_same_v<A, std::string>) return a == b;
  else return int64_t(a) == int64_t(b) || (std::is_unsigned_v<A> && uint64_t(a) == uint64_t(b));
}
template <typename V, typename R>
static bool same_repeated(const V& v, const R& r) {
  if (size_t(r.size()) != v.size()) return false;
  for (size_t i = 0; i < v.size(); ++i) {
    auto a = v[i];
    auto b = r.Get(int(i));
    if (!same_scalar(decltype(b)(a), b)) return false;
  }
  return true;
}

// babylon struct -> protobuf message: every field of the table ("<->" and "<-")
static std::string diff_sub_vs_message(const TwinSub& t, const TestMessage& m) {
#define CMP(x) if (!presence_ok(t.x, m.has_##x()) || !same_scalar(t.x, m.x())) return #x;
  CMP(b) CMP(i8) CMP(i16) CMP(i32) CMP(i64) CMP(u8) CMP(u16) CMP(u32) CMP(u64) CMP(f) CMP(d) CMP(s) CMP(by)
#undef CMP
  if (!m.has_e() || int(m.e()) != t.e) return "e";
  if (!same_repeated(t.rpb, m.rpb())) return "rpb";
  if (!same_repeated(t.rpi32, m.rpi32())) return "rpi32";
  if (!same_repeated(t.rpd, m.rpd())) return "rpd";
  return "";
}
static std::string diff_twin_vs_message(const Twin& t, const TestMessage& m) {
#define CMP(x) if (!presence_ok(t.x, m.has_##x()) || !same_scalar(t.x, m.x())) return #x;
  TWIN_SCALARS(CMP)
#undef CMP
#define CMP(x) if (!same_repeated(t.x, m.x())) return #x;
  TWIN_PACKED(CMP)
  TWIN_UNPACKED(CMP)
#undef CMP
  if (!m.has_m()) return "m";
  std::string d = diff_sub_vs_message(t.m, m.m());
  if (!d.empty()) return "m." + d;
  if (bool(t.pm) != m.has_pm()) return "pm(presence)";
  if (t.pm) {
    d = diff_sub_vs_message(*t.pm, m.pm());
    if (!d.empty()) return "pm." + d;
  }
  return "";
}

// protobuf message -> expected babylon struct ("<->" kinds only; absent fields keep defaults)
static void expect_sub_from_message(const TestMessage& m, TwinSub& t) {
#define CP(x) if (m.has_##x()) t.x = decltype(t.x)(m.x());
  CP(b) CP(i8) CP(i16) CP(i32) CP(i64) CP(u8) CP(u16) CP(u32) CP(u64) CP(f) CP(d) CP(s) CP(by)
#undef CP
  if (m.has_e()) t.e = int(m.e());
  t.rpb.assign(m.rpb().begin(), m.rpb().end());
  t.rpi32.assign(m.rpi32().begin(), m.rpi32().end());
  t.rpd.assign(m.rpd().begin(), m.rpd().end());
}
static void expect_twin_from_message(const TestMessage& m, Twin& t) {
#define CP(x) if (m.has_##x()) t.x = decltype(t.x)(m.x());
  TWIN_SCALARS(CP)
#undef CP
#define CP(x) { t.x.clear(); for (auto e : m.x()) t.x.push_back(typename decltype(t.x)::value_type(e)); }
  TWIN_PACKED(CP)
#undef CP
  if (m.has_m()) expect_sub_from_message(m.m(), t.m);
  if (m.has_pm() && m.pm().ByteSizeLong() > 0) {
    t.pm.reset(new TwinSub);
    expect_sub_from_message(m.pm(), *t.pm);
  }
}

static std::string permute_records(const std::string& bytes, vf::Rng& r) {
  auto recs = walk(bytes, 0, bytes.size());
  size_t covered = 0;
  for (auto& x : recs) covered += x.len;
  if (covered != bytes.size()) return bytes;  // not message shaped (cannot happen for valid encodings)
  for (size_t i = recs.size(); i > 1; --i) std::swap(recs[i - 1], recs[r.below(i)]);
  std::string out;
  for (auto& x : recs) out.append(bytes, x.off, x.len);
  return out;
}

static void compat_phase(uint64_t seed, uint64_t ncases) {
  for (uint64_t i = 0; i < ncases; ++i) {
    child::arm_cpu_timer();
    uint64_t salt = vf::mix(seed, i, 0x21);
    Gen g(salt, 800, true);
    bool nontrivial = false;
    // ---- babylon -> protobuf
    {
      Holder<Twin> h;
      gen_root(g, h);
      Twin& t = h.ref();
      std::string bytes;
      bb_set("compat-b2p", "Twin", nullptr, "");
      if (!serialize_all_ways("Twin", t, bytes, salt)) continue;
      bb_set("compat-b2p", "Twin", nullptr, bytes);
      std::string variants[2] = {bytes, permute_records(bytes, g.r)};
      for (int k = 0; k < 2; ++k) {
        TestMessage m;
        std::string detail = vf::fmt("direction=babylon->protobuf order=%s size=%zu\nbytes=", k ? "permuted" : "as-written",
                                     variants[k].size()) + hex(variants[k]);
        if (!m.ParseFromString(variants[k])) {
          sink()->violation(k ? "c11:compat:b2p:permuted:protobuf-rejects" : "c11:compat:b2p:protobuf-rejects",
                            "protobuf cannot parse the bytes babylon produced for the twin struct", detail);
          break;
        }
        std::string d = diff_twin_vs_message(t, m);
        if (!d.empty()) {
          sink()->violation(std::string(k ? "c11:compat:b2p:permuted:field:" : "c11:compat:b2p:field:") + d,
                            "protobuf reads a different value than babylon wrote for field " + d, detail);
          break;
        }
        if (!m.unknown_fields().empty()) {
          sink()->violation("c11:compat:b2p:stray-unknown-fields",
                            "babylon emitted data the protobuf schema does not know for a struct that mirrors it", detail);
          break;
        }
      }
      VF_COUNT("obs:compat_b2p");
      // ---- newer babylon writer -> older babylon reader (unknown fields of every wire type skipped)
      TwinOld ex;
      ex.i32 = t.i32;
      ex.u64 = t.u64;
      if (!t.s.empty()) ex.s = t.s;  // an empty string member is not written: the reader keeps its default
      ex.m.i64 = t.m.i64;
      ex.m.by = t.m.by;
      ex.rpi32 = t.rpi32;
      ex.rpd = t.rpd;
      check_parse_all("compat-b2old", "TwinOld", variants[i & 1], ex, 0, salt, "Twin bytes read by an older struct");
      nontrivial = nontrivial || bytes.size() >= 128;
      sink()->evaluated(vf::mix(0xC11B, std::hash<std::string> {}(bytes)), true);
    }
    // ---- protobuf -> babylon
    {
      TestMessage m;
      unsigned unset = unsigned(g.r.pick<int>({0, 4, 4, 12}));
      gen_test_message_leaf(g, m, true, unset);
      if (g.r.chance(2, 3)) gen_test_message_leaf(g, *m.mutable_m(), true, unset);
      if (g.r.chance(1, 2)) gen_test_message_leaf(g, *m.mutable_pm(), g.r.chance(1, 2), unset);
      for (size_t k = 0, n = g.r.below(3); k < n; ++k) gen_test_message_leaf(g, *m.add_rm(), false, 8);  // "-" kind
      for (size_t k = 0, n = g.r.below(4); k < n; ++k) m.add_rs(std::string(g.r.below(200), 'r'));        // "-" kind
      std::string bytes;
      m.SerializeToString(&bytes);
      Twin ex;
      expect_twin_from_message(m, ex);
      std::string order = g.r.chance(1, 2) ? permute_records(bytes, g.r) : bytes;
      if (order != bytes) VF_COUNT("obs:compat_p2b_permuted");
      check_parse_all("compat-p2b", "Twin", order, ex, 0, salt,
                      "direction=protobuf->babylon (TestMessage bytes incl. kinds the struct does not know)");
      // babylon's own view of a protobuf message as root type must agree with protobuf
      VF_COUNT("obs:compat_p2b");
      if (unset >= 12) VF_COUNT("rare:compat_mostly_absent_fields");
      sink()->evaluated(vf::mix(0xC11C, std::hash<std::string> {}(bytes)), true);
      if (i == 0)
        sink()->sample(vf::fmt("{\"phase\": \"compat\", \"direction\": \"protobuf->babylon\", \"bytes\": %zu, \"records\": %zu, "
                               "\"permuted\": %s}", bytes.size(), walk(bytes, 0, bytes.size()).size(),
                               order != bytes ? "true" : "false"));
    }
  }
}

////////////////////////////////////////////////////////////////////////////////
// phase 3: hostile input by structured mutation
static const uint64_t kEvilLengths[] = {0,          1,          0x7f,        0x80,         0x3fff,      0x4000,
                                        0x1fffff,   0x200000,   0x7ffffff0,  0x7fffffff,   0x80000000ull, 0xffffffffull,
                                        0x100000000ull, 0x100000005ull, 0x7fffffffffffffffull, 0xffffffffffffffffull};

static std::string deep_nest(uint32_t field, size_t depth, const std::string& innermost) {
  std::string tag;
  put_varint(tag, (uint64_t(field) << 3) | 2);
  std::vector<uint64_t> len(depth + 1);
  len[0] = innermost.size();
  for (size_t k = 1; k <= depth; ++k) {
    std::string v;
    put_varint(v, len[k - 1]);
    len[k] = tag.size() + v.size() + len[k - 1];
  }
  std::string out;
  out.reserve(size_t(len[depth]));
  for (size_t k = depth; k >= 1; --k) {
    out += tag;
    put_varint(out, len[k - 1]);
  }
  out += innermost;
  return out;
}

static std::string mutate(const std::string& base, const std::string& other, vf::Rng& r, std::string& desc) {
  std::string s = base;
  int rounds = int(r.range(1, 3));
  for (int round = 0; round < rounds; ++round) {
    // descend into nested length-delimited payloads with some probability
    size_t begin = 0, end = s.size();
    std::vector<WireRec> recs = walk(s, begin, end);
    for (int d = 0; d < 4 && !recs.empty() && r.chance(1, 2); ++d) {
      std::vector<size_t> lds;
      for (size_t i = 0; i < recs.size(); ++i)
        if (recs[i].wt == 2 && recs[i].pay_len > 1) lds.push_back(i);
      if (lds.empty()) break;
      const WireRec& w = recs[lds[r.below(lds.size())]];
      auto inner = walk(s, w.pay_off, w.pay_off + w.pay_len);
      if (inner.empty()) break;
      begin = w.pay_off;
      end = w.pay_off + w.pay_len;
      recs = inner;
    }
    switch (r.below(10)) {
      case 0: {  // truncate
        size_t at = s.empty() ? 0 : size_t(r.below(s.size()));
        s.resize(at);
        desc += vf::fmt("truncate@%zu ", at);
        break;
      }
      case 1: {  // byte noise
        if (s.empty()) break;
        size_t n = size_t(r.range(1, 4));
        for (size_t i = 0; i < n; ++i) s[r.below(s.size())] = char(r.next());
        desc += "noise ";
        break;
      }
      case 2: {  // over-long / unterminated varint somewhere
        size_t at = s.empty() ? 0 : size_t(r.below(s.size() + 1));
        std::string v;
        switch (r.below(4)) {
          case 0: v = std::string(9, '\xff') + '\x01'; break;
          case 1: v = std::string(10, '\xff'); break;
          case 2: v = std::string(size_t(r.range(1, 12)), '\x80'); break;
          default: put_varint(v, kEvilLengths[r.below(sizeof kEvilLengths / sizeof *kEvilLengths)]);
        }
        if (r.chance(1, 2)) s.insert(at, v);
        else s.replace(at, std::min(v.size(), s.size() - at), v);
        desc += vf::fmt("evil-varint@%zu ", at);
        break;
      }
      case 3: {  // wrong wire type on a tag
        if (recs.empty()) break;
        const WireRec& w = recs[r.below(recs.size())];
        s[w.off] = char(uint8_t(s[w.off]) ^ uint8_t(r.range(1, 7)));
        desc += vf::fmt("wiretype(field %u)@%zu ", w.field, w.off);
        break;
      }
      case 4: case 5: {  // length prefix of a record
        std::vector<size_t> lds;
        for (size_t i = 0; i < recs.size(); ++i)
          if (recs[i].wt == 2) lds.push_back(i);
        if (lds.empty()) break;
        const WireRec& w = recs[lds[r.below(lds.size())]];
        uint64_t nl;
        switch (r.below(5)) {
          case 0: nl = w.pay_len ? w.pay_len - 1 : 1; break;
          case 1: nl = w.pay_len + 1; break;
          case 2: nl = (s.size() - w.pay_off) + r.below(3); break;  // exactly the rest / one past the end
          default: nl = kEvilLengths[r.below(sizeof kEvilLengths / sizeof *kEvilLengths)];
        }
        std::string v;
        put_varint(v, nl);
        s.replace(w.len_off, w.len_len, v);
        desc += vf::fmt("length(field %u)=%llu ", w.field, (unsigned long long)nl);
        break;
      }
      case 6: {  // duplicate / transplant a record
        std::vector<WireRec> orecs = walk(other, 0, other.size());
        std::string rec;
        if (!orecs.empty() && r.chance(1, 2)) {
          const WireRec& w = orecs[r.below(orecs.size())];
          rec = other.substr(w.off, w.len);
        } else if (!recs.empty()) {
          const WireRec& w = recs[r.below(recs.size())];
          rec = s.substr(w.off, w.len);
        }
        size_t at = recs.empty() ? s.size() : (r.chance(1, 2) ? recs[r.below(recs.size())].off : s.size());
        s.insert(std::min(at, s.size()), rec);
        desc += "dup-record ";
        break;
      }
      case 7: {  // unknown field of any wire type, valid or not
        std::string rec;
        uint32_t field = uint32_t(r.pick<uint64_t>({0, 1, 2, 15, 16, 63, 999, 12345, 536870911, r.below(70)}));
        uint32_t wt = uint32_t(r.below(8));
        put_varint(rec, (uint64_t(field) << 3) | wt);
        if (wt == 0) put_varint(rec, r.next());
        else if (wt == 1) rec += std::string(size_t(r.chance(1, 8) ? r.below(8) : 8), 'F');
        else if (wt == 5) rec += std::string(size_t(r.chance(1, 8) ? r.below(4) : 4), 'f');
        else if (wt == 2) {
          size_t n = size_t(r.below(40));
          put_varint(rec, r.chance(1, 6) ? kEvilLengths[r.below(sizeof kEvilLengths / sizeof *kEvilLengths)] : n);
          rec += std::string(n, 'u');
        }
        size_t at = recs.empty() ? s.size() : (r.chance(1, 2) ? recs[r.below(recs.size())].off : s.size());
        s.insert(std::min(at, s.size()), rec);
        desc += vf::fmt("unknown(field %u wt %u) ", field, wt);
        break;
      }
      case 8: {  // pure noise
        size_t n = size_t(r.below(64));
        s.resize(n);
        for (auto& c : s) c = char(r.next());
        desc += "random-bytes ";
        break;
      }
      default: {  // reorder
        s = permute_records(s, r);
        desc += "permute ";
      }
    }
  }
  return s;
}

template <typename T>
void hostile_type(const char* name, int idx, uint64_t seed, uint64_t ninputs, unsigned skip) {
  std::vector<Pres> limit, nolimit;
  for (const Pres& p : presentations()) (p.kind == P_STREAM_LIMIT ? limit : nolimit).push_back(p);
  nolimit.erase(std::remove_if(nolimit.begin(), nolimit.end(), [](const Pres& p) { return p.kind != P_STREAM_NOLIMIT; }),
                nolimit.end());
  std::string prev;
  auto feed = [&](const std::string& input, uint64_t salt, const std::string& desc) {
    child::arm_cpu_timer();
    vf::Rng r(salt);
    bool accepted = false;
    if (!(skip & (1u << P_ARRAY))) accepted |= hostile_one<T>(name, input, Pres {P_ARRAY, 0}, salt);
    if (!(skip & (1u << P_STREAM_LIMIT))) accepted |= hostile_one<T>(name, input, limit[r.below(limit.size())], salt);
    if (!(skip & (1u << P_STREAM_NOLIMIT))) accepted |= hostile_one<T>(name, input, nolimit[r.below(nolimit.size())], salt);
    sink()->evaluated(vf::mix(0xC11D, std::hash<std::string> {}(name), std::hash<std::string> {}(input)), accepted);
    (void)desc;
  };
  for (uint64_t i = 0; i < ninputs; ++i) {
    uint64_t salt = vf::mix(seed, uint64_t(idx), i, 0x31);
    Gen g(salt, 200);
    g.no_empty_fp_vectors = (skip & SKIP_GEN_EMPTY_FP_VECTORS) != 0;
    Holder<T> h;
    gen_root(g, h);
    std::string bytes;
    Serialization::serialize_to_string(h.ref(), bytes);
    std::string desc;
    std::string input = mutate(bytes, prev, g.r, desc);
    feed(input, salt, desc);
    if (i == 0 && idx % 16 == 5)
      sink()->sample(vf::fmt("{\"phase\": \"hostile\", \"type\": %s, \"mutation\": %s, \"input_bytes\": %zu, \"hex\": %s}",
                             vf::jstr(name).c_str(), vf::jstr(desc).c_str(), input.size(), vf::jstr(hex(input, 48)).c_str()));
    prev.swap(bytes);
  }
  // deep nesting through every small field number (21/22 = TestMessage.m/pm, 3 = ArenaExample.m, 1.. = first members)
  size_t depths[] = {10, 99, 100, 101, 1000, 10000, 100000};
  uint32_t fields[] = {1, 3, 21};
  bool has_pb = strstr(name, "pb_") || strstr(name, "WithMsg") || strstr(name, "L5");
  for (size_t d : depths) {
    // 10^4 / 10^5 levels: only where input can nest deeper than the static type (protobuf members) and on L5
    if (d > 1000 && !has_pb && !(vf::args().thorough && idx % 4 == 0)) continue;
    for (uint32_t f : fields) {
      std::string inner = (f % 2) ? std::string() : std::string("\x08\x01", 2);
      feed(deep_nest(f, d, inner), vf::mix(seed, d, f), "deep-nest");
      VF_COUNT("obs:hostile_deep_nesting");
    }
  }
}

////////////////////////////////////////////////////////////////////////////////
int main(int argc, char** argv) {
  vf::init(argc, argv, "C11", "c11_serialize");
  auto& a = vf::args();
  std::string mode = a.mode.empty() ? "all" : a.mode;
  std::string only = a.kv.count("type") ? a.kv.at("type") : "";
  // core dumps of dying children are of no use here
  struct rlimit rl {0, 0};
  setrlimit(RLIMIT_CORE, &rl);

  uint64_t n_rt = vf::budget(30, 20000);       // values per root type (x 18 presentations)
  uint64_t n_compat = vf::budget(250, 200000);
  uint64_t n_hostile = vf::budget(100, 60000);  // inputs per root type (x 3 presentations)
  std::vector<unsigned> skip(size_t(kRoots), 0u);

  if (mode == "all" || mode == "roundtrip") {
    for (int idx = 0; idx < kRoots; ++idx) {
      if (!only.empty() && only != root_name(idx)) continue;
      with_root(idx, [&]<typename T>(const char* name) {
        child::run_slice("roundtrip", name, skip[size_t(idx)],
                         [&](unsigned sk) { roundtrip_type<T>(name, idx, a.seed, n_rt, sk); });
      });
    }
  }
  if ((mode == "all" || mode == "compat") && only.empty()) {
    unsigned sk = 0;
    child::run_slice("compat", "Twin", sk, [&](unsigned) { compat_phase(a.seed, n_compat); });
  }
  if (mode == "all" || mode == "hostile") {
    for (int idx = 0; idx < kRoots; ++idx) {
      if (!only.empty() && only != root_name(idx)) continue;
      with_root(idx, [&]<typename T>(const char* name) {
        child::run_slice("hostile", name, skip[size_t(idx)],
                         [&](unsigned sk) { hostile_type<T>(name, idx, a.seed, n_hostile, sk); });
      });
    }
  }
  std::string sk = "{";
  bool first = true;
  for (int idx = 0; idx < kRoots; ++idx)
    if (skip[size_t(idx)]) {
      std::string kinds;
      for (int k = 0; k < P_KINDS; ++k)
        if (skip[size_t(idx)] & (1u << k)) kinds += std::string(kinds.empty() ? "" : ",") + pres_class(PresKind(k));
      if (skip[size_t(idx)] & SKIP_GEN_EMPTY_FP_VECTORS) kinds += std::string(kinds.empty() ? "" : ",") + "gen:empty-fp-vectors";
      sk += std::string(first ? "" : ", ") + vf::jstr(root_name(idx)) + ": " + vf::jstr(kinds);
      first = false;
    }
  vf::extra("disabled_after_a_death", sk + "}");
  vf::extra("root_types", std::to_string(kRoots));
  vf::extra("presentations", std::to_string(presentations().size()));
  return vf::finish();
}
