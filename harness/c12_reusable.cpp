// C12 — reusable containers and manager (DESIGN §5 C12). Sequential differential model.
// VF_USES_PROTO (links /repo/test/proto/arena_example.proto for the reusable/message.h part)
//
// modes (--mode, default all; cases rotate over them):
//   vec_int / vec_str / vec_nested / vec_cnt : ReusableVector<T> vs std::vector<M>, three vectors (two on one
//       SwissMemoryResource, one on another), every std-like operation incl. copy/move with equal and different
//       allocators; contents + invariants compared after every operation; for the counting element a shadow
//       set of live object addresses turns "construct over a live object", "assign to / read from an
//       unconstructed slot", "destroy twice" and ctor/dtor imbalance into violations.
//   str   : MonotonicString / SwissString vs std::string.
//   reuse : ReusableManager<SwissMemoryResource> with string, vector<int>, vector<string>, vector<vector<int>>
//       and a protobuf message; random fills, clear() with recreate interval 1..7; fresh-after-clear, capacity
//       retention, accessor validity, metadata round trip.
//   conv  : fixed workload repeated for 6 recreation periods: after the 2nd recreation space_allocated(), the
//       pages held and the operator-new bytes at the same phase must not grow.
// Stated assumption: arguments never alias elements of the container being modified (no self-assign/insert).
#include <malloc.h>

#include <memory>
#include <new>
#include <unordered_set>

#include "common/vf.h"

#include "babylon/reusable/manager.h"
#include "babylon/reusable/string.h"
#include "babylon/reusable/vector.h"

#include <arena_example.pb.h>

////////////////////////////////////////////////////////////////////////////////
// operator new accounting (bytes requested while the window flag is on)
static bool g_new_window = false;
static uint64_t g_new_bytes = 0, g_new_calls = 0;
static inline void* vf_new(size_t n, size_t al) {
  if (g_new_window) { g_new_bytes += n; ++g_new_calls; }
  void* p = al > alignof(std::max_align_t) ? ::aligned_alloc(al, (n + al - 1) / al * al) : ::malloc(n ? n : 1);
  if (!p) { fprintf(stderr, "out of memory\n"); abort(); }
  return p;
}
void* operator new(size_t n) { return vf_new(n, 0); }
void* operator new[](size_t n) { return vf_new(n, 0); }
void* operator new(size_t n, const std::nothrow_t&) noexcept { return vf_new(n, 0); }
void* operator new[](size_t n, const std::nothrow_t&) noexcept { return vf_new(n, 0); }
void* operator new(size_t n, std::align_val_t a) { return vf_new(n, size_t(a)); }
void* operator new[](size_t n, std::align_val_t a) { return vf_new(n, size_t(a)); }
void operator delete(void* p) noexcept { ::free(p); }
void operator delete[](void* p) noexcept { ::free(p); }
void operator delete(void* p, size_t) noexcept { ::free(p); }
void operator delete[](void* p, size_t) noexcept { ::free(p); }
void operator delete(void* p, std::align_val_t) noexcept { ::free(p); }
void operator delete[](void* p, std::align_val_t) noexcept { ::free(p); }
void operator delete(void* p, size_t, std::align_val_t) noexcept { ::free(p); }
void operator delete[](void* p, size_t, std::align_val_t) noexcept { ::free(p); }
void operator delete(void* p, const std::nothrow_t&) noexcept { ::free(p); }
void operator delete[](void* p, const std::nothrow_t&) noexcept { ::free(p); }

namespace {

using babylon::MonotonicString;
using babylon::ReusableAccessor;
using babylon::ReusableManager;
using babylon::Reuse;
using babylon::SwissAllocator;
using babylon::SwissMemoryResource;
using babylon::SwissString;
using babylon::SwissVector;

bool g_stop = false;
std::set<std::string> g_reported;

////////////////////////////////////////////////////////////////////////////////
// counting element with a shadow set of live addresses
struct Shadow {
  std::unordered_set<const void*> live;
  std::string err;  // first lifetime error
  uint64_t ctors = 0, dtors = 0, assigns = 0;
  void fail(const char* what, const void* p) {
    if (err.empty()) err = vf::fmt("%s (object at %p)", what, p);
  }
};
Shadow g_sh;
struct Cnt {
  using AllocationMetadata = void;  // marks the type reusable (no capacity of its own)
  int id;
  void born() { ++g_sh.ctors; if (!g_sh.live.insert(this).second) g_sh.fail("an element was constructed over a live (constructed) element", this); }
  static void need(const Cnt* p, const char* what) { if (!g_sh.live.count(p)) g_sh.fail(what, p); }
  Cnt() : id(0) { born(); }
  Cnt(int i) : id(i) { born(); }
  Cnt(const Cnt& o) : id(o.id) { need(&o, "copy-construction read an unconstructed / destroyed element"); born(); }
  Cnt(Cnt&& o) noexcept : id(o.id) { need(&o, "move-construction read an unconstructed / destroyed element"); born(); o.id = -1; }
  Cnt& operator=(const Cnt& o) {
    ++g_sh.assigns;
    need(this, "assignment wrote to an unconstructed / destroyed slot");
    need(&o, "assignment read an unconstructed / destroyed element");
    id = o.id;
    return *this;
  }
  Cnt& operator=(Cnt&& o) noexcept {
    ++g_sh.assigns;
    need(this, "move-assignment wrote to an unconstructed / destroyed slot");
    need(&o, "move-assignment read an unconstructed / destroyed element");
    int v = o.id;
    if (&o != this) o.id = -1;
    id = v;
    return *this;
  }
  ~Cnt() { ++g_sh.dtors; if (!g_sh.live.erase(this)) g_sh.fail("an element was destroyed twice / never constructed", this); }
};

////////////////////////////////////////////////////////////////////////////////
// element kinds: T element of the ReusableVector, M model element, V argument type handed to the vector
std::string gen_string(vf::Rng& r) {
  size_t len = r.pick<size_t>({0, 1, 7, 15, 16, 17, 31, 40, 100, 200});
  if (r.chance(1, 3)) len = r.below(48);
  std::string s(len, 'a');
  for (auto& c : s) c = char('a' + r.below(26));
  return s;
}
struct EInt {
  using T = int; using M = int; using V = int;
  static const char* name() { return "vec_int"; }
  static M gen(vf::Rng& r) { return int(r.below(1000000)) + 1; }
  static V arg(const M& m, SwissMemoryResource&) { return m; }
  static bool eq(const T& t, const M& m) { return t == m; }
  static M dflt() { return 0; }
  static std::string show(const M& m) { return std::to_string(m); }
};
struct EStr {
  using T = SwissString; using M = std::string; using V = std::string;
  static const char* name() { return "vec_str"; }
  static M gen(vf::Rng& r) { return gen_string(r); }
  static V arg(const M& m, SwissMemoryResource&) { return m; }
  static bool eq(const T& t, const M& m) { return t.size() == m.size() && memcmp(t.data(), m.data(), m.size()) == 0 && t.c_str()[t.size()] == 0; }
  static M dflt() { return std::string(); }
  static std::string show(const M& m) { return "\"" + m.substr(0, 24) + "\"(" + std::to_string(m.size()) + ")"; }
};
struct ENested {
  using T = SwissVector<int>; using M = std::vector<int>; using V = SwissVector<int>;
  static const char* name() { return "vec_nested"; }
  static M gen(vf::Rng& r) { M m(r.pick<size_t>({0, 1, 3, 4, 5, 8, 9, 20})); for (auto& x : m) x = int(r.below(100000)); return m; }
  static V arg(const M& m, SwissMemoryResource& scratch) { return V(m.begin(), m.end(), SwissAllocator<int>(scratch)); }
  static bool eq(const T& t, const M& m) { if (t.size() != m.size()) return false; for (size_t i = 0; i < m.size(); ++i) if (t[i] != m[i]) return false; return t.size() <= t.constructed_size() && t.constructed_size() <= t.capacity(); }
  static M dflt() { return M(); }
  static std::string show(const M& m) { return "[" + std::to_string(m.size()) + " ints]"; }
};
struct ECnt {
  using T = Cnt; using M = int; using V = Cnt;
  static const char* name() { return "vec_cnt"; }
  static M gen(vf::Rng& r) { return int(r.below(1000000)) + 1; }
  static V arg(const M& m, SwissMemoryResource&) { return Cnt(m); }
  static bool eq(const T& t, const M& m) { return t.id == m; }
  static M dflt() { return 0; }
  static std::string show(const M& m) { return std::to_string(m); }
};

////////////////////////////////////////////////////////////////////////////////
struct Base {
  vf::Rng rng;
  uint64_t seed, caseno;
  const char* kind;
  std::vector<std::string> oplog;
  uint64_t ophash = 0, nops = 0;
  bool boundary = false;
  Base(uint64_t s, uint64_t cn, const char* k) : rng(vf::mix(s, cn, 0xc12)), seed(s), caseno(cn), kind(k) {}
  void log(const std::string& s) {
    oplog.push_back(s);
    ophash = vf::mix(ophash, std::hash<std::string>()(s));
    ++nops;
    VF_COUNT("obs:ops");
    vf::progress();
  }
  std::string detail(const std::string& extra) {
    std::string d = vf::fmt("kind=%s seed=%lu case=%lu\n", kind, (unsigned long)seed, (unsigned long)caseno);
    d += extra + "\noperations so far (last 40 of " + std::to_string(oplog.size()) + "):\n";
    size_t from = oplog.size() > 40 ? oplog.size() - 40 : 0;
    for (size_t i = from; i < oplog.size(); ++i) d += vf::fmt("  #%zu %s\n", i, oplog[i].c_str());
    return d;
  }
  void bad(const std::string& key, const std::string& msg, const std::string& extra = "") {
    g_stop = true;
    if (g_reported.insert(key).second) vf::violation(key, msg, detail(extra));
  }
  // a divergence matching a known-defect pattern: own key, the run continues
  void known(const std::string& key, const std::string& msg, const std::string& extra = "") {
    VF_COUNT("obs:known_pattern_hits");
    if (g_reported.insert(key).second) vf::violation(key, msg, detail(extra));
  }
  void done() {
    vf::evaluated(vf::mix(ophash, std::hash<std::string>()(kind)), boundary);
    if (caseno % 13 == 0) {
      std::string s = vf::fmt("{\"kind\": \"%s\", \"case\": %lu, \"ops\": %lu, \"first_ops\": [", kind, (unsigned long)caseno, (unsigned long)nops);
      for (size_t i = 0; i < oplog.size() && i < 12; ++i) s += std::string(i ? ", " : "") + vf::jstr(oplog[i]);
      s += "]}";
      vf::sample(s, 4);
    }
  }
};

////////////////////////////////////////////////////////////////////////////////
// A: ReusableVector<T> vs std::vector<M>
template <typename E>
struct VecSession : Base {
  using T = typename E::T; using M = typename E::M; using V = typename E::V;
  using RV = SwissVector<T>;
  using MV = std::vector<M>;
  static constexpr int N = 3;
  std::unique_ptr<SwissMemoryResource> res[2], scratch;
  std::unique_ptr<RV> v[N];
  MV m[N];
  int rid[N];          // resource index of each vector
  size_t cap[N];

  VecSession(uint64_t s, uint64_t cn) : Base(s, cn, E::name()) {}
  SwissAllocator<T> alloc(int r) { return SwissAllocator<T>(*res[r]); }

  std::string st(int i) {
    return vf::fmt("v%d(resource %d): size=%zu constructed=%zu capacity=%zu model=%zu", i, rid[i], v[i]->size(), v[i]->constructed_size(),
                   v[i]->capacity(), m[i].size());
  }
  void compare(int i, const char* after, bool cap_may_change = false) {
    if (g_stop) return;
    RV& a = *v[i];
    MV& b = m[i];
    VF_COUNT("obs:compares");
    if (a.size() != b.size() || a.empty() != b.empty()) return bad("vector:size-mismatch", vf::fmt("size()=%zu empty()=%d, reference size %zu", a.size(), int(a.empty()), b.size()), std::string("after ") + after + "\n" + st(i));
    if (!(a.size() <= a.constructed_size() && a.constructed_size() <= a.capacity()))
      return bad("vector:invariant-size-constructed-capacity", "size <= constructed_size <= capacity does not hold", std::string("after ") + after + "\n" + st(i));
    if (a.constructed_size() > a.size()) { boundary = true; VF_COUNT("rare:constructed_beyond_size"); }
    if (!cap_may_change && a.capacity() < cap[i]) return bad("vector:capacity-decreased", vf::fmt("capacity() went from %zu to %zu", cap[i], a.capacity()), std::string("after ") + after + "\n" + st(i));
    cap[i] = a.capacity();
    if (a.capacity() && !res[rid[i]]->contains(a.data()))
      return bad("vector:storage-in-foreign-resource", "the vector's buffer lies outside the memory resource of its allocator", std::string("after ") + after + "\n" + st(i));
    const RV& ca = a;
    size_t n = b.size();
    int way = int(rng.below(4));
    for (size_t k = 0; k < n; ++k) {
      const T* t;
      switch (way) {
        case 0: t = &a[k]; break;
        case 1: t = &*(ca.begin() + k); break;
        case 2: t = &*(a.rbegin() + (n - 1 - k)); break;
        default: t = ca.data() + k; break;
      }
      if (!owned(*t, *res[rid[i]])) return bad("vector:storage-in-foreign-resource", vf::fmt("element %zu keeps its buffer outside the memory resource of its vector's allocator", k), std::string("after ") + after + "\n" + st(i));
      if (!E::eq(*t, b[k])) return bad("vector:content-mismatch", vf::fmt("element %zu of %zu differs from the reference (%s)", k, n, E::show(b[k]).c_str()), std::string("after ") + after + "\n" + st(i));
    }
    if (n) {
      if (!E::eq(a.front(), b.front()) || !E::eq(ca.back(), b.back())) return bad("vector:content-mismatch", "front()/back() differ from the reference", std::string("after ") + after + "\n" + st(i));
      if (size_t(a.end() - a.begin()) != n || size_t(ca.cend() - ca.cbegin()) != n || size_t(a.rend() - a.rbegin()) != n)
        return bad("vector:iterator-range", "end()-begin() differs from size()", std::string("after ") + after + "\n" + st(i));
    }
    VF_COUNT_N("obs:elements_compared", n);
    if (std::is_same<E, ECnt>::value) check_shadow(after);
  }
  static bool owned(const int&, SwissMemoryResource&) { return true; }
  static bool owned(const Cnt&, SwissMemoryResource&) { return true; }
  static bool owned(const SwissString& t, SwissMemoryResource& r) { return t.capacity() <= 15 || r.contains(t.data()); }
  static bool owned(const SwissVector<int>& t, SwissMemoryResource& r) { return t.capacity() == 0 || r.contains(t.data()); }
  void check_shadow(const char* after) {
    if (!g_sh.err.empty()) { std::string e = g_sh.err; g_sh.err.clear(); return bad("vector:element-lifetime", e, std::string("during ") + after); }
    size_t total = 0;
    for (int i = 0; i < N; ++i) {
      if (!v[i]) continue;  // still being set up
      total += v[i]->constructed_size();
      const Cnt* d = reinterpret_cast<const Cnt*>(v[i]->data());
      for (size_t k = 0; k < v[i]->constructed_size(); ++k)
        if (!g_sh.live.count(d + k)) return bad("vector:element-lifetime", vf::fmt("slot %zu < constructed_size of v%d holds no constructed element", k, i), std::string("after ") + after + "\n" + st(i));
    }
    size_t inside = 0;
    for (const void* p : g_sh.live) if (res[0]->contains(p) || res[1]->contains(p)) ++inside;
    if (inside != total)
      return bad("vector:ctor-dtor-balance", vf::fmt("%zu elements alive inside the vectors' resources, the vectors account for %zu constructed slots", inside, total), std::string("after ") + after);
  }
  void check_ret(int i, size_t got, size_t want, const char* what) {
    if (got != want) bad("vector:returned-iterator", vf::fmt("%s returned an iterator to index %zu, expected %zu", what, got, want), st(i));
  }
  template <typename F>
  static void with_il(const std::vector<V>& args, F&& f) {
    switch (args.size()) {
      case 0: { std::initializer_list<V> il = {}; f(il); } break;
      case 1: { std::initializer_list<V> il = {args[0]}; f(il); } break;
      case 2: { std::initializer_list<V> il = {args[0], args[1]}; f(il); } break;
      default: { std::initializer_list<V> il = {args[0], args[1], args[2]}; f(il); } break;
    }
  }
  size_t pick_count() { return rng.pick<size_t>({0, 1, 1, 2, 3, 5, 8, 17}); }

  void op_on(int i) {
    RV& a = *v[i];
    MV& b = m[i];
    SwissMemoryResource& sc = *scratch;
    size_t n = b.size();
    size_t idx = rng.below(n + 1);
    uint64_t x = rng.below(100);
    if (x < 12) {  // push_back / emplace_back
      M val = E::gen(rng);
      int w = int(rng.below(3));
      if (w == 0) { V arg = E::arg(val, sc); a.push_back(arg); }
      else if (w == 1) a.push_back(E::arg(val, sc));
      else a.emplace_back(E::arg(val, sc));
      b.push_back(val);
      log(vf::fmt("v%d.%s(%s)", i, w == 2 ? "emplace_back" : w ? "push_back(&&)" : "push_back(const&)", E::show(val).c_str()));
      VF_COUNT("obs:op_push_back");
      return compare(i, "push_back");
    }
    if (x < 18) {  // pop_back
      if (!n) return;
      a.pop_back(); b.pop_back();
      log(vf::fmt("v%d.pop_back()", i)); VF_COUNT("obs:op_pop_back");
      return compare(i, "pop_back");
    }
    if (x < 26) {  // insert single / emplace
      M val = E::gen(rng);
      int w = int(rng.below(3));
      size_t r;
      if (w == 0) { V arg = E::arg(val, sc); r = a.insert(a.cbegin() + idx, arg) - a.begin(); }
      else if (w == 1) r = a.insert(a.cbegin() + idx, E::arg(val, sc)) - a.begin();
      else r = a.emplace(a.cbegin() + idx, E::arg(val, sc)) - a.begin();
      b.insert(b.begin() + idx, val);
      log(vf::fmt("v%d.%s(%zu, %s)", i, w == 2 ? "emplace" : w ? "insert(&&)" : "insert(const&)", idx, E::show(val).c_str()));
      VF_COUNT("obs:op_insert_one");
      check_ret(i, r, idx, "insert/emplace");
      return compare(i, "insert one");
    }
    if (x < 32) {  // insert count copies
      size_t c = pick_count();
      M val = E::gen(rng);
      V arg = E::arg(val, sc);
      size_t r = a.insert(a.cbegin() + idx, c, arg) - a.begin();
      b.insert(b.begin() + idx, c, val);
      log(vf::fmt("v%d.insert(%zu, count=%zu, %s)", i, idx, c, E::show(val).c_str())); VF_COUNT("obs:op_insert_count");
      check_ret(i, r, idx, "insert(pos,count,value)");
      return compare(i, "insert count");
    }
    if (x < 40) {  // insert range / initializer list
      size_t c = pick_count();
      MV vals; std::vector<V> args;
      for (size_t k = 0; k < c; ++k) { vals.push_back(E::gen(rng)); args.push_back(E::arg(vals.back(), sc)); }
      size_t r;
      bool il = c <= 3 && rng.chance(1, 2);
      if (il) {
        r = 0;
        with_il(args, [&](std::initializer_list<V> il) { r = a.insert(a.cbegin() + idx, il) - a.begin(); });
      } else {
        r = a.insert(a.cbegin() + idx, args.begin(), args.end()) - a.begin();
      }
      b.insert(b.begin() + idx, vals.begin(), vals.end());
      log(vf::fmt("v%d.insert(%zu, %s of %zu)", i, idx, il ? "initializer_list" : "range", c)); VF_COUNT("obs:op_insert_range");
      check_ret(i, r, idx, "insert(pos,range)");
      return compare(i, "insert range");
    }
    if (x < 46) {  // erase one
      if (!n) return;
      idx = rng.below(n);
      size_t r = a.erase(a.cbegin() + idx) - a.begin();
      b.erase(b.begin() + idx);
      log(vf::fmt("v%d.erase(%zu)", i, idx)); VF_COUNT("obs:op_erase_one");
      check_ret(i, r, idx, "erase(pos)");
      return compare(i, "erase one");
    }
    if (x < 52) {  // erase range
      size_t f = rng.below(n + 1), l = f + rng.below(n - f + 1);
      size_t r = a.erase(a.cbegin() + f, a.cbegin() + l) - a.begin();
      b.erase(b.begin() + f, b.begin() + l);
      log(vf::fmt("v%d.erase(%zu, %zu)", i, f, l)); VF_COUNT("obs:op_erase_range");
      check_ret(i, r, f, "erase(first,last)");
      return compare(i, "erase range");
    }
    if (x < 58) {  // resize(n) / assign(n) (reuse extension: clear + resize)
      size_t c = rng.pick<size_t>({0, 1, n / 2, n, n + 1, n + 5, 2 * n + 3});
      if (rng.chance(1, 4)) { a.assign(c); b.assign(c, E::dflt()); log(vf::fmt("v%d.assign(%zu)  [count only]", i, c)); }
      else { a.resize(c); b.resize(c, E::dflt()); log(vf::fmt("v%d.resize(%zu)", i, c)); }
      VF_COUNT("obs:op_resize");
      return compare(i, "resize");
    }
    if (x < 63) {  // resize(n, value)
      size_t c = rng.pick<size_t>({0, 1, n / 2, n, n + 1, n + 5, 2 * n + 3});
      M val = E::gen(rng);
      V arg = E::arg(val, sc);
      a.resize(c, arg); b.resize(c, val);
      log(vf::fmt("v%d.resize(%zu, %s)", i, c, E::show(val).c_str())); VF_COUNT("obs:op_resize_value");
      return compare(i, "resize value");
    }
    if (x < 67) {  // reserve
      size_t c = rng.pick<size_t>({0, 1, n, n + 1, 2 * n + 1, 40});
      a.reserve(c);
      log(vf::fmt("v%d.reserve(%zu)", i, c)); VF_COUNT("obs:op_reserve");
      if (a.capacity() < c) bad("vector:reserve-capacity", vf::fmt("capacity() %zu < reserved %zu", a.capacity(), c), st(i));
      return compare(i, "reserve");
    }
    if (x < 72) {  // clear
      size_t c0 = a.capacity(), k0 = a.constructed_size();
      a.clear(); b.clear();
      log(vf::fmt("v%d.clear()", i)); VF_COUNT("obs:op_clear");
      if (a.capacity() != c0 || a.constructed_size() != k0)
        bad("vector:clear-loses-capacity", vf::fmt("clear() changed capacity %zu->%zu / constructed_size %zu->%zu", c0, a.capacity(), k0, a.constructed_size()), st(i));
      if (a.begin() != a.end() || !a.empty()) bad("vector:clear-not-empty", "after clear() the vector is not empty", st(i));
      return compare(i, "clear");
    }
    if (x < 80) {  // assign ×3 and operator=(initializer_list)
      size_t c = pick_count();
      int w = int(rng.below(4));
      if (w == 0) {
        M val = E::gen(rng);
        V arg = E::arg(val, sc);
        a.assign(c, arg); b.assign(c, val);
        log(vf::fmt("v%d.assign(%zu, %s)", i, c, E::show(val).c_str()));
      } else {
        MV vals; std::vector<V> args;
        if (w >= 2) c = rng.below(4);
        for (size_t k = 0; k < c; ++k) { vals.push_back(E::gen(rng)); args.push_back(E::arg(vals.back(), sc)); }
        if (w == 1) a.assign(args.begin(), args.end());
        else if (w == 2) {
          with_il(args, [&](std::initializer_list<V> il) { a.assign(il); });
        } else {
          with_il(args, [&](std::initializer_list<V> il) { a = il; });
        }
        b = vals;
        log(vf::fmt("v%d.%s of %zu", i, w == 1 ? "assign(range)" : w == 2 ? "assign(initializer_list)" : "operator=(initializer_list)", c));
      }
      VF_COUNT("obs:op_assign");
      return compare(i, "assign");
    }
    // two-vector operations
    int j = (i + 1 + int(rng.below(N - 1))) % N;
    bool same = rid[i] == rid[j];
    if (x < 85) {  // copy assign
      *v[i] = *v[j]; m[i] = m[j];
      log(vf::fmt("v%d = v%d  [copy-assign, %s allocator]", i, j, same ? "equal" : "different"));
      VF_COUNT(same ? "obs:op_copy_assign_equal_alloc" : "obs:op_copy_assign_diff_alloc");
      compare(i, "copy-assign"); return compare(j, "copy-assign (source)");
    }
    if (x < 89) {  // copy construct, with / without explicit allocator
      int r = int(rng.below(2));
      bool expl = rng.chance(1, 2);
      if (expl) { v[i].reset(new RV(*v[j], alloc(r))); rid[i] = r; }
      else { v[i].reset(new RV(*v[j])); rid[i] = rid[j]; }
      m[i] = m[j];
      log(vf::fmt("v%d = RV(v%d%s)  [copy-construct]", i, j, expl ? vf::fmt(", allocator of resource %d", r).c_str() : ""));
      VF_COUNT("obs:op_copy_construct");
      compare(i, "copy-construct", true); return compare(j, "copy-construct (source)");
    }
    if (x < 93) {  // move assign
      if (!same) VF_COUNT("rare:move_assign_diff_alloc");
      *v[i] = std::move(*v[j]);
      m[i] = std::move(m[j]); m[j].clear(); v[j]->clear();
      log(vf::fmt("v%d = std::move(v%d); v%d.clear()  [move-assign, %s allocator]", i, j, j, same ? "equal" : "different"));
      VF_COUNT("obs:op_move_assign");
      compare(i, "move-assign", true); return compare(j, "move-assign (source, cleared)", true);
    }
    if (x < 96) {  // move construct
      int r = int(rng.below(2));
      bool expl = rng.chance(1, 2);
      if (expl && r != rid[j]) VF_COUNT("rare:move_construct_diff_alloc");
      if (expl) { v[i].reset(new RV(std::move(*v[j]), alloc(r))); rid[i] = r; }
      else { v[i].reset(new RV(std::move(*v[j]))); rid[i] = rid[j]; }
      m[i] = std::move(m[j]); m[j].clear(); v[j]->clear();
      log(vf::fmt("v%d = RV(std::move(v%d)%s); v%d.clear()  [move-construct]", i, j, expl ? vf::fmt(", allocator of resource %d", r).c_str() : "", j));
      VF_COUNT("obs:op_move_construct");
      compare(i, "move-construct", true); return compare(j, "move-construct (source, cleared)", true);
    }
    // swap (only defined for equal allocators)
    if (!same) return;
    if (rng.chance(1, 2)) v[i]->swap(*v[j]); else swap(*v[i], *v[j]);
    m[i].swap(m[j]);
    log(vf::fmt("v%d.swap(v%d)", i, j)); VF_COUNT("obs:op_swap");
    compare(i, "swap", true); compare(j, "swap", true);
  }

  void run() {
    res[0].reset(new SwissMemoryResource); res[1].reset(new SwissMemoryResource); scratch.reset(new SwissMemoryResource);
    for (int i = 0; i < N; ++i) {
      rid[i] = i == 2 ? 1 : 0;
      int w = int(rng.below(4));
      if (w == 0) { v[i].reset(new RV(alloc(rid[i]))); log(vf::fmt("v%d = RV(alloc%d)", i, rid[i])); }
      else if (w == 1) { size_t c = rng.below(6); v[i].reset(new RV(c, alloc(rid[i]))); m[i].assign(c, E::dflt()); log(vf::fmt("v%d = RV(%zu, alloc%d)", i, c, rid[i])); }
      else if (w == 2) { size_t c = rng.below(6); M val = E::gen(rng); V arg = E::arg(val, *scratch); v[i].reset(new RV(c, arg, alloc(rid[i]))); m[i].assign(c, val); log(vf::fmt("v%d = RV(%zu, value, alloc%d)", i, c, rid[i])); }
      else {
        size_t c = rng.below(4); std::vector<V> args;
        for (size_t k = 0; k < c; ++k) { m[i].push_back(E::gen(rng)); args.push_back(E::arg(m[i].back(), *scratch)); }
        v[i].reset(new RV(args.begin(), args.end(), alloc(rid[i])));
        log(vf::fmt("v%d = RV(range of %zu, alloc%d)", i, c, rid[i]));
      }
      cap[i] = v[i]->capacity();
      compare(i, "construct", true);
    }
    int len = int(rng.pick<int>({40, 80, 160, 300}));
    for (int s = 0; s < len && !g_stop; ++s) op_on(int(rng.below(N)));
    // metadata round trip on what is left
    for (int i = 0; i < N && !g_stop; ++i) {
      typename RV::AllocationMetadata meta;
      v[i]->update_allocation_metadata(meta);
      RV* fresh = Reuse::create_with_allocation_metadata<RV>(alloc(rid[i]), meta);
      log(vf::fmt("round trip v%d: recorded capacity %zu -> rebuilt capacity %zu", i, size_t(meta.capacity), fresh->capacity()));
      if (fresh->size() != 0 || fresh->capacity() < v[i]->constructed_size() || fresh->capacity() < meta.capacity || fresh->constructed_size() > fresh->capacity())
        bad("reuse:metadata-roundtrip", vf::fmt("instance rebuilt from AllocationMetadata has size %zu capacity %zu constructed %zu; recorded %zu, source constructed_size %zu",
                                                fresh->size(), fresh->capacity(), fresh->constructed_size(), size_t(meta.capacity), v[i]->constructed_size()), st(i));
      VF_COUNT("obs:metadata_roundtrips");
    }
    // death: every constructed element destroyed exactly once
    for (int i = 0; i < N; ++i) v[i].reset();
    res[0]->release(); res[1]->release(); scratch->release();
    if (std::is_same<E, ECnt>::value && !g_stop) {
      if (!g_sh.err.empty()) { std::string e = g_sh.err; g_sh.err.clear(); bad("vector:element-lifetime", e, "at container death"); }
      else if (!g_sh.live.empty()) bad("vector:ctor-dtor-balance", vf::fmt("%zu elements still alive after all vectors and resources were destroyed (ctors %lu, dtors %lu)", g_sh.live.size(), (unsigned long)g_sh.ctors, (unsigned long)g_sh.dtors), "");
      VF_COUNT_N("obs:cnt_constructions", g_sh.ctors);
      g_sh.ctors = g_sh.dtors = 0;
    }
    g_sh.live.clear(); g_sh.err.clear();
    done();
  }
};

////////////////////////////////////////////////////////////////////////////////
// B: MonotonicString / SwissString vs std::string
template <typename S, typename R>
struct StrSession : Base {
  std::unique_ptr<R> res[2];
  std::unique_ptr<S> s[3];
  std::string m[3];
  int rid[3];
  size_t cap[3];
  StrSession(uint64_t sd, uint64_t cn, const char* k) : Base(sd, cn, k) {}
  typename S::allocator_type alloc(int r) { return typename S::allocator_type(*res[r]); }
  std::string st(int i) { return vf::fmt("s%d(resource %d): size=%zu capacity=%zu model size=%zu", i, rid[i], s[i]->size(), s[i]->capacity(), m[i].size()); }
  void compare(int i, const char* after, bool cap_may_change = false) {
    if (g_stop) return;
    S& a = *s[i];
    VF_COUNT("obs:compares");
    if (a.size() != m[i].size() || memcmp(a.data(), m[i].data(), m[i].size()) != 0 || a.c_str()[a.size()] != 0 || !(a == m[i]) || !(m[i] == a))
      return bad("string:content-mismatch", "string differs from the std::string reference", std::string("after ") + after + "\n" + st(i));
    if (!cap_may_change && a.capacity() < cap[i]) return bad("string:capacity-decreased", vf::fmt("capacity() went from %zu to %zu", cap[i], a.capacity()), std::string("after ") + after + "\n" + st(i));
    cap[i] = a.capacity();
    if (a.capacity() > 15 && !res[rid[i]]->contains(a.data()))
      return bad("string:storage-in-foreign-resource", "the string's buffer lies outside the memory resource of its allocator", std::string("after ") + after + "\n" + st(i));
    if (a.capacity() > 15) boundary = true;
  }
  void op_on(int i) {
    S& a = *s[i];
    std::string& b = m[i];
    uint64_t x = rng.below(100);
    std::string val = gen_string(rng);
    if (x < 12) { a = val; b = val; log(vf::fmt("s%d = std::string(%zu)", i, val.size())); return compare(i, "assign std::string"); }
    if (x < 20) { a.assign(val.c_str()); b.assign(val.c_str()); log(vf::fmt("s%d.assign(const char*, %zu)", i, val.size())); return compare(i, "assign"); }
    if (x < 30) { a.append(val); b.append(val); log(vf::fmt("s%d.append(%zu)", i, val.size())); return compare(i, "append"); }
    if (x < 36) { char c = char('A' + rng.below(26)); a.push_back(c); b.push_back(c); log(vf::fmt("s%d.push_back", i)); return compare(i, "push_back"); }
    if (x < 40) { if (b.empty()) return; a.pop_back(); b.pop_back(); log(vf::fmt("s%d.pop_back", i)); return compare(i, "pop_back"); }
    if (x < 46) { size_t n = rng.pick<size_t>({0, 1, b.size() / 2, b.size() + 3, 15, 16, 64}); a.resize(n, 'z'); b.resize(n, 'z'); log(vf::fmt("s%d.resize(%zu,'z')", i, n)); return compare(i, "resize"); }
    if (x < 51) {  // __resize_default_init then fill
      size_t n = rng.pick<size_t>({0, 1, b.size() / 2, b.size() + 3, 15, 16, 64, 300});
      size_t keep = std::min(n, b.size());
      a.__resize_default_init(n); b.resize(n);
      for (size_t k = keep; k < n; ++k) { a[k] = char('0' + k % 10); b[k] = char('0' + k % 10); }
      log(vf::fmt("s%d.__resize_default_init(%zu)", i, n)); return compare(i, "__resize_default_init");
    }
    if (x < 56) { size_t n = rng.pick<size_t>({0, 10, 16, 33, 100, 257}); babylon::stable_reserve(a, n); log(vf::fmt("stable_reserve(s%d, %zu)", i, n));
      if (a.capacity() < n) bad("string:reserve-capacity", "stable_reserve gave less than requested", st(i)); return compare(i, "stable_reserve"); }
    if (x < 61) { a.clear(); b.clear(); log(vf::fmt("s%d.clear()", i)); return compare(i, "clear"); }
    if (x < 67) { size_t p = rng.below(b.size() + 1); a.insert(p, val.c_str()); b.insert(p, val.c_str()); log(vf::fmt("s%d.insert(%zu, %zu chars)", i, p, val.size())); return compare(i, "insert"); }
    if (x < 72) { size_t p = rng.below(b.size() + 1), n = rng.below(b.size() - p + 1); a.erase(p, n); b.erase(p, n); log(vf::fmt("s%d.erase(%zu,%zu)", i, p, n)); return compare(i, "erase"); }
    int j = (i + 1 + int(rng.below(2))) % 3;
    bool same = rid[i] == rid[j];
    if (x < 79) { *s[i] = *s[j]; m[i] = m[j]; log(vf::fmt("s%d = s%d  [copy-assign, %s allocator]", i, j, same ? "equal" : "different")); VF_COUNT("obs:op_copy_assign_str"); compare(i, "copy-assign"); return compare(j, "copy-assign (source)"); }
    if (x < 86) {
      if (!same) VF_COUNT("rare:string_move_assign_diff_alloc");
      *s[i] = std::move(*s[j]); m[i] = m[j]; m[j].clear(); s[j]->clear();
      log(vf::fmt("s%d = std::move(s%d); s%d.clear()  [%s allocator]", i, j, j, same ? "equal" : "different"));
      compare(i, "move-assign", true); return compare(j, "move-assign (source, cleared)", true);
    }
    if (x < 91) {
      int r = int(rng.below(2));
      s[i].reset(new S(std::move(*s[j]), alloc(r))); rid[i] = r;
      m[i] = m[j]; m[j].clear(); s[j]->clear();
      log(vf::fmt("s%d = S(std::move(s%d), alloc%d); s%d.clear()", i, j, r, j));
      compare(i, "move-construct with allocator", true); return compare(j, "move-construct (source, cleared)", true);
    }
    if (x < 95) {
      int r = int(rng.below(2));
      s[i].reset(new S(val, alloc(r))); rid[i] = r; m[i] = val;
      log(vf::fmt("s%d = S(std::string(%zu), alloc%d)", i, val.size(), r));
      return compare(i, "construct from std::string", true);
    }
    if (!same) return;
    s[i]->swap(*s[j]); m[i].swap(m[j]);
    log(vf::fmt("s%d.swap(s%d)", i, j));
    compare(i, "swap", true); compare(j, "swap", true);
  }
  void run() {
    res[0].reset(new R); res[1].reset(new R);
    for (int i = 0; i < 3; ++i) { rid[i] = i == 2 ? 1 : 0; s[i].reset(new S(alloc(rid[i]))); cap[i] = s[i]->capacity(); compare(i, "construct", true); }
    int len = int(rng.pick<int>({40, 100, 200}));
    for (int k = 0; k < len && !g_stop; ++k) op_on(int(rng.below(3)));
    for (int i = 0; i < 3; ++i) s[i].reset();
    res[0]->release(); res[1]->release();
    done();
  }
};

////////////////////////////////////////////////////////////////////////////////
// C + D: manager
struct CountingPages : babylon::NewDeletePageAllocator {
  int64_t held = 0;
  uint64_t allocated = 0;
  using PageAllocator::allocate;
  using PageAllocator::deallocate;
  void allocate(void** pages, size_t num) noexcept override { held += int64_t(num); allocated += num; NewDeletePageAllocator::allocate(pages, num); }
  void deallocate(void** pages, size_t num) noexcept override { held -= int64_t(num); NewDeletePageAllocator::deallocate(pages, num); }
};

struct ManagerSession : Base {
  using Mgr = ReusableManager<SwissMemoryResource>;
  using Msg = babylon::ArenaExample;
  bool conv;
  ManagerSession(uint64_t s, uint64_t cn, bool convergence) : Base(s, cn, convergence ? "conv" : "reuse"), conv(convergence) {}

  struct Objs {
    ReusableAccessor<SwissString> str;
    ReusableAccessor<SwissVector<int>> vi;
    ReusableAccessor<SwissVector<SwissString>> vs;
    ReusableAccessor<SwissVector<SwissVector<int>>> vv;
    ReusableAccessor<Msg> msg;
  };
  struct Model {
    std::string str; std::vector<int> vi; std::vector<std::string> vs; std::vector<std::vector<int>> vv;
    uint64_t p = 0; bool has_p = false; std::string ms; bool has_ms = false; std::vector<uint64_t> rp; std::vector<std::string> rs; std::string sub_s; bool has_sub = false;
  };
  // one workload = deterministic function of (wseed): fills objects and model
  void workload(Objs& o, Model& md, uint64_t wseed, bool with_msg) {
    vf::Rng r(wseed);
    md = Model();
    size_t n;
    md.str = gen_string(r); o.str->assign(md.str.c_str(), md.str.size());
    n = r.below(40); for (size_t k = 0; k < n; ++k) { md.vi.push_back(int(r.below(1000))); o.vi->push_back(md.vi.back()); }
    n = r.below(12); for (size_t k = 0; k < n; ++k) { md.vs.push_back(gen_string(r)); o.vs->emplace_back(md.vs.back()); }
    n = r.below(8);
    for (size_t k = 0; k < n; ++k) {
      md.vv.emplace_back(); o.vv->emplace_back();
      size_t c = r.below(10);
      for (size_t q = 0; q < c; ++q) { md.vv.back().push_back(int(r.below(1000))); o.vv->back().push_back(md.vv.back().back()); }
    }
    if (with_msg) {
      if (r.chance(2, 3)) { md.has_p = true; md.p = r.next(); o.msg->set_p(md.p); }
      if (r.chance(2, 3)) { md.has_ms = true; md.ms = gen_string(r); o.msg->set_s(md.ms); }
      n = r.below(20); for (size_t k = 0; k < n; ++k) { md.rp.push_back(r.next()); o.msg->add_rp(md.rp.back()); }
      n = r.below(6); for (size_t k = 0; k < n; ++k) { md.rs.push_back(gen_string(r)); o.msg->add_rs(md.rs.back()); }
      if (r.chance(1, 2)) { md.has_sub = true; md.sub_s = gen_string(r); o.msg->mutable_m()->set_s(md.sub_s); }
    }
  }
  bool same(Objs& o, const Model& md, bool with_msg, std::string& why) {
    if (!EStr::eq(*o.str, md.str)) { why = "SwissString"; return false; }
    if (o.vi->size() != md.vi.size()) { why = "vector<int> size"; return false; }
    for (size_t k = 0; k < md.vi.size(); ++k) if ((*o.vi)[k] != md.vi[k]) { why = "vector<int> element"; return false; }
    if (o.vs->size() != md.vs.size()) { why = "vector<string> size"; return false; }
    for (size_t k = 0; k < md.vs.size(); ++k) if (!EStr::eq((*o.vs)[k], md.vs[k])) { why = "vector<string> element"; return false; }
    if (o.vv->size() != md.vv.size()) { why = "vector<vector<int>> size"; return false; }
    for (size_t k = 0; k < md.vv.size(); ++k) if (!ENested::eq((*o.vv)[k], md.vv[k])) { why = "vector<vector<int>> element"; return false; }
    if (with_msg) {
      Msg& g = *o.msg;
      if (g.has_p() != md.has_p || (md.has_p && g.p() != md.p)) { why = "message.p"; return false; }
      if (g.has_s() != md.has_ms || g.s() != md.ms) { why = "message.s"; return false; }
      if (size_t(g.rp_size()) != md.rp.size() || size_t(g.rs_size()) != md.rs.size()) { why = "message repeated size"; return false; }
      for (size_t k = 0; k < md.rp.size(); ++k) if (g.rp(int(k)) != md.rp[k]) { why = "message.rp"; return false; }
      for (size_t k = 0; k < md.rs.size(); ++k) if (g.rs(int(k)) != md.rs[k]) { why = "message.rs"; return false; }
      if (g.has_m() != md.has_sub || g.m().s() != md.sub_s) { why = "message.m.s"; return false; }
      if (g.ds() != "10086") { why = "message.ds default"; return false; }
    }
    return true;
  }
  struct Caps { size_t str, vi, vi_k, vs, vs_k, vs_elem, vv, vv_k, vv_elem; int rp; size_t ms; };
  Caps caps(Objs& o, bool with_msg) {
    Caps c{};
    c.str = o.str->capacity();
    c.vi = o.vi->capacity(); c.vi_k = o.vi->constructed_size();
    c.vs = o.vs->capacity(); c.vs_k = o.vs->constructed_size();
    for (size_t k = 0; k < o.vs->constructed_size(); ++k) c.vs_elem = std::max(c.vs_elem, o.vs->data()[k].capacity());
    c.vv = o.vv->capacity(); c.vv_k = o.vv->constructed_size();
    for (size_t k = 0; k < o.vv->constructed_size(); ++k) c.vv_elem = std::max(c.vv_elem, o.vv->data()[k].constructed_size());
    if (with_msg) { c.rp = o.msg->rp().Capacity(); c.ms = o.msg->s().size(); }
    return c;
  }

  void run() {
    bool with_msg = !rng.chance(1, 4);
    size_t interval = 1 + rng.below(7);
    CountingPages pages;
    pages.set_page_size(rng.pick<size_t>({256, 1024, 4096}));
    {
      Mgr mgr;
      mgr.resource().set_page_allocator(pages);
      mgr.set_recreate_interval(interval);
      Objs o;
      o.str = mgr.create_object<SwissString>();
      o.vi = mgr.create_object<SwissVector<int>>();
      o.vs = mgr.create_object<SwissVector<SwissString>>();
      o.vv = mgr.create_object<SwissVector<SwissVector<int>>>();
      if (with_msg) o.msg = mgr.create_object<Msg>();
      log(vf::fmt("manager: recreate interval %zu, page size %zu, message=%d", interval, pages.page_size(), int(with_msg)));
      size_t cycles = conv ? 6 * interval : 10 + rng.below(30);
      uint64_t fixed = rng.next();
      std::vector<size_t> space_end(cycles), space_after(cycles);
      std::vector<uint64_t> new_bytes(cycles);
      std::vector<int64_t> held(cycles);
      Model md;
      for (size_t c = 0; c < cycles && !g_stop; ++c) {
        uint64_t wseed = conv ? fixed : rng.next();
        uint64_t nb0 = g_new_bytes;
        g_new_window = true;
        workload(o, md, wseed, with_msg);
        g_new_window = false;
        std::string why;
        if (!same(o, md, with_msg, why)) { bad("reuse:content-mismatch", "object filled through its accessor differs from the model: " + why, vf::fmt("cycle %zu", c)); break; }
        Caps before = caps(o, with_msg);
        void* addr_before = o.str.get();
        space_end[c] = mgr.resource().space_allocated();
        bool recreate = (c + 1) % interval == 0;
        g_new_window = true;
        mgr.clear();
        g_new_window = false;
        new_bytes[c] = g_new_bytes - nb0;
        space_after[c] = mgr.resource().space_allocated();
        held[c] = pages.held;
        log(vf::fmt("cycle %zu: workload %016lx; clear()%s -> space_allocated %zu/%zu, pages held %ld, operator new bytes %lu", c, (unsigned long)wseed,
                    recreate ? " [recreate]" : "", space_end[c], space_after[c], (long)held[c], (unsigned long)new_bytes[c]));
        if (recreate) { VF_COUNT("rare:manager_recreated"); boundary = true; if (o.str.get() != addr_before) VF_COUNT("obs:instance_address_changed"); }
        // fresh after clear
        Model empty;
        bool fresh = same(o, empty, with_msg, why);
        if (!fresh && with_msg && recreate && why == "message.m.s" && o.msg->has_m() && o.msg->m().ByteSizeLong() == 0) {
          // known pattern: MessageAllocationMetadata::reserve pre-creates the sub-message with MutableMessage() and leaves its has-bit set
          known("reuse:recreated-message-has-empty-submessage",
                "a protobuf message rebuilt by the manager's periodic recreation reports has_m()==true (an empty sub-message that serializes as 2 bytes) although a freshly constructed / cleared message has no sub-message",
                vf::fmt("cycle %zu: after the recreating clear() has_m()=1, m().ByteSizeLong()=0, ByteSizeLong()=%zu", c, size_t(o.msg->ByteSizeLong())));
          o.msg->clear_m();
          fresh = same(o, empty, with_msg, why);
        }
        if (!fresh || (with_msg && o.msg->ByteSizeLong() != 0)) { bad("reuse:not-fresh-after-clear", "after ReusableManager::clear() an object is not equal to a freshly constructed one: " + why, vf::fmt("cycle %zu recreate=%d", c, int(recreate))); break; }
        // accessors still valid: objects live in the manager's resource
        if (!mgr.resource().contains(o.str.get()) || !mgr.resource().contains(o.vi.get()) || !mgr.resource().contains(o.vs.get()) || !mgr.resource().contains(o.vv.get()) ||
            (with_msg && !o.msg)) { bad("reuse:accessor-stale", "an accessor does not point into the manager's resource after clear()", vf::fmt("cycle %zu recreate=%d", c, int(recreate))); break; }
        Caps after = caps(o, with_msg);
        // capacity retention: plain clear keeps capacity exactly; recreation rebuilds from the recorded metadata
        // (vector: constructed_size, string: capacity, element level: maximum over elements)
        bool ok;
        if (!recreate) ok = after.str >= before.str && after.vi >= before.vi && after.vs >= before.vs && after.vv >= before.vv && after.vs_elem >= before.vs_elem && after.vv_elem >= before.vv_elem && (!with_msg || after.rp >= before.rp);
        else ok = after.str >= before.str && after.vi >= before.vi_k && after.vs >= before.vs_k && after.vv >= before.vv_k && after.vs_elem >= before.vs_elem && after.vv_elem >= before.vv_elem &&
                  (!with_msg || (after.rp >= before.rp && o.msg->s().capacity() >= before.ms));
        if (!ok) { bad(recreate ? "reuse:recreate-loses-capacity" : "reuse:clear-loses-capacity", "retained capacity shrank across ReusableManager::clear()",
                       vf::fmt("cycle %zu: before str=%zu vi=%zu/%zu vs=%zu/%zu elem=%zu vv=%zu/%zu elem=%zu rp=%d ms=%zu; after str=%zu vi=%zu vs=%zu elem=%zu vv=%zu elem=%zu rp=%d", c, before.str, before.vi_k,
                               before.vi, before.vs_k, before.vs, before.vs_elem, before.vv_k, before.vv, before.vv_elem, before.rp, before.ms, after.str, after.vi, after.vs, after.vs_elem, after.vv, after.vv_elem, after.rp)); break; }
        VF_COUNT("obs:manager_cycles");
      }
      if (conv && !g_stop) {
        // after the 2nd recreation (cycles >= 2*interval): same phase, one period later: nothing may grow
        for (size_t c = 2 * interval; c + interval < cycles; ++c) {
          size_t d = c + interval;
          VF_COUNT("obs:convergence_points");
          if (space_end[d] > space_end[c] || space_after[d] > space_after[c])
            { bad("convergence:space-allocated-grows", vf::fmt("space_allocated() at the same phase grew from %zu/%zu (cycle %zu) to %zu/%zu (cycle %zu) after the second recreation", space_end[c], space_after[c], c, space_end[d], space_after[d], d), ""); break; }
          if (held[d] > held[c]) { bad("convergence:pages-grow", vf::fmt("pages held grew from %ld (cycle %zu) to %ld (cycle %zu)", (long)held[c], c, (long)held[d], d), ""); break; }
          if (new_bytes[d] > new_bytes[c]) { bad("convergence:operator-new-grows", vf::fmt("operator new bytes of one cycle grew from %lu (cycle %zu) to %lu (cycle %zu)", (unsigned long)new_bytes[c], c, (unsigned long)new_bytes[d], d), ""); break; }
        }
        // within a converged period the workload itself takes nothing new from the resource
        for (size_t c = 2 * interval; c < cycles; ++c) {
          if (space_end[c] > space_after[c - 1]) { bad("convergence:workload-allocates", vf::fmt("a converged workload took new memory from the resource: space_allocated %zu -> %zu in cycle %zu", space_after[c - 1], space_end[c], c), ""); break; }
        }
      }
    }
    if (pages.held != 0 && !g_stop) bad("reuse:pages-leaked", vf::fmt("%ld pages not returned after the manager was destroyed", (long)pages.held), "");
    done();
  }
};

}  // namespace

int main(int argc, char** argv) {
  vf::init(argc, argv, "C12", "c12_reusable");
  auto& a = vf::args();
  std::string mode = a.mode.empty() ? "all" : a.mode;
  auto& wd = vf::watchdog();
  wd.classify = []() -> std::string { return "stuck:sequential-operation-never-returned"; };
  wd.start();
  wd.arm(true);
  uint64_t n = vf::budget(6000, 200000);
  static const char* kinds[] = {"vec_int", "vec_str", "vec_nested", "vec_cnt", "str", "reuse", "conv", "vec_cnt", "vec_str", "reuse"};
  for (uint64_t e = 0; e < n && !g_stop; ++e) {
    if (a.only_episode >= 0 && uint64_t(a.only_episode) != e) continue;
    std::string k = mode == "all" ? kinds[e % 10] : mode;
    wd.set_context(vf::fmt("case %lu kind %s", (unsigned long)e, k.c_str()));
    if (k == "vec_int") VecSession<EInt>(a.seed, e).run();
    else if (k == "vec_str") VecSession<EStr>(a.seed, e).run();
    else if (k == "vec_nested") VecSession<ENested>(a.seed, e).run();
    else if (k == "vec_cnt") VecSession<ECnt>(a.seed, e).run();
    else if (k == "str") {
      if (e % 20 < 10) StrSession<SwissString, SwissMemoryResource>(a.seed, e, "str_swiss").run();
      else StrSession<MonotonicString, babylon::ExclusiveMonotonicBufferResource>(a.seed, e, "str_monotonic").run();
    }
    else if (k == "reuse") ManagerSession(a.seed, e, false).run();
    else ManagerSession(a.seed, e, true).run();
  }
  wd.arm(false);
  wd.shutdown();
  return vf::finish();
}
