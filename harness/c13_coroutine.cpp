// C13 — coroutines: every suspension resumed exactly once, on the bound executor, with
// the right result; coroutine Futex wake_one / wake_all / cancel; no leaked per-wait
// bookkeeping (DepositBox slots).
//
// Modes (one process each, so that a sanitizer halt in one does not mask the other):
//   --mode mix    thread-pool executors running root coroutines that await child tasks
//                 (same / other executor), Futures completed by other threads around the
//                 registration instant, Cancellable<Task> whose token is fired inline /
//                 immediately / a little later / after completion by other threads.
//   --mode futex  (1) four deterministic probes that stage the windows of the defects
//                 suspected in DESIGN §6 with *blocking* schedule-point gates (each has
//                 its own specific key), (2) sequential "solo" episodes with an exact
//                 model of wake_one / wake_all / cancel return values, (3) storms:
//                 waiters re-arriving on 2..6 futexes against wake_one / wake_all /
//                 cancel threads. A defect found by a probe switches the storm feature
//                 that would re-trigger it off (non-matching waits / wake_all while new
//                 waiters arrive / short-lived awaitables), so the rest is still checked.
//
// Monitors: per-coroutine `inside` flag (two threads in one frame), suspended/resumed
// counters per coroutine and per wait, executor identity after every co_await, awaited
// values, optional-empty <=> cancel() returned true, stale tokens never succeed, exact
// wake accounting (suspended == sum wake_one + sum wake_all + sum cancel-true), exact
// return values in solo phases, frames all destroyed at quiescence, DepositBox slot
// high-water mark and active slots at quiescence (private state read through
// -fno-access-control), stuck rule. TSan/ASan judge frame / node lifetime.
#include <condition_variable>
#include <deque>
#include <memory>

#include "common/vf.h"

#include "babylon/coroutine/cancelable.h"
#include "babylon/coroutine/futex.h"
#include "babylon/coroutine/task.h"
#include "babylon/executor.h"
#include "babylon/future.h"

#if VF_ASAN
#include <sanitizer/lsan_interface.h>
#endif

#if VF_TSAN
// FUTEX(2)-style contract: the futex word is stored by its users outside the internal
// mutex (the harness uses atomic_value()), add_awaiter compares it with a plain read
// under the mutex. TSan reports that mixed atomic/plain pair; it is the documented
// protocol, not a defect (DESIGN §4). Nothing wider is suppressed.
extern "C" const char* __tsan_default_suppressions() {
  return "race:babylon::coroutine::Futex::add_awaiter\n";
}
#endif

namespace {

using ::babylon::Executor;
using ::babylon::ThreadPoolExecutor;
namespace bc = ::babylon::coroutine;
using bc::Cancellable;
using bc::Futex;
using bc::Task;
using FutexBox = ::babylon::DepositBox<Futex::Node>;
using CancelBox = ::babylon::DepositBox<bc::BasicCancellable*>;
using CancelToken = bc::BasicCancellable::Cancellation;

constexpr auto RLX = std::memory_order_relaxed;
constexpr auto ACQ = std::memory_order_acquire;
constexpr auto REL = std::memory_order_release;

////////////////////////////////////////////////////////////////////////////////
// Blocking gates on library schedule points: the thread that armed a gate stops at the
// named point until the controller releases it. Only ever delays a thread where the
// kernel could have descheduled it anyway.
struct Gate {
  const char* point = "";
  std::atomic<int> armed {0};
  std::atomic<int> arrived {0};
  std::atomic<int> open {0};
  void reset(const char* p) {
    point = p;
    arrived.store(0, RLX);
    open.store(0, RLX);
    armed.store(1, REL);
  }
};
thread_local Gate* tl_gate = nullptr;
// set once probe c found defect c: widening that window on purpose in the storms would only re-trigger it
std::atomic<int> g_skip_awaiter_added_delay {0};

void c13_hook(const char* name) noexcept {
  Gate* g = tl_gate;
  if (g != nullptr && g->armed.load(ACQ) != 0 && strcmp(name, g->point) == 0) {
    tl_gate = nullptr;
    g->armed.store(0, RLX);
    g->arrived.store(1, REL);
    VF_COUNT("obs:gate_blocked");
    while (g->open.load(ACQ) == 0) vf::raw_sleep_us(20);
    return;
  }
  if (g_skip_awaiter_added_delay.load(RLX) != 0 && strcmp(name, "cofutex:awaiter_added") == 0) {
    VF_COUNT("point:cofutex:awaiter_added");
    return;
  }
  vf::perturb(name);
}

////////////////////////////////////////////////////////////////////////////////
// stuck rule plumbing: the harness publishes the key that applies *now* (nullptr = the
// logical precondition of the stuck rule does not hold => inconclusive).
std::atomic<const char*> g_stuck_key {nullptr};
std::atomic<int64_t>* g_ext_pending = nullptr;  // mix mode: external events still owed

// Phases in which the controlling thread calls wake_one / wake_all / cancel itself: such a call must return
// (a corrupted waiter list makes it spin for ever under the futex mutex), so the watchdog stays armed with this
// default key for the whole phase.
std::atomic<const char*> g_default_key {nullptr};
struct CallsMustReturn {
  CallsMustReturn() {
    g_default_key.store("stuck:futex-call-never-returned", RLX);
    g_stuck_key.store("stuck:futex-call-never-returned", RLX);
    vf::progress();
    vf::watchdog().arm(true);
  }
  ~CallsMustReturn() {
    vf::watchdog().arm(false);
    g_default_key.store(nullptr, RLX);
    g_stuck_key.store(nullptr, RLX);
  }
};

template <typename C>
void wait_until(C&& cond, const char* stuck_key) {
  const char* dflt = g_default_key.load(RLX);
  if (stuck_key != nullptr || dflt == nullptr) g_stuck_key.store(stuck_key, RLX);
  vf::progress();
  vf::watchdog().arm(true);
  while (!cond()) vf::raw_sleep_us(50);
  vf::progress();
  if (dflt == nullptr) vf::watchdog().arm(false);
  g_stuck_key.store(dflt, RLX);
}

////////////////////////////////////////////////////////////////////////////////
// DepositBox private state
struct BoxStat {
  uint32_t high = 0;    // slots ever allocated
  uint32_t active = 0;  // slots currently not in the free list
};
template <typename B>
BoxStat box_stat() {
  auto& ida = B::instance()._slot_id_allocator;
  BoxStat s;
  s.high = ida.end();
  for (uint32_t i = 0; i < s.high; ++i) {
    if (ida._free_next_value[i].load(RLX) == ::babylon::IdAllocator<uint32_t>::ACTIVE_FLAG) ++s.active;
  }
  return s;
}

////////////////////////////////////////////////////////////////////////////////
// executors of one episode
struct Pool {
  std::vector<std::unique_ptr<ThreadPoolExecutor>> ex;
  std::vector<int> workers;
  int total = 0;
  void start(const std::vector<int>& w, bool stealing, size_t local_cap) {
    for (int n : w) {
      auto e = std::make_unique<ThreadPoolExecutor>();
      e->set_worker_number(size_t(n));
      e->set_global_capacity(8192);
      e->set_local_capacity(local_cap);
      e->set_enable_work_stealing(stealing);
      e->start();
      ex.push_back(std::move(e));
      workers.push_back(n);
      total += n;
    }
  }
  // every worker of every executor passes through a rendezvous: everything a worker did
  // before happens-before the return of barrier(), and no library call is still running
  // on a worker (await_suspend bodies, on_suspend callbacks, final_suspend tails).
  void barrier() {
    for (size_t i = 0; i < ex.size(); ++i) {
      std::atomic<int> arrived {0}, go {0}, done {0};
      int n = workers[i];
      for (int k = 0; k < n; ++k) {
        ex[i]->submit([&arrived, &go, &done] {
          arrived.fetch_add(1, std::memory_order_acq_rel);
          while (go.load(ACQ) == 0) vf::raw_sleep_us(20);
          done.fetch_add(1, std::memory_order_acq_rel);
        });
      }
      wait_until([&] { return arrived.load(ACQ) == n; }, "stuck:executor-barrier");
      go.store(1, REL);
      wait_until([&] { return done.load(ACQ) == n; }, "stuck:executor-barrier");
    }
  }
  void stop() {
    for (auto& e : ex) e->stop();
    ex.clear();
    workers.clear();
    total = 0;
  }
};

////////////////////////////////////////////////////////////////////////////////
// frame accounting: a by-value coroutine parameter lives exactly as long as the frame.
struct FrameTok {
  std::atomic<int64_t>* c;
  explicit FrameTok(std::atomic<int64_t>* cc) : c(cc) { c->fetch_add(1, RLX); }
  FrameTok(FrameTok&& o) noexcept : c(o.c) { o.c = nullptr; }
  FrameTok(const FrameTok&) = delete;
  ~FrameTok() {
    if (c) c->fetch_sub(1, RLX);
  }
};

// per-coroutine monitor (lives in the episode, outlives the frame)
struct CoMon {
  std::atomic<int> inside {0};
  std::atomic<uint32_t> susp {0}, res {0};
  Executor* bound = nullptr;
  int id = 0;
  void check_exec(const char* where) {
    if (!bound->is_running_in()) {
      vf::violation("coroutine-runs-on-wrong-executor",
                    "coroutine code runs on a thread that is not a worker of the executor the coroutine is bound to",
                    vf::fmt("coroutine %d at %s", id, where));
    }
  }
  void enter(const char* where) {
    if (inside.exchange(1, RLX) != 0) {
      vf::violation("coroutine-two-threads-in-one-frame",
                    "a coroutine was entered while another thread was still executing it (resumed twice)",
                    vf::fmt("coroutine %d at %s", id, where));
    }
    check_exec(where);
  }
  void begin(Executor* b, int i) {
    bound = b;
    id = i;
    enter("start");
  }
  void leave() {  // right before a co_await
    susp.fetch_add(1, RLX);
    inside.store(0, RLX);
  }
  void back(const char* where) {  // right after a co_await
    uint32_t r = res.fetch_add(1, RLX) + 1;
    if (r > susp.load(RLX)) {
      vf::violation("coroutine-resumed-more-often-than-suspended",
                    "a co_await returned more often than it was entered (double resume)",
                    vf::fmt("coroutine %d at %s resumed=%u suspended=%u", id, where, r, susp.load(RLX)));
    }
    enter(where);
  }
  void end() { inside.store(0, RLX); }
};

void spin_cycles(uint64_t n) {
  uint64_t t0 = __rdtsc();
  while (__rdtsc() - t0 < n) {
  }
}

const std::vector<std::string> kStallPointsMix = {
    "fut:value_constructed", "fut:sealed", "fut:on_finish_before_cas", "fut:on_finish_lost_to_sealed",
    "cocancel:emplaced", "cocancel:proxy_set", "cocancel:cancel_taken", "cocancel:resume_taken",
    "dbox:version_stored", "dbox:take_won", "exec:global_before_push", "exec:local_before_push",
    "cb:complete", "cb:cancel"};
const std::vector<std::string> kStallPointsFutex = {
    "cofutex:wake_one_unlocked", "cofutex:wake_all_unlocked", "cofutex:wake_all_finished_node",
    "cofutex:awaiter_added", "cofutex:cancel_taken", "dbox:version_stored", "dbox:take_won",
    "ida:alloc_before_cas", "ida:dealloc_before_cas", "exec:global_before_push", "cb:on_suspend"};

////////////////////////////////////////////////////////////////////////////////
//                                   MODE mix
////////////////////////////////////////////////////////////////////////////////
// mode mixinherit: the inner task of a Cancellable may come without an explicit executor (it then inherits
// through the proxy coroutine). Mode mix always binds it explicitly, like the repo's own tests do.
bool g_inherit_ok = false;
struct Payload {
  uint64_t a, b;  // plain memory: must be published by Future::set_value
};
inline uint64_t f_of(uint64_t x) { return vf::mix(x, 0xC13); }

struct CancelRec {
  CancelToken tok;
  std::atomic<int> have_tok {0};
  std::atomic<int> fired {0};
  std::atomic<int> won {0};
  std::atomic<int> outcome {-1};  // 1 = optional empty, 0 = value
  int mode = 0;                   // 0 inline in callback, 1 other thread now, 2 a little later, 3 after completion
};

struct Mix;
struct Job {
  int kind = 0;  // 0 set promise, 1 fire token
  ::babylon::Promise<Payload> p;
  uint64_t x = 0;
  int delay = 0;
  CancelRec* rec = nullptr;
};

struct Mix {
  uint64_t seed = 0;
  Pool pool;
  std::mutex mu;
  std::condition_variable cv;
  std::deque<Job> jobs;
  bool stopping = false;
  std::atomic<int64_t> ext_pending {0};
  std::atomic<int64_t> frames {0};
  std::atomic<uint32_t> nmon {0}, nrec {0};
  std::vector<CoMon> mons;
  std::vector<CancelRec> recs;
  std::atomic<uint64_t> n_susp_future {0}, n_ready_future {0}, n_cancel_won {0}, n_cancel_lost {0}, n_cross {0};
  int steps = 0, depth = 0;
  bool other_exec = false;

  CoMon* mon() {
    uint32_t i = nmon.fetch_add(1, RLX);
    if (i >= mons.size()) {
      vf::inconclusive("monitor pool exhausted");
      return &mons[0];
    }
    return &mons[i];
  }
  CancelRec* rec() {
    uint32_t i = nrec.fetch_add(1, RLX);
    if (i >= recs.size()) {
      vf::inconclusive("cancel record pool exhausted");
      return &recs[0];
    }
    return &recs[i];
  }
  void post(Job&& j) {
    ext_pending.fetch_add(1, RLX);
    {
      std::lock_guard<std::mutex> g(mu);
      jobs.push_back(std::move(j));
    }
    cv.notify_one();
  }
};

void fire_token(Mix* mx, CancelRec* rec, const CancelToken& tok, bool count_stale) {
  bool won = tok();
  if (won) {
    if (rec->won.fetch_add(1, RLX) != 0) {
      vf::violation("cancellable-cancel-succeeded-twice", "two cancel() calls on one token both returned true", "");
    }
    mx->n_cancel_won.fetch_add(1, RLX);
    VF_COUNT("obs:cancel_won");
  } else if (!count_stale) {
    mx->n_cancel_lost.fetch_add(1, RLX);
    VF_COUNT("obs:cancel_lost");
  }
  rec->fired.fetch_add(1, REL);
}

void do_delay(int delay, vf::Rng& r) {
  switch (delay) {
    case 0: break;
    case 1: spin_cycles(r.below(4000)); break;
    case 2: ::sched_yield(); break;
    default: vf::raw_sleep_us(20 + r.below(400)); break;
  }
}

void helper_thread(Mix* mx, int idx) {
  vf::Rng r(vf::mix(mx->seed, 0x4e1be7, uint64_t(idx)));
  for (;;) {
    Job j;
    {
      std::unique_lock<std::mutex> g(mx->mu);
      mx->cv.wait(g, [&] { return mx->stopping || !mx->jobs.empty(); });
      if (mx->jobs.empty()) return;
      j = std::move(mx->jobs.front());
      mx->jobs.pop_front();
    }
    do_delay(j.delay, r);
    if (j.kind == 0) {
      vf::perturb("cb:complete");
      j.p.set_value(Payload {j.x, f_of(j.x)});
    } else {
      vf::perturb("cb:cancel");
      fire_token(mx, j.rec, j.rec->tok, false);
    }
    mx->ext_pending.fetch_sub(1, RLX);
    vf::progress();
  }
}

// on_suspend callback of a Cancellable: the closure lives inside the awaiting coroutine's
// frame, which may be resumed and destroyed as soon as the token is fired: copy the
// captures first, use only the copies afterwards.
__attribute__((noinline)) void mix_on_suspend(Mix* mx, CancelRec* rec, CancelToken tok, uint64_t salt) {
  rec->tok = tok;
  rec->have_tok.store(1, REL);
  switch (rec->mode) {
    case 0: fire_token(mx, rec, tok, false); break;
    case 1:
    case 2: {
      Job j;
      j.kind = 1;
      j.rec = rec;
      j.delay = rec->mode == 1 ? int(salt % 2) : 3;
      mx->post(std::move(j));
    } break;
    default: break;  // fired by the main thread after the episode quiesced
  }
}
struct MixOnSuspend {
  Mix* mx;
  CancelRec* rec;
  uint64_t salt;
  void operator()(CancelToken&& t) {
    Mix* m = mx;
    CancelRec* r = rec;
    uint64_t s = salt;
    CancelToken tok = t;
    mix_on_suspend(m, r, tok, s);
  }
};

Task<uint64_t> mix_child(FrameTok, Mix* mx, Executor* bound, uint64_t x, int depth, uint64_t bits) {
  CoMon& m = *mx->mon();
  m.begin(bound, int(x & 0xffff));
  vf::Rng r(vf::mix(mx->seed, x, 0xc41d));
  uint64_t acc = x;
  if (bits & 1) {
    ::babylon::Promise<Payload> p;
    auto f = p.get_future();
    Job j;
    j.kind = 0;
    j.p = std::move(p);
    j.x = acc;
    j.delay = int(r.below(4));
    mx->post(std::move(j));
    if (r.chance(1, 3)) spin_cycles(r.below(3000));
    bool was_ready = f.ready();
    m.leave();
    Payload v = co_await std::move(f);
    m.back("child:future");
    (was_ready ? mx->n_ready_future : mx->n_susp_future).fetch_add(1, RLX);
    if (v.a != acc || v.b != f_of(acc)) {
      vf::violation("await-future-wrong-value", "co_await future returned a value that was not the one set",
                    vf::fmt("expected a=%lu got a=%lu b=%lu", (unsigned long)acc, (unsigned long)v.a, (unsigned long)v.b));
    }
    acc = v.b;
  }
  if ((bits & 2) && depth > 0) {
    uint64_t cx = vf::mix(acc, 7);
    Executor* target = bound;
    bool cross = mx->other_exec && r.chance(1, 2);
    if (cross) target = mx->pool.ex[r.below(mx->pool.ex.size())].get();
    m.leave();
    uint64_t v;
    if (cross) {
      v = co_await mix_child(FrameTok {&mx->frames}, mx, target, cx, depth - 1, r.next()).set_executor(*target);
    } else {
      v = co_await mix_child(FrameTok {&mx->frames}, mx, target, cx, depth - 1, r.next());
    }
    m.back("child:grandchild");
    if (v != f_of(cx) + 1) {
      vf::violation("await-task-wrong-value", "co_await task returned a value that is not what the child co_return-ed", "");
    }
    acc ^= v;
  }
  m.end();
  vf::progress();
  co_return f_of(x) + 1;
}

Task<uint64_t> mix_root(FrameTok, Mix* mx, int ri, Executor* bound) {
  CoMon& m = *mx->mon();
  m.begin(bound, 100000 + ri);
  vf::Rng r(vf::mix(mx->seed, uint64_t(ri), 0x2007));
  uint64_t sum = 0;
  for (int s = 0; s < mx->steps; ++s) {
    uint64_t x = vf::mix(mx->seed, uint64_t(ri), uint64_t(s));
    int op = int(r.below(5));
    if (op == 0 || op == 1) {  // child task, same or other executor
      Executor* target = bound;
      bool cross = op == 1 && mx->other_exec;
      if (cross) {
        target = mx->pool.ex[r.below(mx->pool.ex.size())].get();
        mx->n_cross.fetch_add(1, RLX);
      }
      m.leave();
      uint64_t v;
      if (cross) {
        v = co_await mix_child(FrameTok {&mx->frames}, mx, target, x, mx->depth, r.next()).set_executor(*target);
      } else {
        v = co_await mix_child(FrameTok {&mx->frames}, mx, target, x, mx->depth, r.next());
      }
      m.back("root:task");
      if (v != f_of(x) + 1) {
        vf::violation("await-task-wrong-value", "co_await task returned a value that is not what the child co_return-ed",
                      vf::fmt("root %d step %d", ri, s));
      }
      sum += v;
    } else if (op == 2 || op == 3) {  // future, moved or shared
      ::babylon::Promise<Payload> p;
      auto f = p.get_future();
      Job j;
      j.kind = 0;
      j.p = std::move(p);
      j.x = x;
      j.delay = int(r.below(4));
      mx->post(std::move(j));
      if (r.chance(1, 3)) spin_cycles(r.below(3000));
      bool was_ready = f.ready();
      Payload v;
      m.leave();
      if (op == 2) {
        v = co_await std::move(f);
      } else {
        Payload& ref = co_await f;
        v = ref;
      }
      m.back("root:future");
      (was_ready ? mx->n_ready_future : mx->n_susp_future).fetch_add(1, RLX);
      if (v.a != x || v.b != f_of(x)) {
        vf::violation("await-future-wrong-value", "co_await future returned a value that was not the one set",
                      vf::fmt("root %d step %d", ri, s));
      }
      sum += v.b;
    } else {  // cancellable child
      CancelRec* rec = mx->rec();
      rec->mode = int(r.below(4));
      Executor* target = bound;
      bool cross = mx->other_exec && r.chance(1, 2);
      if (cross) target = mx->pool.ex[r.below(mx->pool.ex.size())].get();
      uint64_t bits = r.next();
      bool explicit_exec = cross || !g_inherit_ok || r.chance(1, 3);
      if (!explicit_exec) VF_COUNT("obs:cancellable_inner_inherits_executor");
      m.leave();
      ::absl::optional<uint64_t> opt;
      if (explicit_exec) {
        opt = co_await Cancellable<Task<uint64_t>>(
                  mix_child(FrameTok {&mx->frames}, mx, target, x, mx->depth, bits).set_executor(*target))
                  .on_suspend(MixOnSuspend {mx, rec, r.next()});
      } else {
        opt = co_await Cancellable<Task<uint64_t>>(mix_child(FrameTok {&mx->frames}, mx, target, x, mx->depth, bits))
                  .on_suspend(MixOnSuspend {mx, rec, r.next()});
      }
      m.back("root:cancellable");
      rec->outcome.store(opt.has_value() ? 0 : 1, REL);
      if (opt.has_value()) {
        if (*opt != f_of(x) + 1) {
          vf::violation("await-cancellable-wrong-value", "Cancellable<Task> returned a non-empty optional with a wrong value",
                        vf::fmt("root %d step %d", ri, s));
        }
        sum += *opt;
      } else {
        sum += 1;
      }
    }
    vf::progress();
  }
  m.end();
  co_return sum ^ uint64_t(ri);
}

// Expected return value of a root cannot be precomputed (cancellation outcomes are
// schedule dependent); every contribution is verified at its await site instead, and the
// root's own result is checked for delivery (future ready, low bits carry ri).

void run_mix_episode(uint64_t seed, uint64_t e) {
  vf::Rng r(vf::mix(seed, e, 0x313));
  Mix mx;
  mx.seed = vf::mix(seed, e);
  int E = int(r.range(1, 3));
  std::vector<int> w;
  int budget_threads = 9;
  for (int i = 0; i < E; ++i) {
    int n = int(r.range(2, std::max<uint64_t>(2, std::min<uint64_t>(8, uint64_t(budget_threads - 2 * (E - 1 - i))))));
    if (E > 1) n = std::min(n, 4);
    w.push_back(n);
    budget_threads -= n;
  }
  bool stealing = r.chance(1, 2);
  size_t local_cap = r.chance(1, 2) ? 0 : 8;
  if (!stealing) local_cap = 0;  // without stealing a locally queued resumption may wait behind a blocked-looking worker
  int roots = int(r.range(3, 20));
  mx.steps = int(r.range(2, 8));
  mx.depth = int(r.range(0, 2));
  mx.other_exec = E > 1;
  size_t max_cor = size_t(roots) * (1 + size_t(mx.steps) * 4) + 8;
  mx.mons = std::vector<CoMon>(max_cor);
  mx.recs = std::vector<CancelRec>(size_t(roots) * size_t(mx.steps) + 1);
  int pin = r.chance(1, 4) ? int(r.range(1, 3)) : 0;
  std::string pol = vf::draw_policy(r, kStallPointsMix, 60, 8000);
  std::string cfg = vf::fmt("mix e=%lu executors=%d workers=%d,%d,%d stealing=%d local=%zu roots=%d steps=%d depth=%d pin=%d policy[%s]",
                            (unsigned long)e, E, w[0], E > 1 ? w[1] : 0, E > 2 ? w[2] : 0, int(stealing), local_cap, roots,
                            mx.steps, mx.depth, pin, pol.c_str());
  vf::watchdog().set_context(cfg);
  BoxStat cb0 = box_stat<CancelBox>();
  g_ext_pending = &mx.ext_pending;
  vf::pin_cpus(pin);
  mx.pool.start(w, stealing, local_cap);
  std::vector<std::thread> helpers;
  for (int i = 0; i < 2; ++i) {
    helpers.emplace_back([&mx, i] {
      vf::thread_begin(mx.seed, 100 + i);
      helper_thread(&mx, i);
      vf::thread_end();
    });
  }
  std::vector<::babylon::Future<uint64_t>> futs;
  for (int i = 0; i < roots; ++i) {
    ThreadPoolExecutor* ex = mx.pool.ex[size_t(i) % mx.pool.ex.size()].get();
    futs.push_back(ex->execute(mix_root, FrameTok {&mx.frames}, &mx, i, static_cast<Executor*>(ex)));
  }
  // stuck rule: classify() looks at ext_pending (no external event is owed any more)
  vf::watchdog().arm(true);
  for (int i = 0; i < roots; ++i) {
    while (!futs[size_t(i)].ready()) vf::raw_sleep_us(50);
    uint64_t v = futs[size_t(i)].get();
    (void)v;
  }
  // cancelled children keep running on their own: wait for every frame to go away
  while (mx.frames.load(RLX) != 0 || mx.ext_pending.load(RLX) != 0) vf::raw_sleep_us(50);
  vf::watchdog().arm(false);
  {
    std::lock_guard<std::mutex> g(mx.mu);
    mx.stopping = true;
  }
  mx.cv.notify_all();
  for (auto& t : helpers) t.join();
  mx.pool.barrier();
  mx.pool.barrier();
  vf::disable_policy();
  // cancellation oracle
  uint32_t nrec = std::min<uint32_t>(mx.nrec.load(RLX), uint32_t(mx.recs.size()));
  uint64_t emptied = 0, valued = 0, never_suspended = 0;
  for (uint32_t i = 0; i < nrec; ++i) {
    CancelRec& c = mx.recs[i];
    int outcome = c.outcome.load(ACQ);
    if (outcome < 0) {
      vf::violation("cancellable-await-never-returned", "a root finished although one of its Cancellable awaits never returned", cfg);
      continue;
    }
    if (!c.have_tok.load(ACQ)) {
      ++never_suspended;
      if (outcome == 1) {
        vf::violation("cancellable-empty-without-cancel", "Cancellable returned an empty optional although no token was ever handed out", cfg);
      }
      continue;
    }
    if (c.mode == 3) fire_token(&mx, &c, c.tok, false);  // after completion: must lose
    int won = c.won.load(RLX);
    (outcome == 1 ? emptied : valued)++;
    if ((outcome == 1) != (won == 1)) {
      vf::violation("cancellable-empty-iff-cancel-won",
                    outcome == 1 ? "Cancellable returned an empty optional but no cancel() returned true"
                                 : "cancel() returned true but the awaiter received a value",
                    cfg + vf::fmt(" rec=%u mode=%d won=%d fired=%d", i, c.mode, won, c.fired.load(RLX)));
    }
    // stale token: a second cancel long after the wait is over (slot possibly reused)
    bool again = c.tok();
    if (again) {
      vf::violation("cancellable-stale-cancel-succeeded", "cancel() on a token whose wait had long finished returned true", cfg);
    }
  }
  mx.pool.barrier();
  BoxStat cb1 = box_stat<CancelBox>();
  // at most one cancellable await per root at a time (+ one slot per thread inside take/finish)
  uint32_t bound_slots = std::max<uint32_t>(cb0.high, uint32_t(roots + mx.pool.total + 4));
  if (cb1.high > bound_slots) {
    vf::violation("cancellable-slot-highwater",
                  "DepositBox<BasicCancellable*> allocated more slots than there were concurrent cancellable awaits",
                  cfg + vf::fmt(" high=%u bound=%u", cb1.high, bound_slots));
  }
  if (cb1.active != 0) {
    vf::violation("cancellable-slots-not-returned", "DepositBox<BasicCancellable*> slots still allocated at quiescence",
                  cfg + vf::fmt(" active=%u", cb1.active));
  }
  if (mx.frames.load(RLX) != 0) {
    vf::violation("coroutine-frame-not-destroyed", "coroutine frames alive at quiescence", cfg);
  }
  mx.pool.stop();
  vf::pin_cpus(0);
  g_ext_pending = nullptr;
  VF_COUNT_N("obs:future_suspended", mx.n_susp_future.load(RLX));
  VF_COUNT_N("obs:future_ready", mx.n_ready_future.load(RLX));
  VF_COUNT_N("obs:cancellable_empty", emptied);
  VF_COUNT_N("obs:cancellable_value", valued);
  VF_COUNT_N("obs:cross_executor_child", mx.n_cross.load(RLX));
  bool nontrivial = emptied > 0 || mx.n_susp_future.load(RLX) > 0;
  uint64_t fp = vf::mix(vf::mix(uint64_t(E), uint64_t(roots), uint64_t(mx.steps), uint64_t(mx.depth)), emptied, valued,
                        mx.n_susp_future.load(RLX));
  vf::evaluated(fp, nontrivial);
  vf::sample("{\"config\": " + vf::jstr(cfg) +
             vf::fmt(", \"cancellable_empty\": %lu, \"cancellable_value\": %lu, \"future_suspended\": %lu, "
                     "\"future_ready\": %lu, \"coroutines\": %u}",
                     (unsigned long)emptied, (unsigned long)valued, (unsigned long)mx.n_susp_future.load(RLX),
                     (unsigned long)mx.n_ready_future.load(RLX), mx.nmon.load(RLX)), 2);
}

////////////////////////////////////////////////////////////////////////////////
//                                   MODE futex
////////////////////////////////////////////////////////////////////////////////
struct Defects {
  bool a = false, b = false, c = false, d = false;
};
Defects g_def;
constexpr uint64_t kNoMatchBias = 1ull << 40;  // wakers only ever add small numbers

struct WaitRec {
  Futex::Cancellation tok;
  std::atomic<int> cb {0};   // on_suspend fired => the wait suspended
  std::atomic<int> res {0};  // co_await returned
  std::atomic<int> cancel_true {0};
  int fi = 0;
  bool nm = false;
  bool has_tok = false;
};

struct FutexWorld {
  uint64_t seed = 0;
  Pool pool;
  std::vector<std::unique_ptr<Futex>> fx;
  std::vector<WaitRec> recs;
  std::vector<std::atomic<WaitRec*>> pub;
  std::atomic<uint32_t> npub {0};
  std::vector<CoMon> mons;
  std::atomic<int64_t> frames {0};
  std::atomic<int> waiters_done {0};
  std::atomic<uint64_t> n_cb {0}, n_res {0}, n_nm {0};
  std::atomic<uint64_t> wake_one_sum {0}, wake_all_sum {0}, cancel_sum {0}, wake_one_zero {0};
  int W = 0, K = 0, nomatch_pct = 0, tok_mode = 0;  // tok_mode 0 all, 1 mixed, 2 none
  bool chain = false, hold = false;
  ::babylon::Promise<int> hold_promise;
  ::babylon::Future<int> hold_future;
  bool hold_set = false;
  void release_hold() {
    if (!hold_set) {
      hold_set = true;
      hold_promise.set_value(1);
    }
  }
  ~FutexWorld() { release_hold(); }
};

__attribute__((noinline)) void fw_suspended(FutexWorld* s, WaitRec* w, Futex::Cancellation tok) {
  vf::perturb("cb:on_suspend");
  if (w->nm) {
    vf::violation("futex-nonmatching-wait-suspended",
                  "on_suspend fired for a wait whose expected value can never equal the futex word", "");
  }
  w->tok = tok;
  if (w->cb.exchange(1, REL) != 0) {
    vf::violation("futex-on_suspend-called-twice", "the on_suspend callback of one wait was invoked twice", "");
  }
  s->n_cb.fetch_add(1, REL);
  uint32_t i = s->npub.fetch_add(1, RLX);
  if (i < s->pub.size()) s->pub[i].store(w, REL);
}
struct FwOnSuspend {
  FutexWorld* s;
  WaitRec* w;
  void operator()(Futex::Cancellation&& c) {
    FutexWorld* ss = s;
    WaitRec* ww = w;
    Futex::Cancellation cc = c;
    fw_suspended(ss, ww, cc);
  }
};

// One waiter coroutine: K waits on randomly chosen futexes. In the `chain` profile (used
// while defect c is present) every wait gets a frame of its own that stays alive until the
// episode quiesced: the coroutine spawns its successor after its single wait.
Task<> fw_waiter(FrameTok, FutexWorld* s, int wi, int k0, Executor* bound) {
  CoMon& m = s->mons[s->chain ? size_t(wi) * size_t(s->K) + size_t(k0) : size_t(wi)];
  m.begin(bound, wi);
  vf::Rng r(vf::mix(s->seed, uint64_t(wi), 0xa17, uint64_t(k0)));
  for (int k = k0; k < s->K; ++k) {
    WaitRec* w = &s->recs[size_t(wi) * size_t(s->K) + size_t(k)];
    w->fi = int(r.below(s->fx.size()));
    Futex& f = *s->fx[size_t(w->fi)];
    uint64_t cur = f.atomic_value().load(RLX);
    w->nm = r.chance(uint64_t(s->nomatch_pct), 100);
    uint64_t expect = w->nm ? cur + kNoMatchBias : cur;
    w->has_tok = w->nm || s->tok_mode == 0 || (s->tok_mode == 1 && r.chance(1, 2));
    if (w->nm) s->n_nm.fetch_add(1, RLX);
    if (r.chance(1, 4)) spin_cycles(r.below(2000));
    m.leave();
    if (w->has_tok) {
      co_await f.wait(expect).on_suspend(FwOnSuspend {s, w});
    } else {
      co_await f.wait(expect);
    }
    m.back("futex:wait");
    if (w->res.fetch_add(1, REL) != 0) {
      vf::violation("futex-wait-returned-twice", "one co_await futex.wait() returned twice (double resume)",
                    vf::fmt("waiter %d round %d", wi, k));
    }
    s->n_res.fetch_add(1, REL);
    vf::progress();
    if (s->chain) {
      if (k + 1 < s->K) {
        static_cast<ThreadPoolExecutor*>(bound)->submit(fw_waiter, FrameTok {&s->frames}, s, wi, k + 1, bound);
      } else {
        s->waiters_done.fetch_add(1, REL);
      }
      break;
    }
  }
  if (!s->chain) s->waiters_done.fetch_add(1, REL);
  if (s->hold) {
    m.leave();
    int& v = co_await s->hold_future;
    m.back("futex:hold");
    (void)v;
  }
  m.end();
  co_return;
}

void fw_setup(FutexWorld& s, int F) {
  for (int i = 0; i < F; ++i) s.fx.push_back(std::make_unique<Futex>());
  s.recs = std::vector<WaitRec>(size_t(s.W) * size_t(s.K));
  s.pub = std::vector<std::atomic<WaitRec*>>(size_t(s.W) * size_t(s.K));
  for (auto& p : s.pub) p.store(nullptr, RLX);
  s.mons = std::vector<CoMon>(size_t(s.W) * size_t(s.chain ? s.K : 1));
  s.hold_future = s.hold_promise.get_future();
}

struct BoxBase {
  uint32_t active = 0;  // slots lost for good by probe b on a tree that has defect b
  uint32_t bound = 0;   // running high-water bound
};
BoxBase g_fbox;

void fw_check_box(const std::string& cfg, uint32_t concurrent) {
  BoxStat st = box_stat<FutexBox>();
  g_fbox.bound = std::max(g_fbox.bound, concurrent);
  if (st.active != g_fbox.active) {
    vf::violation("futex-node-slots-not-returned",
                  "DepositBox<Futex::Node> slots still allocated at quiescence (per-wait bookkeeping leaked)",
                  cfg + vf::fmt(" active=%u expected=%u high=%u", st.active, g_fbox.active, st.high));
    g_fbox.active = st.active;
  }
  if (st.high > g_fbox.bound + g_fbox.active) {
    vf::violation("futex-node-slot-highwater",
                  "DepositBox<Futex::Node> allocated more slots than there ever were concurrent waits",
                  cfg + vf::fmt(" high=%u bound=%u", st.high, g_fbox.bound));
    g_fbox.bound = st.high;
  }
}

//------------------------------------------------------------------------------ probes
// Small deterministic scenarios. Each uses one executor with 4 workers and blocking gates.

// (a) a wait whose expected value does not match must not keep a deposit-box slot
void probe_a() {
  CallsMustReturn armed;
  FutexWorld s;
  s.seed = 0xa;
  s.W = 1;
  s.K = 64;
  s.nomatch_pct = 100;
  fw_setup(s, 1);
  s.pool.start({2}, false, 0);
  BoxStat b0 = box_stat<FutexBox>();
  auto fut = s.pool.ex[0]->execute(fw_waiter, FrameTok {&s.frames}, &s, 0, 0, static_cast<Executor*>(s.pool.ex[0].get()));
  wait_until([&] { return fut.ready(); }, "stuck:futex-nonmatching-wait-never-returned");
  s.pool.barrier();
  BoxStat b1 = box_stat<FutexBox>();
  if (b1.active > b0.active) {
    g_def.a = true;
    vf::violation("futex-nonmatching-wait-leaks-slot",
                  "co_await futex.wait(x) with a non-matching value returns without suspending but never gives its "
                  "DepositBox<Futex::Node> slot back",
                  vf::fmt("%d non-matching waits: active slots %u -> %u, slots ever allocated %u -> %u", s.K, b0.active,
                          b1.active, b0.high, b1.high));
    g_fbox.active = b1.active;
  }
  g_fbox.bound = std::max(g_fbox.bound, b1.high);
  VF_COUNT("obs:probe_a");
  s.pool.stop();
}

struct ProbeCtx {
  Futex f, g;
  Gate gate;
  std::atomic<int64_t> frames {0};
  std::atomic<int> suspended {0}, resumed {0};
  std::atomic<int> cb_count[2] = {{0}, {0}};
  Futex::Cancellation tok[8];
  ::babylon::Promise<int> hold_promise;
  ::babylon::Future<int> hold_future;
};
__attribute__((noinline)) void probe_suspended(ProbeCtx* x, int i, Futex::Cancellation tok) {
  x->tok[i] = tok;
  x->suspended.fetch_add(1, REL);
}
struct ProbeOnSuspend {
  ProbeCtx* x;
  int i;
  void operator()(Futex::Cancellation&& c) {
    ProbeCtx* xx = x;
    int ii = i;
    Futex::Cancellation cc = c;
    probe_suspended(xx, ii, cc);
  }
};
Task<> probe_waiter(FrameTok, ProbeCtx* x, Futex* f, int i) {
  co_await f->wait(0).on_suspend(ProbeOnSuspend {x, i});
  x->resumed.fetch_add(1, REL);
  co_return;
}

// (d) wake_one while the front waiter is being cancelled (canceller owns the node but has
// not unlinked it yet) must still resume the other waiter
void probe_d() {
  CallsMustReturn armed;
  ProbeCtx x;
  Pool pool;
  pool.start({4}, false, 0);
  auto* ex = pool.ex[0].get();
  auto fa = ex->execute(probe_waiter, FrameTok {&x.frames}, &x, &x.f, 0);
  wait_until([&] { return x.suspended.load(ACQ) == 1; }, nullptr);
  auto fb = ex->execute(probe_waiter, FrameTok {&x.frames}, &x, &x.f, 1);  // front of the list
  wait_until([&] { return x.suspended.load(ACQ) == 2; }, nullptr);
  std::atomic<int> cancel_ret {-1};
  x.gate.reset("cofutex:cancel_taken");
  std::thread canceller([&] {
    vf::thread_begin(0xd, 1);
    tl_gate = &x.gate;
    cancel_ret.store(x.tok[1]() ? 1 : 0, REL);
    tl_gate = nullptr;
    vf::thread_end();
  });
  wait_until([&] { return x.gate.arrived.load(ACQ) == 1; }, "stuck:probe-gate-never-reached");
  int r = x.f.wake_one();  // waiter 0 is suspended and not being cancelled for the whole call
  x.gate.open.store(1, REL);
  canceller.join();
  if (cancel_ret.load(ACQ) != 1) {
    vf::violation("futex-cancel-result-wrong", "cancel() of a suspended wait returned false", "probe d");
  }
  if (r != 1) {
    g_def.d = true;
    vf::violation("futex-wake_one-stops-at-cancelling-node",
                  "wake_one returned 0 and resumed nobody although a suspended waiter that was not being cancelled "
                  "existed for the whole call (the front node was owned by a canceller that had not unlinked it yet)",
                  vf::fmt("waiters: #0 suspended, #1 (front) inside cancel between take and remove_awaiter; wake_one()=%d", r));
    int r2 = x.f.wake_all();
    if (r2 != 1) {
      vf::violation("futex-wake_all-count-mismatch", "wake_all after probe d did not find the remaining waiter",
                    vf::fmt("wake_all()=%d", r2));
    }
  }
  wait_until([&] { return fa.ready() && fb.ready(); }, "stuck:futex-woken-waiter-never-ran");
  pool.barrier();
  if (x.f.wake_all() != 0) {
    vf::violation("futex-wake_all-count-mismatch", "wake_all on an empty futex returned non-zero", "probe d");
  }
  // second phase: the same window against wake_all, then new waiters reuse the slots: the list must stay sane
  {
    ProbeCtx y;
    auto ga = ex->execute(probe_waiter, FrameTok {&y.frames}, &y, &y.f, 0);
    wait_until([&] { return y.suspended.load(ACQ) == 1; }, nullptr);
    auto gb = ex->execute(probe_waiter, FrameTok {&y.frames}, &y, &y.f, 1);
    wait_until([&] { return y.suspended.load(ACQ) == 2; }, nullptr);
    std::atomic<int> cret {-1};
    y.gate.reset("cofutex:cancel_taken");
    std::thread canceller2([&] {
      vf::thread_begin(0xd, 2);
      tl_gate = &y.gate;
      cret.store(y.tok[1]() ? 1 : 0, REL);
      tl_gate = nullptr;
      vf::thread_end();
    });
    wait_until([&] { return y.gate.arrived.load(ACQ) == 1; }, "stuck:probe-gate-never-reached");
    int ra = y.f.wake_all();  // owns and resumes waiter 0 only; waiter 1 belongs to the parked canceller
    wait_until([&] { return ga.ready(); }, "stuck:futex-woken-waiter-never-ran");
    y.gate.open.store(1, REL);
    canceller2.join();
    wait_until([&] { return gb.ready(); }, "stuck:futex-woken-waiter-never-ran");
    pool.barrier();
    if (ra != 1 || cret.load(ACQ) != 1) {
      vf::violation("futex-wake_all-vs-cancel-in-flight-wrong-result",
                    "wake_all racing a cancel that owns the front node: expected wake_all()=1 and cancel()=true",
                    vf::fmt("wake_all()=%d cancel()=%d", ra, cret.load(ACQ)));
    }
    int total = 0;
    for (int round = 0; round < 3; ++round) {  // arrivals reuse both slots; stale links would resurface here
      auto h1 = ex->execute(probe_waiter, FrameTok {&y.frames}, &y, &y.f, 2);
      auto h2 = ex->execute(probe_waiter, FrameTok {&y.frames}, &y, &y.f, 3);
      int want = 4 + 2 * round;
      wait_until([&] { return y.suspended.load(ACQ) == want; }, nullptr);
      int rr = y.f.wake_all();
      total += rr;
      if (rr != 2) {
        vf::violation("futex-wake_all-count-mismatch", "wake_all after a cancel/wake_all race did not wake exactly the two new waiters",
                      vf::fmt("round %d wake_all()=%d", round, rr));
        break;
      }
      wait_until([&] { return h1.ready() && h2.ready(); }, "stuck:futex-woken-waiter-never-ran");
    }
    pool.barrier();
    if (y.f.wake_one() != 0) {
      vf::violation("futex-wake-on-empty-list-returned-nonzero", "a node was still linked after every waiter of probe d had finished", "");
    }
    (void)total;
  }
  VF_COUNT("obs:probe_d");
  pool.stop();
}

// (c) after add_awaiter published the node, await_suspend must not touch the awaitable
// any more: it is a temporary living in the coroutine frame, and the coroutine may already
// be running elsewhere. The waiter awaits twice from the same expression (same temporary
// slot in the frame): the thread that ran the first await_suspend is parked right after
// add_awaiter, the coroutine is woken, loops and suspends on the second wait; when the
// parked thread goes on and reads `_on_suspend` from the frame it finds the callback of
// the *second* wait and invokes it again.
struct ProbeCOnSuspend {
  ProbeCtx* x;
  int i;
  void operator()(Futex::Cancellation&& c) {
    ProbeCtx* xx = x;
    int ii = i;
    Futex::Cancellation cc = c;
    xx->tok[ii] = cc;
    xx->cb_count[ii].fetch_add(1, REL);
  }
};
Task<> probe_c_waiter(FrameTok, ProbeCtx* x) {
  Futex* fx[2] = {&x->f, &x->g};
  for (int i = 0; i < 2; ++i) {
    if (i == 0) tl_gate = &x->gate;
    co_await fx[i]->wait(0).on_suspend(ProbeCOnSuspend {x, i});
    x->resumed.fetch_add(1, REL);
  }
  co_return;
}
void probe_c() {
  CallsMustReturn armed;
  ProbeCtx x;
  Pool pool;
  pool.start({4}, false, 0);
  x.gate.reset("cofutex:awaiter_added");
  auto fut = pool.ex[0]->execute(probe_c_waiter, FrameTok {&x.frames}, &x);
  wait_until([&] { return x.gate.arrived.load(ACQ) == 1; }, "stuck:probe-gate-never-reached");
  int r = x.f.wake_one();
  if (r != 1) {
    vf::violation("futex-wake_one-returned-0-with-suspended-waiter",
                  "wake_one returned 0 although add_awaiter had linked a waiter", "probe c");
  }
  wait_until([&] { return x.cb_count[1].load(ACQ) == 1; }, "stuck:futex-woken-waiter-never-ran");
  x.gate.open.store(1, REL);
  pool.barrier();
  int c0 = x.cb_count[0].load(ACQ), c1 = x.cb_count[1].load(ACQ);
  if (c1 != 1 || c0 != 1) {
    g_def.c = true;
    g_skip_awaiter_added_delay.store(1, RLX);
    vf::violation("futex-await_suspend-touches-awaitable-after-publish",
                  "Futex::Awaitable::await_suspend read _on_suspend (a member of the awaitable temporary in the "
                  "coroutine frame) after add_awaiter had published the node: the coroutine had already been resumed "
                  "by wake_one and suspended on its next wait, and the stale await_suspend invoked the callback that "
                  "belongs to that next wait",
                  vf::fmt("waiter parked at cofutex:awaiter_added of wait #0; wake_one()=1; coroutine looped and suspended "
                          "on wait #1 (same frame slot); parked thread released; on_suspend invocations: wait#0=%d wait#1=%d "
                          "(expected 1 and 1)", c0, c1));
  }
  if (x.g.wake_one() != 1) {
    vf::violation("futex-wake_one-returned-0-with-suspended-waiter", "wake_one did not find the second wait of probe c", "");
  }
  wait_until([&] { return fut.ready() && x.frames.load(RLX) == 0; }, "stuck:futex-woken-waiter-never-ran");
  pool.barrier();
  VF_COUNT("obs:probe_c");
  pool.stop();
}

// (b) wake_all must not walk through a node after finish_released(node): a new waiter may
// have re-emplaced the slot
void probe_b() {
  CallsMustReturn armed;
  static ProbeCtx* xp = nullptr;  // stays reachable when the defect is present (lost waiters keep pointing into it)
  xp = new ProbeCtx;
  ProbeCtx& x = *xp;
  Pool pool;
  pool.start({4}, false, 0);
  auto* ex = pool.ex[0].get();
  std::vector<::babylon::Future<void>> futs;
  for (int i = 0; i < 3; ++i) {
#if VF_ASAN
    // with defect b two of these frames are never resumed again (reported under its own key): not a LeakSanitizer matter
    __lsan::ScopedDisabler no_leak_report;
#endif
    futs.push_back(ex->execute(probe_waiter, FrameTok {&x.frames}, &x, &x.f, i));
    wait_until([&] { return x.suspended.load(ACQ) == i + 1; }, nullptr);
  }
  std::atomic<int> ret {-1};
  x.gate.reset("cofutex:wake_all_finished_node");
  std::thread waker([&] {
    vf::thread_begin(0xb, 1);
    tl_gate = &x.gate;
    ret.store(x.f.wake_all(), REL);
    tl_gate = nullptr;
    vf::thread_end();
  });
  wait_until([&] { return x.gate.arrived.load(ACQ) == 1; }, "stuck:probe-gate-never-reached");
  // first node resumed and its slot released; the waker is parked before it reads the next pointer.
  wait_until([&] { return x.resumed.load(ACQ) == 1; }, "stuck:futex-woken-waiter-never-ran");
  // a new waiter on another (empty) futex takes the released slot (LIFO free list)
  auto f4 = ex->execute(probe_waiter, FrameTok {&x.frames}, &x, &x.g, 3);
  wait_until([&] { return x.suspended.load(ACQ) == 4; }, nullptr);
  x.gate.open.store(1, REL);
  waker.join();
  int r = ret.load(ACQ);
  if (x.g.wake_all() != 1) {
    vf::violation("futex-wake_all-count-mismatch", "wake_all did not find the single waiter of the second futex", "probe b");
  }
  wait_until([&] { return f4.ready(); }, "stuck:futex-woken-waiter-never-ran");
  if (r != 3) {
    g_def.b = true;
    pool.barrier();
    BoxStat st = box_stat<FutexBox>();
    vf::violation("futex-wake_all-walks-released-node",
                  "wake_all read node->next after finish_released(node): a new waiter had re-emplaced the slot, the "
                  "walk stopped early and the remaining waiters (already taken out of the list) were never resumed",
                  vf::fmt("3 suspended waiters, no canceller; waker parked at cofutex:wake_all_finished_node while a "
                          "4th waiter arrived on another futex; wake_all()=%d resumed=%d of 3; active slots now %u",
                          r, x.resumed.load(ACQ) - 1, st.active));
    g_fbox.active = st.active;  // the lost nodes keep their slots for ever
  } else {
    wait_until([&] { return futs[0].ready() && futs[1].ready() && futs[2].ready(); }, "stuck:futex-woken-waiter-never-ran");
    pool.barrier();
    if (x.frames.load(RLX) != 0) {
      vf::violation("coroutine-frame-not-destroyed", "coroutine frames alive at quiescence", "probe b");
    }
    delete xp;
    xp = nullptr;
  }
  VF_COUNT("obs:probe_b");
  pool.stop();
}

//------------------------------------------------------------------------------ solo episodes
// One thread issues every wake / cancel; the model knows exactly how many waiters are
// suspended, so every return value is determined.
struct SoloWaiter {
  int rec = 0;
  bool suspended = false;
};

void run_solo_episode(uint64_t seed, uint64_t e) {
  vf::Rng r(vf::mix(seed, e, 0x5010));
  FutexWorld s;
  s.seed = vf::mix(seed, e);
  int N = int(r.range(1, 12));
  int extra = int(r.range(0, 12));
  s.W = N + extra;
  s.K = 1;
  s.tok_mode = 0;
  fw_setup(s, 1);
  Futex& f = *s.fx[0];
  uint64_t word = r.below(3);
  f.atomic_value().store(word, RLX);
  int nw = int(r.range(2, 4));
  std::string pol = vf::draw_policy(r, kStallPointsFutex, 30, 4000);
  s.pool.start({nw}, r.chance(1, 2), 0);
  auto* ex = s.pool.ex[0].get();
  std::string cfg = vf::fmt("solo e=%lu waiters=%d later=%d workers=%d policy[%s]", (unsigned long)e, N, extra, nw, pol.c_str());
  vf::watchdog().set_context(cfg);
  CallsMustReturn armed;
  std::vector<::babylon::Future<void>> futs;
  std::vector<int> susp;  // indices of waiters the model knows to be suspended
  int started = 0;
  uint64_t expect_cb = 0, expect_res = 0;
  auto start_waiter = [&] {
    int wi = started++;
    // recs[wi]: single wait of waiter wi. nm decided by the coroutine's own rng: make it explicit instead
    futs.push_back(ex->execute(fw_waiter, FrameTok {&s.frames}, &s, wi, 0, static_cast<Executor*>(ex)));
    ++expect_cb;
    wait_until([&] { return s.n_cb.load(ACQ) == expect_cb; }, "stuck:futex-matching-wait-never-suspended");
    susp.push_back(wi);
  };
  auto settle = [&] {
    wait_until([&] { return s.n_res.load(ACQ) == expect_res; }, "stuck:futex-woken-waiter-never-ran");
  };
  for (int i = 0; i < N; ++i) start_waiter();
  uint64_t ops = 0, n_w1 = 0, n_wa = 0, n_c = 0;
  std::string hist;
  while (!susp.empty() || started < s.W) {
    int op = int(r.below(10));
    ++ops;
    if (op < 3) {
      int ret = f.wake_one();
      int want = susp.empty() ? 0 : 1;
      hist += vf::fmt("wake_one=%d ", ret);
      if (ret != want) {
        vf::violation(want ? "futex-wake_one-returned-0-with-suspended-waiter" : "futex-wake_one-woke-nobody-but-returned-1",
                      "wake_one return value differs from the sequential model (no concurrent wake or cancel)",
                      cfg + " history: " + hist + vf::fmt("| model suspended=%zu", susp.size()));
        break;
      }
      if (want) {
        ++expect_res;
        ++n_w1;
        settle();
        // find which one was resumed
        for (size_t k = 0; k < susp.size(); ++k) {
          if (s.recs[size_t(susp[k])].res.load(ACQ) != 0) {
            susp.erase(susp.begin() + long(k));
            break;
          }
        }
      }
    } else if (op < 5) {
      int ret = f.wake_all();
      hist += vf::fmt("wake_all=%d ", ret);
      if (ret != int(susp.size())) {
        vf::violation("futex-wake_all-count-mismatch",
                      "wake_all return value differs from the number of suspended waiters (sequential model)",
                      cfg + " history: " + hist + vf::fmt("| model suspended=%zu", susp.size()));
        break;
      }
      expect_res += susp.size();
      ++n_wa;
      settle();
      susp.clear();
    } else if (op < 8 && !susp.empty()) {
      size_t k = r.below(susp.size());
      WaitRec& w = s.recs[size_t(susp[k])];
      bool ok = w.tok();
      hist += vf::fmt("cancel(%d)=%d ", susp[k], int(ok));
      if (!ok) {
        vf::violation("futex-cancel-result-wrong", "cancel() of a suspended wait returned false (sequential model)",
                      cfg + " history: " + hist);
        break;
      }
      ++expect_res;
      ++n_c;
      settle();
      susp.erase(susp.begin() + long(k));
      if (w.tok()) {
        vf::violation("futex-stale-cancel-succeeded", "second cancel() of the same token returned true", cfg + " history: " + hist);
        break;
      }
    } else if (op == 8 && started < s.W) {
      start_waiter();
      hist += "arrive ";
    } else if (started > 0) {
      // stale token of a wait that is over (its slot may have been reused meanwhile)
      int wi = int(r.below(uint64_t(started)));
      WaitRec& w = s.recs[size_t(wi)];
      if (w.res.load(ACQ) != 0 && w.tok()) {
        vf::violation("futex-stale-cancel-succeeded", "cancel() of a wait that had already been resumed returned true",
                      cfg + " history: " + hist);
        break;
      }
    }
    if (susp.empty() && started < s.W && r.chance(1, 2)) {
      start_waiter();
      hist += "arrive ";
    }
    if (ops > 400) break;
  }
  if (!vf::failed() || g_def.a || g_def.b || g_def.c || g_def.d) {
    int ret = f.wake_all();
    expect_res += susp.size();
    if (ret != int(susp.size())) {
      vf::violation("futex-wake_all-count-mismatch", "final wake_all differs from the model", cfg + " history: " + hist);
    }
    susp.clear();
  }
  wait_until([&] {
    for (auto& ft : futs)
      if (!ft.ready()) return false;
    return true;
  }, "stuck:futex-woken-waiter-never-ran");
  s.pool.barrier();
  vf::disable_policy();
  if (f.wake_one() != 0 || f.wake_all() != 0) {
    vf::violation("futex-wake-on-empty-list-returned-nonzero", "wake on a futex without waiters returned non-zero", cfg);
  }
  if (s.frames.load(RLX) != 0) vf::violation("coroutine-frame-not-destroyed", "coroutine frames alive at quiescence", cfg);
  fw_check_box(cfg, uint32_t(s.W + nw + 2));
  s.pool.stop();
  VF_COUNT_N("obs:solo_wake_one", n_w1);
  VF_COUNT_N("obs:solo_wake_all", n_wa);
  VF_COUNT_N("obs:solo_cancel", n_c);
  vf::evaluated(vf::mix(0x5010, uint64_t(N), vf::mix(n_w1, n_wa, n_c), uint64_t(started)), n_w1 + n_wa + n_c > 0);
  vf::sample("{\"config\": " + vf::jstr(cfg) + ", \"history\": " + vf::jstr(hist.substr(0, 400)) + "}", 3);
}

//------------------------------------------------------------------------------ hand-off episodes
// FUTEX(2) contract: "value check and suspend happen atomically". One waiter repeatedly
// waits for the word it just read, one waker bumps the word and issues exactly ONE
// wake_all per round: if the waiter could suspend on the stale value after that wake, it
// would sleep for ever.
struct Handoff {
  Futex f;
  std::atomic<uint64_t> rounds_done {0};
  std::atomic<int64_t> frames {0};
  uint64_t rounds = 0;
  uint64_t seed = 0;
  std::atomic<uint64_t> suspended {0};
};
struct HandoffOnSuspend {
  Handoff* h;
  void operator()(Futex::Cancellation&&) {
    Handoff* hh = h;
    hh->suspended.fetch_add(1, RLX);
  }
};
Task<> handoff_waiter(FrameTok, Handoff* h, Executor* bound) {
  CoMon m;
  m.begin(bound, 0);
  vf::Rng r(vf::mix(h->seed, 0x4a));
  for (uint64_t i = 0; i < h->rounds; ++i) {
    // wait until the word moves past i
    for (;;) {
      uint64_t cur = h->f.atomic_value().load(ACQ);
      if (cur > i) break;
      if (r.chance(1, 3)) spin_cycles(r.below(1500));
      m.leave();
      co_await h->f.wait(cur).on_suspend(HandoffOnSuspend {h});
      m.back("handoff:wait");
    }
    h->rounds_done.store(i + 1, REL);
    vf::progress();
  }
  m.end();
  co_return;
}
void run_handoff_episode(uint64_t seed, uint64_t e) {
  vf::Rng r(vf::mix(seed, e, 0x4a4d));
  auto h = std::make_unique<Handoff>();
  h->seed = vf::mix(seed, e);
  // Many rounds: every round is a natural race between the waiter's "check the word, then suspend" and the
  // waker's "bump the word, wake_all". The seeded change C13-a2 (value check hoisted out of the futex mutex)
  // loses a wake-up once in 10^3..10^5 such rounds and escaped the former 50-300 rounds per episode.
  h->rounds = (VF_TSAN || VF_ASAN) ? r.range(800, 4000) : r.range(6000, 30000);
  Pool pool;
  int nw = int(r.range(2, 4));
  std::string pol = vf::draw_policy(r, kStallPointsFutex, 200, 3000);
  pool.start({nw}, false, 0);
  std::string cfg = vf::fmt("handoff e=%lu rounds=%lu workers=%d policy[%s]", (unsigned long)e, (unsigned long)h->rounds, nw, pol.c_str());
  vf::watchdog().set_context(cfg);
  CallsMustReturn armed;
  auto fut = pool.ex[0]->execute(handoff_waiter, FrameTok {&h->frames}, h.get(), static_cast<Executor*>(pool.ex[0].get()));
  uint64_t woke = 0;
  for (uint64_t i = 0; i < h->rounds && !vf::failed(); ++i) {
    if (r.chance(1, 3)) spin_cycles(r.below(3000));
    h->f.atomic_value().fetch_add(1, std::memory_order_acq_rel);
    int ret = h->f.wake_all();  // exactly one wake per round
    if (ret < 0 || ret > 1) {
      vf::violation("futex-wake_all-count-mismatch", "wake_all woke more waiters than exist", cfg);
    }
    woke += uint64_t(ret);
    // the word changed and wake_all returned: the waiter either never suspended or was resumed.
    // Spin first (the next bump should race with the waiter's next check-then-suspend, a 50 us poll
    // would always let the waiter win), then fall back to the polling wait that feeds the stuck rule.
    {
      uint64_t t0 = __rdtsc();
      while (h->rounds_done.load(ACQ) < i + 1 && __rdtsc() - t0 < 300000) _mm_pause();
      // draw the bump's delay around the length of the waiter's path from "round done" to "check under the mutex"
      if (h->rounds_done.load(ACQ) >= i + 1) spin_cycles(r.below(r.chance(1, 2) ? 800 : 6000));
    }
    wait_until([&] { return h->rounds_done.load(ACQ) >= i + 1; }, "stuck:futex-wait-missed-wake");
  }
  wait_until([&] { return fut.ready(); }, "stuck:futex-woken-waiter-never-ran");
  pool.barrier();
  vf::disable_policy();
  if (woke != h->suspended.load(RLX)) {
    vf::violation("futex-resume-accounting-mismatch", "number of waits that suspended differs from the sum of wake_all return values",
                  cfg + vf::fmt(" suspended=%lu woke=%lu", (unsigned long)h->suspended.load(RLX), (unsigned long)woke));
  }
  fw_check_box(cfg, uint32_t(2 + nw));
  pool.stop();
  VF_COUNT_N("obs:handoff_suspended", h->suspended.load(RLX));
  VF_COUNT_N("obs:handoff_rounds", h->rounds);
  vf::evaluated(vf::mix(0x4a4d, h->rounds, woke), woke > 0);
}

//------------------------------------------------------------------------------ storm episodes
void run_storm_episode(uint64_t seed, uint64_t e) {
  vf::Rng r(vf::mix(seed, e, 0x5709));
  FutexWorld s;
  s.seed = vf::mix(seed, e);
  int F = int(r.range(2, 6));
  int E = int(r.range(1, 3));
  std::vector<int> w;
  for (int i = 0; i < E; ++i) w.push_back(int(r.range(2, E == 1 ? 6 : 3)));
  s.W = int(r.range(4, 24));
  s.K = int(r.range(3, 14));
  s.nomatch_pct = g_def.a ? 0 : int(r.pick<int>({0, 10, 20, 35}));
  s.tok_mode = int(r.below(3));
  // with defect c a stale await_suspend invokes a destroyed (heap-backed) callback: no tokens in the storms then,
  // cancellation stays covered by the solo episodes, where the callback has run before anything is woken
  if (g_def.c) s.tok_mode = 2;
  s.chain = g_def.c;
  s.hold = g_def.c;
  int n_wakers = int(r.range(1, 3));
  int n_cancellers = s.tok_mode == 2 ? 0 : int(r.range(0, 2));
  bool allow_wake_all = !g_def.b;
  // with defect a every wait that turns non-matching because the word moved leaks a slot: keep the word still
  bool allow_bump = !g_def.a;
  fw_setup(s, F);
  bool stealing = r.chance(1, 2);
  int pin = r.chance(1, 4) ? int(r.range(1, 3)) : 0;
  std::string pol = vf::draw_policy(r, kStallPointsFutex, 150, 6000);
  s.pool.start(w, stealing, 0);
  std::string cfg = vf::fmt("storm e=%lu futexes=%d executors=%d workers=%d,%d,%d waiters=%d rounds=%d nomatch=%d%% tokens=%d "
                            "wakers=%d cancellers=%d wake_all=%d chain=%d pin=%d policy[%s]",
                            (unsigned long)e, F, E, w[0], E > 1 ? w[1] : 0, E > 2 ? w[2] : 0, s.W, s.K, s.nomatch_pct,
                            s.tok_mode, n_wakers, n_cancellers, int(allow_wake_all), int(s.chain), pin, pol.c_str());
  vf::watchdog().set_context(cfg);
  vf::pin_cpus(pin);
  std::vector<::babylon::Future<void>> futs;
  for (int i = 0; i < s.W; ++i) {
    auto* ex = s.pool.ex[size_t(i) % s.pool.ex.size()].get();
    futs.push_back(ex->execute(fw_waiter, FrameTok {&s.frames}, &s, i, 0, static_cast<Executor*>(ex)));
  }
  // wakers keep waking every futex until every waiter finished its rounds: any suspended
  // waiter is owed a wake, so "no waiter progress for the grace period" is a violation.
  g_stuck_key.store("stuck:futex-waiter-never-resumed", RLX);
  vf::watchdog().arm(true);
  vf::run_threads(n_wakers + n_cancellers, s.seed, [&](int t) {
    vf::Rng tr(vf::mix(s.seed, uint64_t(t), 0x7a));
    if (t < n_wakers) {
      while (s.waiters_done.load(ACQ) < s.W) {
        Futex& f = *s.fx[tr.below(s.fx.size())];
        int op = int(tr.below(8));
        if (op == 0) {
          if (allow_bump) f.atomic_value().fetch_add(1, std::memory_order_acq_rel);
        } else if (op <= 4 || !allow_wake_all) {
          int ret = f.wake_one();
          if (ret != 0 && ret != 1) vf::violation("futex-wake_one-return-out-of-range", "wake_one returned neither 0 nor 1", cfg);
          s.wake_one_sum.fetch_add(uint64_t(ret), RLX);
          if (ret == 0) s.wake_one_zero.fetch_add(1, RLX);
        } else if (op <= 6) {
          if (allow_bump && tr.chance(1, 2)) f.atomic_value().fetch_add(1, std::memory_order_acq_rel);
          int ret = f.wake_all();
          if (ret < 0 || ret > s.W) vf::violation("futex-wake_all-count-mismatch", "wake_all returned more than there are waiters", cfg);
          s.wake_all_sum.fetch_add(uint64_t(ret), RLX);
        } else {
          vf::raw_sleep_us(tr.below(200));
        }
        if (tr.chance(1, 8)) ::sched_yield();
      }
    } else {
      while (s.waiters_done.load(ACQ) < s.W) {
        uint32_t n = std::min<uint32_t>(s.npub.load(RLX), uint32_t(s.pub.size()));
        if (n == 0) {
          ::sched_yield();
          continue;
        }
        uint32_t i = tr.chance(3, 4) ? n - 1 - uint32_t(tr.below(std::min<uint32_t>(n, 6))) : uint32_t(tr.below(n));
        WaitRec* wr = s.pub[i].load(ACQ);
        if (wr == nullptr) continue;
        bool was_resumed = wr->res.load(ACQ) != 0;
        bool won = wr->tok();
        if (won) {
          if (was_resumed) {
            vf::violation("futex-stale-cancel-succeeded", "cancel() of a wait that had already been resumed returned true", cfg);
          }
          if (wr->cancel_true.fetch_add(1, RLX) != 0) {
            vf::violation("futex-cancel-succeeded-twice", "two cancel() calls on one token both returned true", cfg);
          }
          s.cancel_sum.fetch_add(1, RLX);
        }
        if (tr.chance(1, 4)) vf::raw_sleep_us(tr.below(100));
      }
    }
  });
  vf::watchdog().arm(false);
  g_stuck_key.store(nullptr, RLX);
  s.pool.barrier();
  if (s.hold) s.release_hold();
  wait_until([&] {
    for (auto& ft : futs)
      if (!ft.ready()) return false;
    return s.frames.load(RLX) == 0;
  }, "stuck:futex-woken-waiter-never-ran");
  s.pool.barrier();
  vf::disable_policy();
  // accounting
  uint64_t cb = s.n_cb.load(RLX), resumed_by = s.wake_one_sum.load(RLX) + s.wake_all_sum.load(RLX) + s.cancel_sum.load(RLX);
  uint64_t total = uint64_t(s.W) * uint64_t(s.K), nm = s.n_nm.load(RLX);
  std::string acc = vf::fmt(" waits=%lu nonmatching=%lu suspended(on_suspend)=%lu wake_one=%lu wake_all=%lu cancel=%lu wake_one_zero=%lu",
                            (unsigned long)total, (unsigned long)nm, (unsigned long)cb, (unsigned long)s.wake_one_sum.load(RLX),
                            (unsigned long)s.wake_all_sum.load(RLX), (unsigned long)s.cancel_sum.load(RLX),
                            (unsigned long)s.wake_one_zero.load(RLX));
  if (s.n_res.load(RLX) != total) {
    vf::violation("futex-wait-count-mismatch", "number of returned waits differs from the number issued", cfg + acc);
  }
  if (s.tok_mode == 0 && cb != resumed_by) {
    vf::violation("futex-resume-accounting-mismatch",
                  "number of waits that suspended differs from sum(wake_one) + sum(wake_all) + number of successful cancels",
                  cfg + acc);
  } else if (resumed_by < cb || resumed_by > total - nm) {
    vf::violation("futex-resume-accounting-mismatch",
                  "sum(wake_one) + sum(wake_all) + successful cancels is outside [known suspended, matching waits]", cfg + acc);
  }
  for (auto& f : s.fx) {
    if (f->wake_all() != 0) vf::violation("futex-wake-on-empty-list-returned-nonzero", "a waiter was still linked after every coroutine finished", cfg);
  }
  // every token is stale now
  uint32_t np = std::min<uint32_t>(s.npub.load(RLX), uint32_t(s.pub.size()));
  for (uint32_t i = 0; i < np; ++i) {
    WaitRec* wr = s.pub[i].load(ACQ);
    if (wr && wr->tok()) {
      vf::violation("futex-stale-cancel-succeeded", "cancel() returned true after every coroutine had finished", cfg);
      break;
    }
  }
  fw_check_box(cfg, uint32_t(s.W + n_wakers + n_cancellers + s.pool.total + 2));
  s.pool.stop();
  vf::pin_cpus(0);
  VF_COUNT_N("obs:storm_waits", total);
  VF_COUNT_N("obs:storm_suspended_known", cb);
  VF_COUNT_N("obs:storm_nonmatching", nm);
  VF_COUNT_N("obs:storm_wake_one", s.wake_one_sum.load(RLX));
  VF_COUNT_N("obs:storm_wake_all", s.wake_all_sum.load(RLX));
  VF_COUNT_N("obs:storm_cancel_won", s.cancel_sum.load(RLX));
  vf::evaluated(vf::mix(vf::mix(uint64_t(F), uint64_t(s.W), uint64_t(s.K), uint64_t(s.tok_mode)), cb, s.wake_all_sum.load(RLX),
                        s.cancel_sum.load(RLX)),
                resumed_by > 0);
  vf::sample("{\"config\": " + vf::jstr(cfg) + ", \"accounting\": " + vf::jstr(acc) + "}", 4);
}

}  // namespace

int main(int argc, char** argv) {
  vf::init(argc, argv, "C13", "c13_coroutine");
  ::babylon::verif::point_hook = &c13_hook;
  auto& a = vf::args();
  std::string mode = a.mode.empty() ? "mix" : a.mode;
  auto& wd = vf::watchdog();
  wd.classify = []() -> std::string {
    const char* k = g_stuck_key.load(RLX);
    if (k != nullptr) return k;
    std::atomic<int64_t>* p = g_ext_pending;
    if (p != nullptr && p->load(RLX) == 0) return "stuck:coroutine-never-resumed";
    return "";
  };
  wd.start();
  auto want = [&](uint64_t idx) { return a.only_episode < 0 || uint64_t(a.only_episode) == idx; };
  uint64_t e = 0;
  if (mode == "mix" || mode == "mixinherit") {
    g_inherit_ok = mode == "mixinherit";
    uint64_t n = g_inherit_ok ? vf::budget(25, 300) : vf::budget(60, 800);
    for (uint64_t i = 0; i < n && !vf::failed(); ++i, ++e)
      if (want(e)) run_mix_episode(a.seed, e);
  } else if (mode == "futex") {
    if (a.get("probes", 1)) {
      probe_a();
      probe_d();
      probe_c();
      probe_b();
    }
    int known = vf::report().nviol.load();
    auto ok = [&] { return vf::report().nviol.load() == known; };
    vf::extra("defects_found_by_probes", vf::fmt("{\"a_nonmatching_leak\": %d, \"b_wake_all_next_after_finish\": %d, "
                                                 "\"c_on_suspend_after_publish\": %d, \"d_wake_one_stops\": %d}",
                                                 int(g_def.a), int(g_def.b), int(g_def.c), int(g_def.d)));
    if (g_def.a) vf::note("defect a present: storms draw no non-matching waits");
    if (g_def.b) vf::note("defect b present: storms never call wake_all while waiters can arrive");
    if (g_def.c) vf::note("defect c present: storm waits get a frame of their own kept alive until quiescence, and carry no on_suspend callback");
    uint64_t n_solo = vf::budget(40, 1000), n_hand = vf::budget(6, 100), n_storm = vf::budget(40, 800);
    // hand-off episodes re-wait right after a wake_all / rebuild the awaitable in place: they would only
    // re-report defects b / c
    if (g_def.b || g_def.c) n_hand = 0;
    for (uint64_t i = 0; i < n_solo && ok(); ++i, ++e)
      if (want(e)) run_solo_episode(a.seed, e);
    for (uint64_t i = 0; i < n_hand && ok(); ++i, ++e)
      if (want(e)) run_handoff_episode(a.seed, e);
    for (uint64_t i = 0; i < n_storm && ok(); ++i, ++e)
      if (want(e)) run_storm_episode(a.seed, e);
  } else {
    vf::inconclusive("unknown mode " + mode);
  }
  wd.shutdown();
  return vf::finish();
}
