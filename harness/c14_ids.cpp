// C14 — IdAllocator / ThreadId / DepositBox monitor (DESIGN §5 C14).
//
// Three kinds of episodes (mode ida | tid | dbox | all = interleaved):
//
//  ida   IdAllocator<uint16_t> / IdAllocator<uint32_t>, one fresh allocator per episode. 2–4 concurrent phases with
//        2–32 threads (mostly 2–6: tiny id range = ABA pressure) each holding <= 1..3 ids, allocate / deallocate
//        at random with PCT-style stalls at ida:alloc_before_cas / ida:dealloc_before_cas. Shadow state per id
//        value: an atomic `held` flag test-and-set right after allocate() returns and cleared right before
//        deallocate() is called (two owners => violation), plus a plain owner tag written by the owner and
//        verified before the release (TSan: the release/acquire chain through the free-list head must order
//        successive owners). After every concurrent phase (quiescence): for_each == set of held values, ranges
//        well formed, end() > every value ever returned. Then a solo phase in the main thread against a model
//        free set ([0,end) minus held): allocate() must return a member of the free set when it is non-empty and
//        must not return a held value; a fresh value otherwise. A sequential sub-mode allocates 100–700 ids and
//        frees random subsets so that for_each crosses the 128-value blocks of the link vector.
//
//  tid   ThreadId / LeakyThreadId with harness tag types (only harness threads count). Generations of threads
//        (up to 300 alive, parked on a futex-free mutex/condvar), births sequential (solo: the new id must come
//        from the model free set when that is non-empty) or concurrent bursts racing with deaths; live ids unique
//        (shadow flag set by the thread right after current_thread_id(), cleared right before its function
//        returns), repeated calls return the same id; at quiescence for_each == live set and end() > max id seen.
//
//  dbox  DepositBox<Dep> (one private instance per episode through -fno-access-control; the singleton of another
//        type is exercised in a few episodes too). 1–3 lanes of 1 depositor + 2–8 takers. The depositor emplaces
//        (serial) and hands the id to its takers through a release store (the hand-off is the client's job); the
//        takers race take() / take_released() on that id exactly once each and report back through relaxed counters
//        only (so the next emplace into the same slot is ordered after the winner's reads by the library's own
//        deallocate(release) -> allocate(acquire) chain, or TSan reports it). Offline per round: exactly one
//        non-null, and it read that round's serial (payload is plain memory with a checksum). Every taker keeps the
//        ids it already tried (=> taken by somebody) for the whole episode and retries them later (after 1 … 10^4
//        reuses of the slot): a non-null result is a violation. finish_released / ~Accessor exactly once by the
//        winner; Accessor move construction / assignment in between. Slot shadow: an id value handed out by emplace()
//        while its previous round was not yet finished is a violation.
#include "common/vf.h"

#include "babylon/concurrent/deposit_box.h"
#include "babylon/concurrent/id_allocator.h"

#include <condition_variable>

namespace {

using ::babylon::DepositBox;
using ::babylon::IdAllocator;
using ::babylon::VersionedValue;

// like vf::pin_cpus(k) but on a seeded window of CPUs (every harness of every check pinning to CPUs 0..k-1 makes
// oversubscribed episodes of concurrently running checks pile up on the same cores)
inline void pin_window(int k, uint64_t salt) {
  int ncpu = int(sysconf(_SC_NPROCESSORS_ONLN));
  if (k <= 0 || k >= ncpu) { vf::pin_cpus(0); return; }
  cpu_set_t set;
  CPU_ZERO(&set);
  int first = int(salt % uint64_t(ncpu));
  for (int i = 0; i < k; ++i) CPU_SET((first + i) % ncpu, &set);
  sched_setaffinity(0, sizeof set, &set);
}

inline void spin_wait_hint(uint32_t& spins) {
  if (++spins < 1500) {
    _mm_pause();
  } else if (spins < 1600) {
    ::sched_yield();
  } else {
    vf::raw_sleep_us(20);
  }
}

////////////////////////////////////////////////////////////////////////////////////////////////////////////////////
// ida
constexpr size_t kCells = 1u << 16;
struct IdCell {
  ::std::atomic<uint32_t> held {0};      // monitor state, relaxed RMWs only
  ::std::atomic<uint32_t> last_owner {0};  // monitor state: previous holder + 1 (hand-over statistics)
  uint64_t tag = 0;                      // plain payload written by the owner (TSan decides ordering of owners)
};
IdCell* g_cells = nullptr;  // kCells entries, shared by ida and tid episodes (reset per episode where used)

struct IdaCfg {
  uint64_t seed = 0, index = 0;
  int bits = 16, threads = 2, phases = 2, max_hold = 3;
  uint32_t ops = 2000;
  int pin = 0;
  ::std::string policy;
  ::std::string describe() const {
    return vf::fmt("ida ep=%lu seed=%lu T=u%d threads=%d phases=%d max_hold=%d ops/thread=%u pin=%d policy=[%s]", (unsigned long)index,
                   (unsigned long)seed, bits, threads, phases, max_hold, ops, pin, policy.c_str());
  }
};

template <typename T>
struct ForEachResult {
  ::std::vector<::std::pair<uint64_t, uint64_t>> ranges;
  ::std::string bad;  // non-empty: malformed
};
template <typename A>
ForEachResult<int> collect_for_each(const A& alloc) {
  ForEachResult<int> out;
  alloc.for_each([&](uint64_t b, uint64_t e) { out.ranges.emplace_back(b, e); });
  uint64_t prev_end = 0;
  bool first = true;
  for (auto& r : out.ranges) {
    if (!(r.first < r.second)) out.bad = vf::fmt("empty or inverted range [%lu,%lu)", (unsigned long)r.first, (unsigned long)r.second);
    else if (!first && r.first < prev_end) out.bad = vf::fmt("range [%lu,%lu) overlaps / precedes the previous one ending at %lu", (unsigned long)r.first,
                                                              (unsigned long)r.second, (unsigned long)prev_end);
    prev_end = r.second;
    first = false;
  }
  return out;
}
::std::string ranges_str(const ::std::vector<::std::pair<uint64_t, uint64_t>>& rs) {
  ::std::string o;
  for (size_t i = 0; i < rs.size() && i < 40; ++i) o += vf::fmt("[%lu,%lu)", (unsigned long)rs[i].first, (unsigned long)rs[i].second);
  if (rs.size() > 40) o += "...";
  return o;
}
::std::string set_str(const ::std::set<uint64_t>& s) {
  ::std::string o;
  size_t n = 0;
  for (auto v : s) {
    if (n++ >= 60) { o += "..."; break; }
    o += vf::fmt("%lu,", (unsigned long)v);
  }
  return o;
}
// for_each result == expected live set ?
bool check_for_each(const char* what, const ForEachResult<int>& fe, const ::std::set<uint64_t>& live, const ::std::string& ctx) {
  if (!fe.bad.empty()) {
    vf::violation(::std::string(what) + ":for_each-malformed-range", fe.bad, ctx + "\nranges: " + ranges_str(fe.ranges));
    return false;
  }
  ::std::set<uint64_t> got;
  for (auto& r : fe.ranges)
    for (uint64_t v = r.first; v < r.second && got.size() <= live.size() + 70000; ++v) got.insert(v);
  if (got != live) {
    ::std::string miss, extra;
    for (auto v : live) if (!got.count(v) && miss.size() < 200) miss += vf::fmt("%lu,", (unsigned long)v);
    for (auto v : got) if (!live.count(v) && extra.size() < 200) extra += vf::fmt("%lu,", (unsigned long)v);
    vf::violation(::std::string(what) + ":for_each-differs-from-live-set",
                  vf::fmt("for_each at quiescence reports %zu values, %zu are live; live but not reported: {%s} reported but not live: {%s}", got.size(),
                          live.size(), miss.c_str(), extra.c_str()),
                  ctx + "\nranges: " + ranges_str(fe.ranges) + "\nlive: " + set_str(live));
    return false;
  }
  return true;
}

template <typename T>
struct IdaWorld {
  IdaCfg cfg;
  IdAllocator<T> alloc;
  ::std::vector<::std::vector<VersionedValue<T>>> holding;  // per thread
  ::std::atomic<uint64_t> max_seen {0};
  ::std::atomic<uint64_t> handovers {0};
  ::std::atomic<uint64_t> allocs {0};
};

// shadow bookkeeping around one allocate()
template <typename T>
bool on_allocated(IdaWorld<T>& w, VersionedValue<T> id, int owner, uint64_t tag, const char* phase) {
  uint64_t v = id.value;
  if (v >= kCells) {
    vf::violation("ida:value-out-of-range", vf::fmt("allocate() returned value %lu (version %lu) although fewer than %zu ids were ever live", (unsigned long)v,
                                                     (unsigned long)id.version, kCells), w.cfg.describe());
    return false;
  }
  IdCell& c = g_cells[v];
  uint32_t before = c.held.exchange(uint32_t(owner) + 1, ::std::memory_order_relaxed);
  if (before != 0) {
    vf::violation("ida:two-owners", vf::fmt("allocate() returned value %lu (version %lu) to t%d in the %s phase while t%d still holds it", (unsigned long)v,
                                             (unsigned long)id.version, owner, phase, int(before) - 1), w.cfg.describe());
    return false;
  }
  uint32_t last = c.last_owner.exchange(uint32_t(owner) + 1, ::std::memory_order_relaxed);
  if (last != 0 && last != uint32_t(owner) + 1) w.handovers.fetch_add(1, ::std::memory_order_relaxed);
  c.tag = tag;  // plain
  uint64_t m = w.max_seen.load(::std::memory_order_relaxed);
  while (m < v + 1 && !w.max_seen.compare_exchange_weak(m, v + 1, ::std::memory_order_relaxed)) {}
  w.allocs.fetch_add(1, ::std::memory_order_relaxed);
  return true;
}
template <typename T>
bool before_deallocate(IdaWorld<T>& w, VersionedValue<T> id, int owner, uint64_t tag) {
  IdCell& c = g_cells[id.value];
  if (c.tag != tag) {  // plain read
    vf::violation("ida:owner-tag-overwritten", vf::fmt("value %lu held by t%d: its owner tag was overwritten (%lx instead of %lx): somebody else used the id",
                                                        (unsigned long)id.value, owner, (unsigned long)c.tag, (unsigned long)tag), w.cfg.describe());
    return false;
  }
  uint32_t before = c.held.exchange(0, ::std::memory_order_relaxed);
  if (before != uint32_t(owner) + 1) {
    vf::violation("ida:two-owners", vf::fmt("value %lu is released by t%d but the shadow says t%d holds it", (unsigned long)id.value, owner, int(before) - 1),
                  w.cfg.describe());
    return false;
  }
  return true;
}
inline uint64_t tag_of(int owner, uint64_t value, uint64_t version) { return vf::mix(uint64_t(owner) + 1, value, version) | 1; }

template <typename T>
void ida_thread(IdaWorld<T>& w, int t, uint64_t ep_seed, int phase) {
  vf::Rng r(vf::mix(ep_seed, uint64_t(t), uint64_t(phase), 0x1da));
  auto& mine = w.holding[size_t(t)];
  for (uint32_t i = 0; i < w.cfg.ops && !vf::failed(); ++i) {
    bool do_alloc = mine.empty() || (int(mine.size()) < w.cfg.max_hold && r.chance(1, 2));
    if (do_alloc) {
      vf::set_op("allocate");
      auto id = w.alloc.allocate();
      if (!on_allocated(w, id, t, tag_of(t, id.value, id.version), "concurrent")) return;
      mine.push_back(id);
    } else {
      size_t k = size_t(r.below(mine.size()));
      auto id = mine[k];
      mine[k] = mine.back();
      mine.pop_back();
      if (!before_deallocate(w, id, t, tag_of(t, id.value, id.version))) return;
      vf::set_op("deallocate", id.value);
      if (r.chance(1, 4)) w.alloc.deallocate(VersionedValue<T> {typename VersionedValue<T>::VersionAndValue(id.value)});  // documented: value alone is enough
      else w.alloc.deallocate(id);
    }
    vf::set_op(nullptr);
    vf::progress();
    if (r.chance(1, 64)) vf::perturb("c14:ida:between_ops");
  }
}

template <typename T>
bool ida_quiescent_check(IdaWorld<T>& w, const char* when) {
  ::std::set<uint64_t> live;
  for (auto& h : w.holding)
    for (auto& id : h) live.insert(id.value);
  ::std::string ctx = w.cfg.describe() + " at=" + when;
  uint64_t end = w.alloc.end();
  if (end < w.max_seen.load(::std::memory_order_relaxed)) {
    vf::violation("ida:end-below-allocated-value", vf::fmt("end()=%lu but value %lu was returned by allocate()", (unsigned long)end,
                                                            (unsigned long)w.max_seen.load() - 1), ctx);
    return false;
  }
  auto fe = collect_for_each(w.alloc);
  if (!check_for_each("ida", fe, live, ctx)) return false;
  if (fe.ranges.size() > 1) VF_COUNT("obs:ida_for_each_multi_range");
  if (live.size() > 128) VF_COUNT("obs:ida_for_each_crossed_block");
  VF_COUNT("obs:ida_quiescent_checks");
  return true;
}

// solo phase in the calling thread against the model free set
template <typename T>
bool ida_solo(IdaWorld<T>& w, vf::Rng& r, uint32_t ops, size_t max_pool, uint64_t alloc_bias_of_4 = 2, bool keep_all = false) {
  ::std::vector<VersionedValue<T>> pool;
  for (auto& h : w.holding) { for (auto& id : h) pool.push_back(id); h.clear(); }
  // the pool ids are owned by the main thread now: move the shadow over (everything is joined, no concurrency)
  const int me = 1000;
  for (auto& id : pool) {
    g_cells[id.value].held.store(uint32_t(me) + 1, ::std::memory_order_relaxed);
    g_cells[id.value].tag = tag_of(me, id.value, id.version);
  }
  ::std::set<uint64_t> held, free_set;
  for (auto& id : pool) held.insert(id.value);
  uint64_t end = w.alloc.end();
  for (uint64_t v = 0; v < end; ++v) if (!held.count(v)) free_set.insert(v);
  for (uint32_t i = 0; i < ops && !vf::failed(); ++i) {
    bool do_alloc = pool.empty() || (pool.size() < max_pool && r.chance(alloc_bias_of_4, 4));
    if (do_alloc) {
      uint64_t end_before = w.alloc.end();
      auto id = w.alloc.allocate();
      uint64_t v = id.value;
      ::std::string ctx = w.cfg.describe() + vf::fmt("\nsolo op %u: allocate() -> value %lu version %lu; end() before = %lu\nheld: {%s}\nfree (model): {%s}", i,
                                                      (unsigned long)v, (unsigned long)id.version, (unsigned long)end_before, set_str(held).c_str(),
                                                      set_str(free_set).c_str());
      if (held.count(v)) {
        vf::violation("ida:solo-allocated-held-value", vf::fmt("solo allocate() returned value %lu which is currently held", (unsigned long)v), ctx);
        return false;
      }
      if (!free_set.empty()) {
        if (!free_set.count(v)) {
          vf::violation("ida:solo-minted-new-while-free", vf::fmt("solo allocate() returned new value %lu although %zu freed values exist", (unsigned long)v,
                                                                   free_set.size()), ctx);
          return false;
        }
        free_set.erase(v);
        VF_COUNT("obs:ida_solo_reused");
      } else {
        if (v != end_before) {
          vf::violation("ida:solo-fresh-value-not-end", vf::fmt("solo allocate() with nothing freed returned %lu, expected the next fresh value %lu",
                                                                 (unsigned long)v, (unsigned long)end_before), ctx);
          return false;
        }
        VF_COUNT("obs:ida_solo_fresh");
      }
      if (w.alloc.end() <= v) {
        vf::violation("ida:end-below-allocated-value", vf::fmt("end()=%lu after allocate() returned %lu", (unsigned long)w.alloc.end(), (unsigned long)v), ctx);
        return false;
      }
      held.insert(v);
      if (!on_allocated(w, id, me, tag_of(me, id.value, id.version), "solo")) return false;
      pool.push_back(id);
    } else {
      size_t k = size_t(r.below(pool.size()));
      auto id = pool[k];
      pool[k] = pool.back();
      pool.pop_back();
      if (!before_deallocate(w, id, me, tag_of(me, id.value, id.version))) return false;
      w.alloc.deallocate(id);
      held.erase(id.value);
      free_set.insert(id.value);
    }
    vf::progress();
    if (r.chance(1, 24) || i + 1 == ops) {
      // quiescent by construction (single thread): for_each == model held set, also with hundreds of ids (block crossing)
      auto fe = collect_for_each(w.alloc);
      if (!check_for_each("ida", fe, held, w.cfg.describe() + vf::fmt(" at=solo op %u", i))) return false;
      if (fe.ranges.size() > 1) VF_COUNT("obs:ida_for_each_multi_range");
      if (!held.empty() && *held.rbegin() >= 128) VF_COUNT("obs:ida_for_each_crossed_block");
      VF_COUNT("obs:ida_quiescent_checks");
    }
  }
  // hand the pool back to the threads (<= max_hold each), release the rest
  size_t T_ = w.holding.size();
  for (size_t i = 0; i < pool.size(); ++i) {
    auto id = pool[i];
    size_t t = i % T_;
    if (keep_all || (int(w.holding[t].size()) < w.cfg.max_hold && i < T_ * size_t(w.cfg.max_hold))) {
      g_cells[id.value].held.store(uint32_t(t) + 1, ::std::memory_order_relaxed);
      g_cells[id.value].tag = tag_of(int(t), id.value, id.version);
      w.holding[t].push_back(id);
    } else {
      if (!before_deallocate(w, id, me, tag_of(me, id.value, id.version))) return false;
      w.alloc.deallocate(id);
    }
  }
  return true;
}

const ::std::vector<::std::string> kIdaPoints = {"ida:alloc_before_cas", "ida:alloc_before_cas", "ida:dealloc_before_cas", "c14:ida:between_ops"};

template <typename T>
void ida_episode_t(IdaCfg cfg, vf::Rng& r, uint64_t ep_seed) {
  auto* wp = new IdaWorld<T>;
  IdaWorld<T>& w = *wp;
  w.cfg = cfg;
  w.holding.resize(size_t(cfg.threads));
  uint64_t fp = vf::mix(0x1da, uint64_t(cfg.bits), uint64_t(cfg.threads), uint64_t(cfg.max_hold));
  uint64_t stalls_before = vf::counter_value("policy:stall_fired");
  bool ok = true;
  if (cfg.threads == 1) {
    // sequential sub-mode: many ids, for_each across blocks
    VF_COUNT("obs:ida_sequential_episodes");
    for (int ph = 0; ph < cfg.phases && ok && !vf::failed(); ++ph) {
      // ramp up to hundreds of live ids, then down again (for_each over several 128-value blocks with holes)
      ok = ida_solo(w, r, cfg.ops, size_t(r.range(100, 700)), ph % 2 == 0 ? 3 : 1, true) && ida_quiescent_check(w, "sequential");
    }
  } else {
    for (int ph = 0; ph < cfg.phases && ok && !vf::failed(); ++ph) {
      vf::watchdog().arm(true);
      vf::run_threads(cfg.threads, vf::mix(ep_seed, uint64_t(ph)), [&](int t) { ida_thread(w, t, ep_seed, ph); });
      vf::watchdog().arm(false);
      if (vf::failed()) break;
      ok = ida_quiescent_check(w, "after-concurrent-phase");
      if (ok) ok = ida_solo(w, r, uint32_t(r.range(10, 200)), size_t(cfg.threads * cfg.max_hold + int(r.range(0, 6))));
      if (ok) ok = ida_quiescent_check(w, "after-solo-phase");
    }
  }
  // release everything (shadow cleared) and reset the cells that were used
  uint64_t end = ::std::min<uint64_t>(w.alloc.end(), kCells);
  for (uint64_t v = 0; v < end; ++v) {
    g_cells[v].held.store(0, ::std::memory_order_relaxed);
    g_cells[v].last_owner.store(0, ::std::memory_order_relaxed);
    g_cells[v].tag = 0;
  }
  uint64_t handovers = w.handovers.load(::std::memory_order_relaxed);
  VF_COUNT_N("obs:ida_allocations", w.allocs.load(::std::memory_order_relaxed));
  VF_COUNT_N("obs:ida_handover_between_threads", handovers);
  fp = vf::mix(fp, end, w.allocs.load(::std::memory_order_relaxed) & 0xff, handovers & 0xf);
  bool stalled = vf::counter_value("policy:stall_fired") > stalls_before;
  if (stalled && cfg.threads > 1) VF_COUNT("obs:ida_episodes_with_stall_in_cas_window");
  vf::evaluated(fp, handovers > 0 || cfg.threads == 1);
  if (cfg.index < 3) {
    vf::sample("{\"kind\": \"ida\", \"config\": " + vf::jstr(cfg.describe()) + vf::fmt(", \"end\": %lu, \"allocations\": %lu, \"handovers\": %lu}",
                                                                                      (unsigned long)end, (unsigned long)w.allocs.load(), (unsigned long)handovers), 6);
  }
  delete wp;
}

void ida_episode(uint64_t seed, uint64_t index) {
  vf::Rng r(vf::mix(seed, index, 0x1da0));
  IdaCfg cfg;
  cfg.seed = seed;
  cfg.index = index;
  cfg.bits = r.chance(1, 2) ? 16 : 32;
  uint64_t x = r.below(16);
  cfg.threads = x == 0 ? 1 : (x < 9 ? int(r.range(2, 4)) : (x < 14 ? int(r.range(5, 12)) : int(r.range(13, 32))));
  cfg.max_hold = int(r.range(1, 3));
  cfg.phases = int(r.range(2, 4));
  uint32_t base = VF_TSAN ? 250 : (VF_ASAN ? 1000 : 2500);
  cfg.ops = cfg.threads == 1 ? uint32_t(r.range(300, 2500)) : uint32_t(r.range(base / 4, base)) * (cfg.threads > 12 ? 1 : 2) / 2;
  cfg.pin = int(r.pick<int>({0, 0, 0, 1, 2, 3}));
  cfg.policy = vf::draw_policy(r, kIdaPoints, 60, 3000);
  vf::watchdog().set_context(cfg.describe());
  pin_window(cfg.pin, vf::mix(seed, index));
  uint64_t ep_seed = vf::mix(seed, index, 0xe14);
  if (cfg.bits == 16) ida_episode_t<uint16_t>(cfg, r, ep_seed);
  else ida_episode_t<uint32_t>(cfg, r, ep_seed);
  vf::pin_cpus(0);
  vf::disable_policy();
}

////////////////////////////////////////////////////////////////////////////////////////////////////////////////////
// tid
struct TagA {};
struct TagB {};

struct TidThread {
  ::std::thread th;
  ::std::mutex mu;
  ::std::condition_variable cv;
  bool die = false;                    // under mu
  ::std::atomic<int> registered {0};   // 1 once the id is known (release), 2 on oracle failure
  uint16_t value = 0, version = 0;
  int logical = 0;
};

// persistent model of one (ThreadId flavour, tag) allocator: it is a process-wide singleton
struct TidModel {
  ::std::set<uint64_t> live;
  uint64_t max_seen_plus1 = 0;
  uint64_t created = 0;
  ::std::atomic<uint32_t>* held = nullptr;  // 65536 flags
};

template <typename TID, typename Tag>
struct TidApi {
  static VersionedValue<uint16_t> current() { return TID::template current_thread_id<Tag>(); }
  static uint16_t end() { return TID::template end<Tag>(); }
  static ForEachResult<int> for_each() {
    ForEachResult<int> out;
    TID::template for_each<Tag>([&](uint16_t b, uint16_t e) { out.ranges.emplace_back(b, e); });
    uint64_t prev_end = 0;
    bool first = true;
    for (auto& r : out.ranges) {
      if (!(r.first < r.second)) out.bad = vf::fmt("empty or inverted range [%lu,%lu)", (unsigned long)r.first, (unsigned long)r.second);
      else if (!first && r.first < prev_end) out.bad = vf::fmt("range [%lu,%lu) overlaps the previous one ending at %lu", (unsigned long)r.first,
                                                                (unsigned long)r.second, (unsigned long)prev_end);
      prev_end = r.second;
      first = false;
    }
    return out;
  }
};

struct TidCfg {
  uint64_t seed = 0, index = 0;
  const char* flavour = "";
  int max_alive = 8, generations = 3;
  int pin = 0;
  ::std::string policy;
  ::std::string describe() const {
    return vf::fmt("tid ep=%lu seed=%lu flavour=%s max_alive=%d generations=%d pin=%d policy=[%s]", (unsigned long)index, (unsigned long)seed, flavour,
                   max_alive, generations, pin, policy.c_str());
  }
};

template <typename Api>
void tid_body(TidThread* me, TidModel* model, const TidCfg* cfg, uint64_t ep_seed) {
  vf::thread_begin(ep_seed, me->logical);
  vf::set_op("current_thread_id");
  auto id = Api::current();
  me->value = id.value;
  me->version = id.version;
  uint32_t before = model->held[id.value].exchange(uint32_t(me->logical) + 1, ::std::memory_order_relaxed);
  int state = 1;
  if (before != 0) {
    vf::violation("tid:two-live-threads-share-id", vf::fmt("thread #%d obtained thread id %u (version %u) while live thread #%d has it", me->logical,
                                                            unsigned(id.value), unsigned(id.version), int(before) - 1), cfg->describe());
    state = 2;
  }
  auto again = Api::current();
  if (again.value != id.value || again.version != id.version) {
    vf::violation("tid:id-not-stable", vf::fmt("second call of current_thread_id() returned %u@%u, the first %u@%u", unsigned(again.value),
                                                unsigned(again.version), unsigned(id.value), unsigned(id.version)), cfg->describe());
    state = 2;
  }
  vf::set_op("parked");
  me->registered.store(state, ::std::memory_order_release);
  vf::progress();
  {
    ::std::unique_lock<::std::mutex> lk(me->mu);
    me->cv.wait(lk, [&] { return me->die; });
  }
  vf::perturb("c14:tid:before_exit");
  auto last = Api::current();
  if (last.value != id.value || last.version != id.version) {
    vf::violation("tid:id-not-stable", vf::fmt("current_thread_id() before exit returned %u@%u, at start %u@%u", unsigned(last.value), unsigned(last.version),
                                                unsigned(id.value), unsigned(id.version)), cfg->describe());
  }
  if (state == 1) model->held[id.value].store(0, ::std::memory_order_relaxed);  // cleared before the thread-local destructor releases the id
  vf::progress();
  vf::thread_end();
}

template <typename Api>
bool tid_quiescent(TidModel& model, const TidCfg& cfg, const char* when) {
  ::std::string ctx = cfg.describe() + " at=" + when;
  uint64_t end = Api::end();
  if (end < model.max_seen_plus1) {
    vf::violation("tid:end-below-seen-id", vf::fmt("end()=%lu but thread id %lu was handed out", (unsigned long)end, (unsigned long)model.max_seen_plus1 - 1),
                  ctx);
    return false;
  }
  auto fe = Api::for_each();
  if (!check_for_each("tid", fe, model.live, ctx)) return false;
  if (model.live.size() > 128) VF_COUNT("obs:tid_for_each_crossed_block");
  VF_COUNT("obs:tid_quiescent_checks");
  return true;
}

const ::std::vector<::std::string> kTidPoints = {"ida:alloc_before_cas", "ida:dealloc_before_cas", "c14:tid:before_exit"};

template <typename Api>
void tid_episode_t(TidCfg cfg, TidModel& model, vf::Rng& r, uint64_t ep_seed) {
  ::std::vector<TidThread*> alive;
  int next_logical = 0;
  uint64_t fp = vf::mix(0x71d, ::std::hash<::std::string> {}(cfg.flavour), uint64_t(cfg.max_alive));
  uint64_t reused = 0, births = 0, concurrent_births = 0;
  bool ok = true;
  auto wait_registered = [&](TidThread* t) -> bool {
    uint32_t spins = 0;
    int st;
    while ((st = t->registered.load(::std::memory_order_acquire)) == 0) spin_wait_hint(spins);
    return st == 1;
  };
  auto account_birth = [&](TidThread* t) {
    uint64_t v = t->value;
    model.live.insert(v);
    if (v + 1 > model.max_seen_plus1) model.max_seen_plus1 = v + 1;
    ++model.created;
    ++births;
  };
  auto spawn = [&]() -> TidThread* {
    auto* t = new TidThread;
    t->logical = next_logical++;
    t->th = ::std::thread(tid_body<Api>, t, &model, &cfg, ep_seed);
    return t;
  };
  auto kill_async = [&](TidThread* t) {
    { ::std::lock_guard<::std::mutex> g(t->mu); t->die = true; }
    t->cv.notify_one();
  };
  vf::watchdog().arm(true);
  for (int g = 0; g < cfg.generations && ok && !vf::failed(); ++g) {
    // ---- births
    int room = cfg.max_alive - int(alive.size());
    // episodes drawn for > 128 alive threads fill up in the first generation (for_each over more than one block)
    int n = room > 0 ? ((cfg.max_alive > 128 && g == 0) ? room : int(r.range(1, uint64_t(room)))) : 0;
    bool sequential = r.chance(1, 2);
    // ---- deaths racing with the births of this generation (only in concurrent generations)
    ::std::vector<TidThread*> dying;
    if (!alive.empty() && g > 0) {
      size_t m = size_t(r.range(0, alive.size()));
      for (size_t i = 0; i < m; ++i) {
        size_t k = size_t(r.below(alive.size()));
        dying.push_back(alive[k]);
        alive[k] = alive.back();
        alive.pop_back();
      }
    }
    auto reap = [&]() {
      for (auto* t : dying) kill_async(t);
      for (auto* t : dying) {
        t->th.join();
        model.live.erase(t->value);
        delete t;
      }
      dying.clear();
    };
    if (sequential) {
      reap();  // deaths complete first: the model free set is exact for every solo birth
      ::std::set<uint64_t> free_set;
      uint64_t end = Api::end();
      for (uint64_t v = 0; v < end; ++v) if (!model.live.count(v)) free_set.insert(v);
      for (int i = 0; i < n && ok; ++i) {
        uint64_t end_before = Api::end();
        TidThread* t = spawn();
        ok = wait_registered(t);
        alive.push_back(t);
        account_birth(t);
        if (!ok) break;
        uint64_t v = t->value;
        ::std::string ctx = cfg.describe() + vf::fmt("\nsolo birth: id %lu@%u; end() before=%lu; free (model) {%s}", (unsigned long)v, unsigned(t->version),
                                                      (unsigned long)end_before, set_str(free_set).c_str());
        if (!free_set.empty()) {
          if (!free_set.count(v)) {
            vf::violation("tid:solo-minted-new-while-free", vf::fmt("a thread born while %zu ids of dead threads were free got the new id %lu", free_set.size(),
                                                                     (unsigned long)v), ctx);
            ok = false;
            break;
          }
          free_set.erase(v);
          ++reused;
        } else if (v != end_before) {
          vf::violation("tid:solo-fresh-value-not-end", vf::fmt("a thread born with no free id got %lu, expected the next fresh value %lu", (unsigned long)v,
                                                                 (unsigned long)end_before), ctx);
          ok = false;
          break;
        }
      }
    } else {
      ::std::vector<TidThread*> born;
      size_t kill_at = dying.empty() ? 0 : size_t(r.below(uint64_t(n) + 1));
      for (int i = 0; i < n; ++i) {
        if (size_t(i) == kill_at) for (auto* t : dying) kill_async(t);
        born.push_back(spawn());
      }
      if (kill_at >= size_t(n)) for (auto* t : dying) kill_async(t);
      for (auto* t : born) {
        if (!wait_registered(t)) ok = false;
        alive.push_back(t);
        ++concurrent_births;
      }
      reap();  // first take the dead out of the model, then add the newborn: a newborn may have inherited a dying thread's id
      for (auto* t : born) account_birth(t);
    }
    if (!ok || vf::failed()) break;
    // ---- quiescence: every live thread is parked, every dead one joined
    ok = tid_quiescent<Api>(model, cfg, sequential ? "after-sequential-generation" : "after-concurrent-generation");
    fp = vf::mix(fp, uint64_t(alive.size()), Api::end(), uint64_t(sequential));
    if (alive.size() >= 250) VF_COUNT("obs:tid_250_or_more_alive");
  }
  // everybody dies; the allocator is a singleton, so the model goes on with an empty live set
  for (auto* t : alive) kill_async(t);
  for (auto* t : alive) {
    t->th.join();
    model.live.erase(t->value);
    delete t;
  }
  alive.clear();
  vf::watchdog().arm(false);
  if (ok && !vf::failed()) tid_quiescent<Api>(model, cfg, "all-dead");
  VF_COUNT_N("obs:tid_threads", births);
  VF_COUNT_N("obs:tid_solo_births_reusing_a_dead_threads_id", reused);
  VF_COUNT_N("obs:tid_concurrent_births", concurrent_births);
  vf::evaluated(fp, reused > 0 || concurrent_births > 0);
  if (cfg.index < 6) {
    vf::sample("{\"kind\": \"tid\", \"config\": " + vf::jstr(cfg.describe()) + vf::fmt(", \"threads\": %lu, \"end\": %u, \"solo_reuses\": %lu}",
                                                                                      (unsigned long)births, unsigned(Api::end()), (unsigned long)reused), 6);
  }
}

TidModel g_tid_models[4];

void tid_episode(uint64_t seed, uint64_t index) {
  vf::Rng r(vf::mix(seed, index, 0x71d0));
  TidCfg cfg;
  cfg.seed = seed;
  cfg.index = index;
  int which = int(r.below(4));
  static const char* names[] = {"ThreadId<TagA>", "ThreadId<TagB>", "LeakyThreadId<TagA>", "LeakyThreadId<TagB>"};
  cfg.flavour = names[which];
  uint64_t x = r.below(16);
  int big = (VF_TSAN || VF_ASAN) ? 150 : 300;
  cfg.max_alive = x < 8 ? int(r.range(2, 12)) : (x < 13 ? int(r.range(13, 60)) : (x < 15 ? int(r.range(129, 140)) : big));
  cfg.generations = cfg.max_alive > 128 ? int(r.range(2, 3)) : int(r.range(3, 8));
  cfg.pin = int(r.pick<int>({0, 0, 0, 2, 3}));
  cfg.policy = vf::draw_policy(r, kTidPoints, 30, 3000);
  vf::watchdog().set_context(cfg.describe());
  pin_window(cfg.pin, vf::mix(seed, index));
  TidModel& model = g_tid_models[which];
  if (!model.held) model.held = new ::std::atomic<uint32_t>[65536]();
  uint64_t ep_seed = vf::mix(seed, index, 0xe15);
  switch (which) {
    case 0: tid_episode_t<TidApi<::babylon::ThreadId, TagA>>(cfg, model, r, ep_seed); break;
    case 1: tid_episode_t<TidApi<::babylon::ThreadId, TagB>>(cfg, model, r, ep_seed); break;
    case 2: tid_episode_t<TidApi<::babylon::LeakyThreadId, TagA>>(cfg, model, r, ep_seed); break;
    default: tid_episode_t<TidApi<::babylon::LeakyThreadId, TagB>>(cfg, model, r, ep_seed); break;
  }
  vf::pin_cpus(0);
  vf::disable_policy();
}

////////////////////////////////////////////////////////////////////////////////////////////////////////////////////
// dbox
::std::atomic<int64_t> g_dep_live {0};  // constructed - destroyed (monitor state)
struct Dep {
  uint64_t serial, inv, a;
  uint64_t extra = 0;
  explicit Dep(uint64_t s) : serial(s), inv(~s), a(s * 7) { g_dep_live.fetch_add(1, ::std::memory_order_relaxed); }
  Dep(const Dep&) = delete;
  ~Dep() { g_dep_live.fetch_sub(1, ::std::memory_order_relaxed); }
};
using Box = DepositBox<Dep>;
using BoxId = VersionedValue<uint32_t>;

struct DboxCfg {
  uint64_t seed = 0, index = 0;
  int lanes = 1, takers = 2, window = 1;
  uint32_t rounds = 1000;
  bool singleton = false;
  int pin = 0;
  ::std::string policy;
  ::std::string describe() const {
    return vf::fmt("dbox ep=%lu seed=%lu lanes=%d takers/lane=%d window=%d rounds/lane=%u singleton=%d pin=%d policy=[%s]", (unsigned long)index,
                   (unsigned long)seed, lanes, takers, window, rounds, int(singleton), pin, policy.c_str());
  }
};

struct Ticket {
  ::std::atomic<uint64_t> seq {0};     // round + 1, release store by the depositor
  ::std::atomic<uint64_t> idw {0};     // id.version_and_value
  ::std::atomic<uint64_t> serial {0};
  ::std::atomic<uint64_t> done {0};    // cumulative number of takers that finished with this cell (relaxed)
};
struct TakeRec {
  uint32_t round;
  uint8_t won, via_take, serial_ok;
};
struct Lane {
  ::std::vector<Ticket> cells;
  ::std::vector<uint64_t> round_idw;               // depositor log: id per round
  ::std::vector<::std::vector<TakeRec>> recs;      // per taker
};
struct DboxWorld {
  DboxCfg cfg;
  Box* box = nullptr;
  ::std::vector<Lane> lanes;
  ::std::atomic<uint32_t>* slot_live = nullptr;    // per slot value: lane*2^24 + round + 1 while emplaced and not finished
  size_t slot_cap = 0;
  ::std::atomic<uint64_t> stale_tries {0}, stale_gap_max {0};
};
DboxWorld* g_dbox = nullptr;

inline uint64_t dbox_serial(int lane, uint32_t round, uint64_t ep) { return vf::mix(ep, uint64_t(lane), round) | 1; }

void dbox_depositor(DboxWorld& w, int lane_i, uint64_t ep_seed) {
  Lane& lane = w.lanes[size_t(lane_i)];
  vf::Rng r(vf::mix(ep_seed, uint64_t(lane_i), 0xde9));
  const uint64_t K = uint64_t(w.cfg.takers), W = uint64_t(w.cfg.window);
  for (uint32_t round = 0; round < w.cfg.rounds && !vf::failed(); ++round) {
    Ticket& cell = lane.cells[round % W];
    uint64_t need = K * (round / W);
    uint32_t spins = 0;
    vf::set_op("wait-cell", round);
    while (cell.done.load(::std::memory_order_relaxed) < need && !vf::failed()) spin_wait_hint(spins);
    if (vf::failed()) break;
    uint64_t serial = dbox_serial(lane_i, round, ep_seed);
    vf::set_op("emplace", round);
    BoxId id = w.box->emplace(serial);
    if (id.value >= w.slot_cap) {
      vf::violation("dbox:slot-value-out-of-range", vf::fmt("emplace() returned slot %u although at most %d items are outstanding", id.value,
                                                             w.cfg.lanes * w.cfg.window), w.cfg.describe());
      break;
    }
    uint32_t mark = (uint32_t(lane_i) << 24) + round + 1;
    uint32_t before = w.slot_live[id.value].exchange(mark, ::std::memory_order_relaxed);
    if (before != 0) {
      vf::violation("dbox:slot-issued-twice", vf::fmt("emplace() of lane %d round %u returned slot %u (version %u) while the item of lane %u round %u in that slot "
                                                       "was not finished yet", lane_i, round, id.value, id.version, before >> 24, (before & 0xffffff) - 1),
                    w.cfg.describe());
      break;
    }
    if (r.chance(1, 8)) w.box->unsafe_get(id).extra = serial ^ 0x55;  // documented: before the id is shared
    lane.round_idw[round] = id.version_and_value;
    cell.idw.store(id.version_and_value, ::std::memory_order_relaxed);
    cell.serial.store(serial, ::std::memory_order_relaxed);
    cell.seq.store(uint64_t(round) + 1, ::std::memory_order_release);
    vf::set_op(nullptr);
    vf::progress();
  }
}

// one attempt on a live or stale id; returns 1 won / 0 lost; checks the payload of a winner
struct Attempt {
  bool won = false, serial_ok = true, via_take = false;
  uint64_t seen_serial = 0;
};
Attempt dbox_attempt(DboxWorld& w, BoxId id, uint64_t expect_serial, vf::Rng& r, bool is_stale) {
  Attempt a;
  auto read_item = [&](Dep* d) {
    uint64_t s = d->serial, inv = d->inv, aa = d->a;
    a.seen_serial = s;
    a.serial_ok = (s == expect_serial) && inv == ~s && aa == s * 7;
    if (r.chance(1, 16)) vf::perturb("cb:c14_winner_holds_item");
    // still intact after holding it for a while (nobody re-emplaced into the slot)
    if (d->serial != s || d->inv != inv) a.serial_ok = false;
  };
  auto winner_clears_shadow = [&] {
    if (!is_stale) w.slot_live[id.value].store(0, ::std::memory_order_relaxed);  // before the slot is released
  };
  a.via_take = r.chance(1, 2);
  if (a.via_take) {
    Box::Accessor acc = w.box->take(id);
    if (acc) {
      a.won = true;
      read_item(&*acc);
      if (r.chance(1, 3)) {
        Box::Accessor moved {::std::move(acc)};
        if (acc || !moved) a.serial_ok = false;
        if (r.chance(1, 2)) {
          Box::Accessor assigned;
          assigned = ::std::move(moved);
          if (!assigned || assigned->serial != a.seen_serial) a.serial_ok = false;
          winner_clears_shadow();
        } else {
          winner_clears_shadow();
        }
      } else {
        winner_clears_shadow();
      }
    }
  } else {
    Dep* d = w.box->take_released(id);
    if (d) {
      a.won = true;
      read_item(d);
      winner_clears_shadow();
      w.box->finish_released(id);
    }
  }
  return a;
}

void dbox_taker(DboxWorld& w, int lane_i, int k, uint64_t ep_seed) {
  Lane& lane = w.lanes[size_t(lane_i)];
  vf::Rng r(vf::mix(ep_seed, uint64_t(lane_i), uint64_t(k), 0x7a6e));
  const uint64_t W = uint64_t(w.cfg.window);
  auto& recs = lane.recs[size_t(k)];
  ::std::vector<::std::pair<uint64_t, uint32_t>> stale;  // (idw, round) of ids this taker already tried
  stale.reserve(w.cfg.rounds);
  for (uint32_t round = 0; round < w.cfg.rounds && !vf::failed(); ++round) {
    Ticket& cell = lane.cells[round % W];
    uint32_t spins = 0;
    vf::set_op("wait-ticket", round);
    while (cell.seq.load(::std::memory_order_acquire) < uint64_t(round) + 1 && !vf::failed()) spin_wait_hint(spins);
    if (vf::failed()) break;
    BoxId id {cell.idw.load(::std::memory_order_relaxed)};
    uint64_t serial = cell.serial.load(::std::memory_order_relaxed);
    vf::set_op("take", round);
    Attempt a = dbox_attempt(w, id, serial, r, false);
    recs.push_back({round, uint8_t(a.won), uint8_t(a.via_take), uint8_t(a.serial_ok)});
    if (a.won && !a.serial_ok) {
      vf::violation("dbox:winner-read-wrong-item", vf::fmt("lane %d taker %d won round %u (slot %u version %u) but the item carries serial %lx, expected %lx",
                                                            lane_i, k, round, id.value, id.version, (unsigned long)a.seen_serial, (unsigned long)serial),
                    w.cfg.describe());
      break;
    }
    // this taker is done with the id: whoever won, the item is taken => the id is stale from now on
    stale.emplace_back(id.version_and_value, round);
    cell.done.fetch_add(1, ::std::memory_order_relaxed);
    vf::progress();
    // stale retries: old (gap up to the whole episode) and recent ones
    int tries = int(r.below(3));
    for (int i = 0; i < tries && !vf::failed(); ++i) {
      size_t pick = r.chance(1, 2) ? size_t(r.below(stale.size())) : stale.size() - 1 - size_t(r.below(::std::min<size_t>(stale.size(), 4)));
      BoxId sid {stale[pick].first};
      vf::set_op("take-stale", stale[pick].second);
      Attempt sa = dbox_attempt(w, sid, 0, r, true);
      w.stale_tries.fetch_add(1, ::std::memory_order_relaxed);
      uint64_t gap = round - stale[pick].second;
      uint64_t m = w.stale_gap_max.load(::std::memory_order_relaxed);
      while (m < gap && !w.stale_gap_max.compare_exchange_weak(m, gap, ::std::memory_order_relaxed)) {}
      if (gap >= 1000) VF_COUNT("obs:dbox_stale_retry_after_1000_rounds");
      if (sa.won) {
        vf::violation("dbox:stale-id-matched", vf::fmt("lane %d taker %d: take%s of the already taken id slot %u version %u (round %u) succeeded %lu rounds later and "
                                                        "handed out an item with serial %lx", lane_i, k, sa.via_take ? "" : "_released", sid.value, sid.version,
                                                        stale[pick].second, (unsigned long)gap, (unsigned long)sa.seen_serial), w.cfg.describe());
        break;
      }
    }
    vf::set_op(nullptr);
  }
}

const ::std::vector<::std::string> kDboxPoints = {"dbox:version_stored", "dbox:take_won", "ida:alloc_before_cas", "ida:dealloc_before_cas",
                                                  "cb:c14_winner_holds_item"};

void dbox_episode(uint64_t seed, uint64_t index) {
  vf::Rng r(vf::mix(seed, index, 0xdb0));
  DboxCfg cfg;
  cfg.seed = seed;
  cfg.index = index;
  cfg.lanes = int(r.pick<int>({1, 1, 2, 3}));
  int max_takers = ::std::min(8, 16 / cfg.lanes - 1);
  cfg.takers = ::std::min(max_takers, int(r.pick<int>({2, 2, 3, 3, 4, 6, 8})));
  cfg.window = int(r.pick<int>({1, 1, 2, 4}));
  uint32_t base = VF_TSAN ? 300 : (VF_ASAN ? 1000 : 2000);
  // a few long episodes: > 10^4 rounds through 1-4 slots, so the oldest stale ids are retried after ~10^4 reuses
  cfg.rounds = r.chance(1, 16) ? ((VF_TSAN || VF_ASAN) ? base * 4 : 10500) : uint32_t(r.range(base / 8, base));
  cfg.singleton = r.chance(1, 6);
  cfg.pin = int(r.pick<int>({0, 0, 0, 0, 2, 3}));
  cfg.policy = vf::draw_policy(r, kDboxPoints, 200, 2000);
  vf::watchdog().set_context(cfg.describe());
  pin_window(cfg.pin, vf::mix(seed, index));
  DboxWorld w;
  w.cfg = cfg;
  w.box = cfg.singleton ? &Box::instance() : new Box;
  // the singleton keeps its slots across episodes: at most 3 lanes * 4 window outstanding at any time anyway
  w.slot_cap = 4096;
  w.slot_live = new ::std::atomic<uint32_t>[w.slot_cap]();
  w.lanes.resize(size_t(cfg.lanes));
  for (auto& lane : w.lanes) {
    lane.cells = ::std::vector<Ticket>(size_t(cfg.window));
    lane.round_idw.assign(cfg.rounds, 0);
    lane.recs.resize(size_t(cfg.takers));
    for (auto& rc : lane.recs) rc.reserve(cfg.rounds);
  }
  g_dbox = &w;
  uint64_t ep_seed = vf::mix(seed, index, 0xe16);
  int per_lane = 1 + cfg.takers;
  vf::watchdog().arm(true);
  vf::run_threads(cfg.lanes * per_lane, ep_seed, [&](int t) {
    int lane_i = t / per_lane, k = t % per_lane;
    if (k == 0) dbox_depositor(w, lane_i, ep_seed);
    else dbox_taker(w, lane_i, k - 1, ep_seed);
  });
  vf::watchdog().arm(false);
  uint64_t fp = vf::mix(0xdb0, uint64_t(cfg.lanes), uint64_t(cfg.takers), uint64_t(cfg.window));
  uint64_t contested = 0, max_reuse = 0, rounds_checked = 0;
  if (!vf::failed()) {
    // offline: exactly one winner per round
    for (int li = 0; li < cfg.lanes && !vf::failed(); ++li) {
      Lane& lane = w.lanes[size_t(li)];
      ::std::vector<uint8_t> winners(cfg.rounds, 0), attempts(cfg.rounds, 0);
      ::std::vector<int> last_winner(cfg.rounds, -1);
      for (int k = 0; k < cfg.takers; ++k) {
        for (auto& rec : lane.recs[size_t(k)]) {
          ++attempts[rec.round];
          if (rec.won) {
            if (winners[rec.round]++ && !vf::failed()) {
              BoxId id {lane.round_idw[rec.round]};
              vf::violation("dbox:two-takers-won", vf::fmt("lane %d round %u (slot %u version %u): takers %d and %d both obtained the item", li, rec.round,
                                                            id.value, id.version, last_winner[rec.round], k), cfg.describe());
            }
            last_winner[rec.round] = k;
          }
        }
      }
      int prev = -1;
      for (uint32_t round = 0; round < cfg.rounds && !vf::failed(); ++round) {
        if (attempts[round] != cfg.takers) {
          vf::violation("harness-dbox-attempts", vf::fmt("harness bug: round %u has %d attempts, expected %d", round, int(attempts[round]), cfg.takers),
                        cfg.describe());
          break;
        }
        if (winners[round] == 0) {
          BoxId id {lane.round_idw[round]};
          vf::violation("dbox:nobody-won", vf::fmt("lane %d round %u (slot %u version %u): all %d takers were refused although nobody had taken the item", li, round,
                                                    id.value, id.version, cfg.takers), cfg.describe());
          break;
        }
        ++rounds_checked;
        if (last_winner[round] != prev) { ++contested; if (round < 64) fp = vf::mix(fp, round, uint64_t(last_winner[round])); }
        prev = last_winner[round];
      }
      // reuse statistics: how often the most used slot was recycled in this lane
      ::std::map<uint32_t, uint64_t> uses;
      for (uint32_t round = 0; round < cfg.rounds; ++round) ++uses[BoxId {lane.round_idw[round]}.value];
      for (auto& kv : uses) max_reuse = ::std::max(max_reuse, kv.second);
    }
  }
  if (!vf::failed()) {
    // every slot is back: nothing is marked live, and the allocator agrees
    auto fe = collect_for_each(w.box->_slot_id_allocator);
    if (!check_for_each("dbox", fe, {}, cfg.describe() + " at=end-of-episode (every item taken and finished)")) {}
    for (size_t v = 0; v < w.slot_cap; ++v) {
      if (w.slot_live[v].load(::std::memory_order_relaxed)) { vf::violation("harness-dbox-shadow", "harness bug: slot shadow not cleared at the end", cfg.describe()); break; }
    }
  }
  VF_COUNT_N("obs:dbox_rounds", rounds_checked);
  VF_COUNT_N("obs:dbox_stale_retries", w.stale_tries.load(::std::memory_order_relaxed));
  VF_COUNT_N("obs:dbox_winner_changed_between_rounds", contested);
  if (max_reuse >= 10000) VF_COUNT("obs:dbox_slot_reused_10000_times");
  if (max_reuse >= 1000) VF_COUNT("obs:dbox_slot_reused_1000_times");
  vf::evaluated(fp, contested > 2);
  if (index < 9) {
    vf::sample("{\"kind\": \"dbox\", \"config\": " + vf::jstr(cfg.describe()) +
               vf::fmt(", \"rounds\": %lu, \"stale_retries\": %lu, \"max_stale_gap_rounds\": %lu, \"max_slot_reuse\": %lu, \"slots\": %u}", (unsigned long)rounds_checked,
                       (unsigned long)w.stale_tries.load(), (unsigned long)w.stale_gap_max.load(), (unsigned long)max_reuse,
                       unsigned(w.box->_slot_id_allocator.end())), 6);
  }
  g_dbox = nullptr;
  if (!cfg.singleton) {
    delete w.box;
    if (!vf::failed() && g_dep_live.load(::std::memory_order_relaxed) < 0) vf::violation("dbox:item-destroyed-twice", "more Dep destructors than constructors", cfg.describe());
  }
  delete[] w.slot_live;
  vf::pin_cpus(0);
  vf::disable_policy();
}

}  // namespace

int main(int argc, char** argv) {
  vf::init(argc, argv, "C14", "c14_ids");
  auto& a = vf::args();
  ::std::string mode = a.mode.empty() ? "all" : a.mode;
  g_cells = new IdCell[kCells];
  auto& wd = vf::watchdog();
  // nothing in these components blocks: a hang is a spin on a corrupted free list (cycle) or a harness wait that can
  // no longer be satisfied because an operation it waits for spins => violation of the lock-free structure
  wd.classify = []() -> ::std::string { return "stuck:no-progress-in-lock-free-operation"; };
  wd.start();
  uint64_t n = vf::budget(160, 6000);
  for (uint64_t e = 0; e < n && !vf::failed(); ++e) {
    if (a.only_episode >= 0 && uint64_t(a.only_episode) != e) continue;
    ::std::string kind = mode;
    if (mode == "all") kind = (e % 8 < 4) ? "ida" : (e % 8 < 6 ? "dbox" : "tid");
    if (kind == "ida") ida_episode(a.seed, e);
    else if (kind == "tid") tid_episode(a.seed, e);
    else dbox_episode(a.seed, e);
  }
  wd.shutdown();
  return vf::finish();
}
