// C15 — ConcurrentTransientTopic monitor (DESIGN §5 C15).
//
// One episode = one topic object driven through 3–6 cycles of
//   publish… (1–6 publishers: publish / publish<false> / publish_n(1..300) / publish_n<false>)
//   → close() by the publisher that finished last, right after its last publish returned
//   → 1–6 independent consumers (Consumer / ConstConsumer, consume() / consume(n<=700), some
//     subscribed late or after close) drain until the end marker
//   → clear()
// with the harness scheduling interface HSched (delays before futex wait/wake) and the
// perturbation policy stalling at the topic:* hook points.
//
// Oracle (per cycle, offline over the per-thread records): every consumer's sequence is the
// same, holds every published id exactly once, keeps each publisher's program order and keeps
// the elements of one publish_n contiguous; ranges start where the previous one ended (first at
// index 0); every element read carries the checksum written by its publisher and the tag of
// the current cycle; no consume returned an element before the publish that produced it was
// called; a short range / the end marker only after close() was called and everything was
// delivered; the end marker is repeated on the next call; after clear() the index is 0 and every
// slot word is INITIAL. Consumers that never terminate are decided by the stuck rule (a sleeper
// whose slot word changed is a lost wake-up: in this protocol every change of a slot word while
// somebody sleeps on it owes a wake).
//
// Modes: all (default) | small (few elements, many cycles: close/wake races) | big (large batches).
//
// NOTE (finding C15-undefined-members): ConcurrentTransientTopic::reserve(size_t), ConsumeRange::operator bool()
// and Consumer::operator bool() are declared `inline` in transient_topic.h but defined nowhere: a client that
// follows docs/concurrent/transient_topic.*.md (`topic.reserve(N)`) does not link. The harness therefore reserves
// through the private slot vector and does not use the bool conversions unless the fix
// (/verif/fixes_proposed/C15-undefined-members.diff) is in: build with -DVF_C15_UNDEFINED_MEMBERS_FIXED=1 then.
#include "common/vf.h"
#include "common/vf_interpose.h"

#ifndef VF_C15_UNDEFINED_MEMBERS_FIXED
#define VF_C15_UNDEFINED_MEMBERS_FIXED 1
#endif

#include "babylon/concurrent/transient_topic.h"

namespace {

struct HSched : public ::babylon::SchedInterface {
  inline static int futex_wait(uint32_t* futex, uint32_t val, const struct ::timespec* timeout) noexcept {
    VF_COUNT("obs:hsched_futex_wait");
    vf::perturb("c15:S:before_wait");
    return ::babylon::SchedInterface::futex_wait(futex, val, timeout);
  }
  inline static int futex_wake_all(uint32_t* futex) noexcept {
    VF_COUNT("obs:hsched_futex_wake_all");
    vf::perturb("c15:S:before_wake");
    return ::babylon::SchedInterface::futex_wake_all(futex);
  }
};

::std::atomic<uint32_t> g_shared_slot {0};

struct Src {
  uint64_t id;
};

// like vf::pin_cpus(k) but on a seeded window of CPUs (every harness of every check pinning to CPUs 0..k-1 makes
// the oversubscribed episodes of concurrently running checks pile up on the same cores)
inline void pin_window(int k, uint64_t salt) {
  int ncpu = int(sysconf(_SC_NPROCESSORS_ONLN));
  if (k <= 0 || k >= ncpu) { vf::pin_cpus(0); return; }
  cpu_set_t set;
  CPU_ZERO(&set);
  int first = int(salt % uint64_t(ncpu));
  for (int i = 0; i < k; ++i) CPU_SET((first + i) % ncpu, &set);
  sched_setaffinity(0, sizeof set, &set);
}
// payload: plain memory (TSan decides visibility); `writers` is monitor state (relaxed RMWs)
struct Item {
  uint64_t id = 0, inv = 0, a = 0, b = 0;
  ::std::atomic<uint32_t> writers {0};
  Item() = default;
  inline void fill(uint64_t v) {
    if (writers.fetch_add(1, ::std::memory_order_relaxed) != 0) g_shared_slot.fetch_add(1, ::std::memory_order_relaxed);
    id = v;
    a = v * 3;
    b = v * 5;
    inv = ~v;
    writers.fetch_sub(1, ::std::memory_order_relaxed);
  }
  Item& operator=(const Src& s) {
    fill(s.id);
    return *this;
  }
  Item& operator=(Src&& s) {
    fill(s.id);
    return *this;
  }
};
inline bool item_ok(const Item& it, uint64_t& id_out) {
  uint64_t id = it.id, inv = it.inv, a = it.a, b = it.b;
  id_out = id;
  return inv == ~id && a == id * 3 && b == id * 5;
}

using Topic = ::babylon::ConcurrentTransientTopic<Item, HSched>;
using TIter = Topic::Iterator;

constexpr int kMaxPub = 6;
inline uint64_t make_id(uint32_t cyc_uid, int pub, uint32_t seq) { return (uint64_t(cyc_uid) << 40) | (uint64_t(pub) << 32) | seq; }
inline uint32_t id_cycle(uint64_t id) { return uint32_t(id >> 40); }
inline int id_pub(uint64_t id) { return int((id >> 32) & 0xff); }
inline uint32_t id_seq(uint64_t id) { return uint32_t(id); }

enum PubKind : uint8_t { PUBLISH, PUBLISH_SOLO, PUBLISH_N, PUBLISH_N_SOLO };
const char* kPubNames[] = {"publish", "publish<false>", "publish_n", "publish_n<false>"};

struct PubOp {
  uint32_t first_seq, n;
  uint64_t call, ret;
  uint8_t kind;
  uint8_t splits;
};
struct ConOp {
  uint64_t begin_pos;
  uint32_t want, got;   // want == 0: single consume()
  uint64_t call, ret;
  uint64_t range_begin;
};
struct ConRec {
  ::std::vector<uint64_t> ids;
  ::std::vector<ConOp> ops;
  int late_mode = 0;
  bool is_const = false;
  bool ended = false;
  uint64_t end_ret = 0;
  uint64_t subscribe_call = 0;
  uint32_t bad_payload = 0, wrong_cycle = 0;
  uint64_t first_bad_id = 0;
  bool end_not_repeated = false, short_not_end = false, range_bool_mismatch = false;
};

struct Cfg {
  uint64_t seed = 0, index = 0;
  ::std::string mode;
  int publishers = 1, consumers = 1, cycles = 3;
  uint32_t max_batch = 300, max_consume = 700;
  uint64_t max_total = 2000;
  bool reserve = false, solo_flag = false;
  int pin = 0;
  ::std::string policy;
  ::std::string describe() const {
    return vf::fmt("mode=%s ep=%lu seed=%lu P=%d C=%d cycles=%d max_batch=%u max_consume=%u max_total=%lu reserve=%d solo=%d pin=%d policy=[%s]",
                   mode.c_str(), (unsigned long)index, (unsigned long)seed, publishers, consumers, cycles, max_batch, max_consume,
                   (unsigned long)max_total, int(reserve), int(solo_flag), pin, policy.c_str());
  }
};

struct Cycle {
  int index = 0;
  uint32_t uid = 0;
  ::std::vector<uint64_t> quota;           // per publisher
  ::std::vector<::std::vector<PubOp>> pub;  // per publisher
  ::std::vector<ConRec> con;                // per consumer
  ::std::atomic<int> pubs_done {0};
  ::std::atomic<uint64_t> published {0};    // timing hint only (relaxed)
  ::std::atomic<uint32_t> closed {0};       // 1: close called, 2: close returned (timing hint / stuck rule)
  uint64_t close_call = 0, close_ret = 0;
  int closer = -1;
  uint64_t total = 0;
};

struct World {
  Cfg cfg;
  Topic* topic = nullptr;
  Cycle* cyc = nullptr;
};
World* g_world = nullptr;
uint32_t g_cycle_uid = 1;

::std::string cycle_desc(World& w) {
  Cycle& c = *w.cyc;
  ::std::string q;
  for (auto x : c.quota) q += vf::fmt("%lu,", (unsigned long)x);
  return w.cfg.describe() + vf::fmt("\ncycle=%d uid=%u total=%lu quotas=[%s] closer=p%d close=[%lu..%lu]\n", c.index, c.uid,
                                    (unsigned long)c.total, q.c_str(), c.closer, (unsigned long)c.close_call, (unsigned long)c.close_ret);
}
::std::string con_tail(ConRec& r, int ci) {
  ::std::string o = vf::fmt("consumer c%d (late_mode=%d const=%d ended=%d end_ret=%lu got=%zu): last ops:", ci, r.late_mode, int(r.is_const),
                            int(r.ended), (unsigned long)r.end_ret, r.ids.size());
  size_t from = r.ops.size() > 6 ? r.ops.size() - 6 : 0;
  for (size_t i = from; i < r.ops.size(); ++i) {
    auto& op = r.ops[i];
    o += vf::fmt(" [%s want=%u got=%u begin=%lu range_begin=%lu call=%lu ret=%lu]", op.want ? "consume(n)" : "consume()", op.want, op.got,
                 (unsigned long)op.begin_pos, (unsigned long)op.range_begin, (unsigned long)op.call, (unsigned long)op.ret);
  }
  return o + "\n";
}

////////////////////////////////////////////////////////////////////////////////
// publisher
void publisher(World& w, int p, uint64_t ep_seed) {
  Cycle& c = *w.cyc;
  Topic& topic = *w.topic;
  vf::Rng r(vf::mix(ep_seed, uint64_t(c.index), uint64_t(p), 0x9b));
  uint64_t left = c.quota[size_t(p)];
  uint32_t seq = 0;
  bool solo = w.cfg.publishers == 1 && w.cfg.solo_flag;
  auto& ops = c.pub[size_t(p)];
  while (left > 0 && !vf::failed()) {
    if (r.chance(1, 6)) vf::raw_sleep_us(r.range(1, 150));
    PubOp op {seq, 1, 0, 0, PUBLISH, 0};
    uint64_t x = r.below(10);
    if (x < 4) {
      op.kind = solo ? PUBLISH_SOLO : PUBLISH;
    } else {
      op.kind = solo ? PUBLISH_N_SOLO : PUBLISH_N;
      uint64_t cap = ::std::min<uint64_t>(left, w.cfg.max_batch);
      op.n = uint32_t(x < 8 ? r.range(1, ::std::min<uint64_t>(cap, 24)) : r.range(1, cap));
    }
    uint32_t filled = 0;
    int calls = 0;
    uint32_t uid = c.uid;
    auto cb = [&](TIter b, TIter e) {
      ++calls;
      ssize_t len = e - b;
      ssize_t mid = len / 2;
      for (ssize_t i = 0; b != e; ++b, ++i) {
        if (i == mid) vf::perturb("cb:c15_fill");
        (*b).fill(make_id(uid, p, seq + filled));
        ++filled;
      }
    };
    vf::set_op(kPubNames[op.kind], op.n);
    op.call = vf::stamp_call();
    switch (op.kind) {
      case PUBLISH: if (r.chance(1, 2)) topic.publish(Src {make_id(uid, p, seq)}); else { Src s {make_id(uid, p, seq)}; topic.publish(s); } filled = 1; break;
      case PUBLISH_SOLO: topic.publish<false>(Src {make_id(uid, p, seq)}); filled = 1; break;
      case PUBLISH_N: topic.publish_n(op.n, cb); break;
      default: topic.publish_n<false>(op.n, cb); break;
    }
    op.ret = vf::stamp_ret();
    vf::set_op(nullptr);
    if (filled != op.n) {
      vf::violation("publish_n-callback-count", vf::fmt("publish_n(%u) handed %u slots to its callback", op.n, filled), cycle_desc(w));
      return;
    }
    if (calls > 1) { VF_COUNT("rare:publish_range_split"); op.splits = uint8_t(::std::min(calls, 255)); }
    ops.push_back(op);
    seq += op.n;
    left -= op.n;
    c.published.fetch_add(op.n, ::std::memory_order_relaxed);
    vf::progress();
  }
  // the publisher that finishes last closes the topic right after its last publish returned; the
  // acq_rel counter orders every other publisher's publishes before close() (documented precondition)
  if (c.pubs_done.fetch_add(1, ::std::memory_order_acq_rel) + 1 == w.cfg.publishers) {
    c.closer = p;
    vf::set_op("close");
    c.close_call = vf::stamp_call();
    c.closed.store(1, ::std::memory_order_relaxed);
    topic.close();
    c.close_ret = vf::stamp_ret();
    c.closed.store(2, ::std::memory_order_relaxed);
    vf::set_op(nullptr);
    vf::progress();
  }
}

////////////////////////////////////////////////////////////////////////////////
// consumer
template <typename ConsumerT>
void consume_loop(World& w, ConsumerT consumer, ConRec& rec, vf::Rng& r) {
  Cycle& c = *w.cyc;
  uint32_t uid = c.uid;
  bool expect_end = false;
  auto take = [&](const Item& it) {
    uint64_t id;
    bool ok = item_ok(it, id);
    if (!ok) { if (rec.bad_payload++ == 0) rec.first_bad_id = id; }
    else if (id_cycle(id) != uid) { if (rec.wrong_cycle++ == 0) rec.first_bad_id = id; }
    rec.ids.push_back(id);
  };
  int after_end = 0;
  while (!vf::failed()) {
    ConOp op {rec.ids.size(), 0, 0, 0, 0, rec.ids.size()};
    uint64_t x = r.below(10);
    if (x >= 4) op.want = uint32_t(x < 8 ? r.range(1, 40) : r.range(1, w.cfg.max_consume));
    vf::set_op(op.want ? "consume(n)" : "consume()", op.want);
    if (op.want == 0) {
      op.call = vf::stamp_call();
      const Item* p = consumer.consume();
      op.ret = vf::stamp_ret();
      if (p) { op.got = 1; take(*p); }
    } else {
      op.call = vf::stamp_call();
      auto range = consumer.consume(op.want);
      op.ret = vf::stamp_ret();
      op.got = uint32_t(range.size());
#if VF_C15_UNDEFINED_MEMBERS_FIXED
      if (bool(range) != (op.got > 0)) rec.range_bool_mismatch = true;
#endif
      op.range_begin = op.got ? range._begin : op.begin_pos;
      for (uint32_t i = 0; i < op.got; ++i) take(range[i]);
      if (op.got > 1 && (op.begin_pos & 127) + op.got > 128) VF_COUNT("rare:consume_range_straddles_block");
    }
    vf::set_op(nullptr);
    rec.ops.push_back(op);
    vf::progress();
    if (rec.ended) {
      // the end marker must be repeated
      if (op.got != 0) rec.end_not_repeated = true;
      if (++after_end >= 2) break;
      continue;
    }
    if (op.got == 0) {
      rec.ended = true;
      rec.end_ret = op.ret;
      continue;
    }
    if (expect_end) rec.short_not_end = true;   // a short range said "everything consumed", yet more arrived
    if (op.want && op.got < op.want) {
      VF_COUNT("rare:short_range_at_close");
      expect_end = true;
    }
  }
}

void consumer_thread(World& w, int ci, uint64_t ep_seed) {
  Cycle& c = *w.cyc;
  ConRec& rec = c.con[size_t(ci)];
  vf::Rng r(vf::mix(ep_seed, uint64_t(c.index), uint64_t(ci), 0xc0));
  // when to subscribe: at once / after a short sleep / once k elements were published / after close returned
  switch (rec.late_mode) {
    case 1: vf::raw_sleep_us(r.range(1, 1500)); break;
    case 2: {
      uint64_t k = r.range(0, c.total);
      while (c.published.load(::std::memory_order_relaxed) < k && !c.closed.load(::std::memory_order_relaxed) && !vf::failed()) vf::raw_sleep_us(30);
      break;
    }
    case 3:
      while (c.closed.load(::std::memory_order_relaxed) != 2 && !vf::failed()) vf::raw_sleep_us(30);
      VF_COUNT("rare:subscribed_after_close");
      break;
    default: break;
  }
  rec.subscribe_call = vf::stamp_call();
  if (rec.is_const) {
    consume_loop(w, static_cast<const Topic&>(*w.topic).subscribe(), rec, r);
  } else {
    consume_loop(w, w.topic->subscribe(), rec, r);
  }
}

////////////////////////////////////////////////////////////////////////////////
// oracle of one cycle
struct CycleOut {
  uint64_t fp = 0;
  uint64_t deliveries = 0;
};

const PubOp* find_op(const ::std::vector<PubOp>& ops, uint32_t seq) {
  size_t lo = 0, hi = ops.size();
  while (lo < hi) {
    size_t mid = (lo + hi) / 2;
    if (ops[mid].first_seq + ops[mid].n <= seq) lo = mid + 1;
    else if (ops[mid].first_seq > seq) hi = mid;
    else return &ops[mid];
  }
  return nullptr;
}

CycleOut cycle_oracle(World& w) {
  Cycle& c = *w.cyc;
  CycleOut out;
  int P = w.cfg.publishers, C = w.cfg.consumers;
  if (g_shared_slot.load(::std::memory_order_relaxed)) {
    vf::violation("publishers-share-slot", "two publish callbacks were inside the same slot at the same time", cycle_desc(w));
    return out;
  }
  ::std::vector<uint64_t> published(size_t(P), 0);
  for (int p = 0; p < P; ++p)
    for (auto& op : c.pub[size_t(p)]) published[size_t(p)] += op.n;
  for (int p = 0; p < P; ++p) {
    if (published[size_t(p)] != c.quota[size_t(p)]) {
      vf::violation("harness-quota", "harness bug: publisher did not publish its quota", cycle_desc(w));
      return out;
    }
  }
  // per consumer: online flags, termination, completeness, order
  ::std::vector<::std::vector<int64_t>> pos(static_cast<size_t>(P));
  for (int p = 0; p < P; ++p) pos[size_t(p)].assign(size_t(c.quota[size_t(p)]), -1);
  for (int ci = 0; ci < C; ++ci) {
    ConRec& r = c.con[size_t(ci)];
    ::std::string detail = cycle_desc(w) + con_tail(r, ci);
    out.deliveries += r.ids.size();
    if (r.bad_payload) {
      vf::violation("payload-corrupt", vf::fmt("consumer c%d read %u elements whose checksum does not match (first id field %lx): element handed out "
                                               "before its publisher finished writing it, or never written", ci, r.bad_payload, (unsigned long)r.first_bad_id), detail);
      return out;
    }
    if (r.wrong_cycle) {
      vf::violation("stale-element", vf::fmt("consumer c%d received %u elements written in an earlier cycle (first id %lx, current cycle uid %u)", ci,
                                             r.wrong_cycle, (unsigned long)r.first_bad_id, c.uid), detail);
      return out;
    }
    if (r.range_bool_mismatch) vf::violation("range-bool", "ConsumeRange::operator bool disagrees with size()>0", detail);
    if (!r.ended) {
      vf::violation("harness-consumer-exit", "harness bug: consumer left its loop without the end marker", detail);
      return out;
    }
    if (r.end_not_repeated) vf::violation("end-marker-not-repeated", vf::fmt("consumer c%d got elements again after the end marker", ci), detail);
    if (r.short_not_end) {
      vf::violation("short-range-before-end", vf::fmt("consumer c%d: consume(n) returned fewer than n elements although more elements followed", ci), detail);
    }
    // ranges start where the previous ended, the first at index 0
    for (auto& op : r.ops) {
      if (op.want && op.got && op.range_begin != op.begin_pos) {
        vf::violation(op.begin_pos == 0 ? "first-range-not-at-index-0" : "range-not-contiguous",
                      vf::fmt("consumer c%d: range begins at topic index %lu but %lu elements were consumed before", ci,
                              (unsigned long)op.range_begin, (unsigned long)op.begin_pos), detail);
        return out;
      }
    }
    // exactly once + publisher order + global identity of sequences
    ::std::vector<int64_t> last_seq(static_cast<size_t>(P), -1);
    ::std::vector<::std::vector<uint8_t>> seen(static_cast<size_t>(P));
    for (int p = 0; p < P; ++p) seen[size_t(p)].assign(size_t(c.quota[size_t(p)]), 0);
    for (size_t i = 0; i < r.ids.size(); ++i) {
      uint64_t id = r.ids[i];
      int p = id_pub(id);
      uint32_t s = id_seq(id);
      if (p >= P || s >= c.quota[size_t(p)]) {
        vf::violation("invented-element", vf::fmt("consumer c%d received id %lx that was never published in this cycle", ci, (unsigned long)id), detail);
        return out;
      }
      if (seen[size_t(p)][s]++) {
        vf::violation("duplicate-delivery", vf::fmt("consumer c%d received element (p%d,#%u) twice (second time at position %zu)", ci, p, s, i), detail);
        return out;
      }
      if (int64_t(s) < last_seq[size_t(p)]) {
        vf::violation("publisher-order", vf::fmt("consumer c%d received (p%d,#%u) after (p%d,#%ld)", ci, p, s, p, (long)last_seq[size_t(p)]), detail);
        return out;
      }
      last_seq[size_t(p)] = int64_t(s);
      if (ci == 0) pos[size_t(p)][s] = int64_t(i);
      else if (pos[size_t(p)][s] != int64_t(i)) {
        vf::violation("consumers-disagree", vf::fmt("element (p%d,#%u) is at position %zu for consumer c%d but at %ld for consumer c0", p, s, i, ci,
                                                    (long)pos[size_t(p)][s]), detail + con_tail(c.con[0], 0));
        return out;
      }
    }
    if (r.ids.size() != c.total) {
      ::std::string missing;
      for (int p = 0; p < P && missing.size() < 200; ++p)
        for (size_t s = 0; s < seen[size_t(p)].size() && missing.size() < 200; ++s)
          if (!seen[size_t(p)][s]) missing += vf::fmt(" (p%d,#%zu)", p, s);
      vf::violation("lost-element", vf::fmt("consumer c%d got the end marker after %zu of %lu elements; missing:%s", ci, r.ids.size(),
                                            (unsigned long)c.total, missing.c_str()), detail);
      return out;
    }
    // the end marker / a short range only once close() had been called
    if (!(c.close_call < r.end_ret)) {
      vf::violation("end-before-close", vf::fmt("consumer c%d got the end marker before close() was called", ci), detail);
    }
    for (auto& op : r.ops) {
      if (op.want && op.got && op.got < op.want && !(c.close_call < op.ret)) {
        vf::violation("short-range-before-close", vf::fmt("consumer c%d: consume(%u) returned %u elements before close() was called", ci, op.want, op.got),
                      detail);
      }
    }
    // no element before its publish was called
    for (auto& op : r.ops) {
      for (uint32_t i = 0; i < op.got; ++i) {
        uint64_t id = r.ids[size_t(op.begin_pos) + i];
        const PubOp* po = find_op(c.pub[size_t(id_pub(id))], id_seq(id));
        if (!po) {
          vf::violation("harness-op-lookup", "harness bug: no publish op for a delivered id", detail);
          return out;
        }
        if (!(po->call < op.ret)) {
          vf::violation("delivered-before-publish", vf::fmt("consumer c%d: consume returned (p%d,#%u) before the %s that published it was called", ci,
                                                            id_pub(id), id_seq(id), kPubNames[po->kind]), detail);
          return out;
        }
      }
    }
    if (r.late_mode == 3) VF_COUNT("obs:consumer_subscribed_after_close_saw_everything");
    else if (r.late_mode) VF_COUNT("obs:late_consumer_saw_everything");
  }
  // batch contiguity (positions of consumer 0 == positions of everyone)
  for (int p = 0; p < P; ++p) {
    for (auto& op : c.pub[size_t(p)]) {
      if (op.n > 1) VF_COUNT("obs:batches_checked");
      for (uint32_t i = 1; i < op.n; ++i) {
        if (pos[size_t(p)][op.first_seq + i] != pos[size_t(p)][op.first_seq] + int64_t(i)) {
          vf::violation("batch-not-contiguous", vf::fmt("publish_n(%u) of p%d starting at #%u: element %u is at position %ld, the first at %ld", op.n, p,
                                                        op.first_seq, i, (long)pos[size_t(p)][op.first_seq + i], (long)pos[size_t(p)][op.first_seq]),
                        cycle_desc(w));
          return out;
        }
      }
    }
  }
  // fingerprint: interleaving of publishers over the first 256 positions
  uint64_t h = vf::mix(uint64_t(P), uint64_t(C), c.total);
  if (C > 0) {
    auto& ids = c.con[0].ids;
    int last = -1;
    for (size_t i = 0; i < ids.size() && i < 256; ++i) {
      int p = id_pub(ids[i]);
      if (p != last) h = vf::mix(h, uint64_t(p), i);
      last = p;
    }
  }
  out.fp = h;
  return out;
}

uint64_t futex_slept_total() {
  uint64_t s = 0;
  auto* all = vf::thread_states();
  for (int i = 0; i < vf::kMaxThreads; ++i) s += all[i].futex_slept.load(::std::memory_order_relaxed);
  return s;
}

const ::std::vector<::std::string> kStallPoints = {
    "topic:published_before_wake", "topic:closed_before_wake", "topic:consume_before_wait", "topic:wake_slow",
    "topic:set_published_loop",  // proposed in hooks_proposed/C15.diff (a batch half published); harmless while absent
    "futex:before_wait", "futex:before_wake", "c15:S:before_wait", "c15:S:before_wake", "cb:c15_fill"};

void episode(uint64_t seed, uint64_t index, const ::std::string& mode) {
  vf::Rng r(vf::mix(seed, index, 0x70b1c));
  Cfg cfg;
  cfg.seed = seed;
  cfg.index = index;
  cfg.mode = mode;
  if (mode == "all") cfg.mode = r.chance(1, 2) ? "small" : (r.chance(1, 2) ? "mid" : "big");
  cfg.publishers = int(r.range(1, kMaxPub));
  cfg.consumers = int(r.range(1, 6));
  cfg.cycles = int(r.range(3, 6));
  if (cfg.mode == "small") { cfg.max_total = r.pick<uint64_t>({0, 1, 2, 5, 20, 130}); cfg.max_batch = 8; cfg.max_consume = uint32_t(r.pick<uint32_t>({1, 3, 200})); }
  else if (cfg.mode == "mid") { cfg.max_total = 600; cfg.max_batch = 64; cfg.max_consume = 300; }
  else { cfg.max_total = (vf::args().thorough ? 6000 : 3000) / (VF_TSAN ? 2 : 1); cfg.max_batch = 300; cfg.max_consume = 700; }
  cfg.reserve = r.chance(1, 4);
  cfg.solo_flag = r.chance(1, 2);
  cfg.pin = int(r.pick<int>({0, 0, 0, 1, 2, 3}));
  cfg.policy = vf::draw_policy(r, kStallPoints, cfg.mode == "small" ? 8 : 60, 4000);
  World w;
  w.cfg = cfg;
  g_world = &w;
  Topic topic;
  w.topic = &topic;
  if (cfg.reserve) {
    size_t n = size_t(r.range(1, 2000));
#if VF_C15_UNDEFINED_MEMBERS_FIXED
    topic.reserve(n);
#else
    topic._slots.reserve(n);   // what reserve() is documented to do; see the note at the top
#endif
  }
  uint64_t slept_before = futex_slept_total();
  uint64_t wake_slow_before = vf::counter_value("point:topic:wake_slow") + vf::counter_value("obs:hsched_futex_wake_all");
  uint64_t ep_seed = vf::mix(seed, index, 0xe9);
  uint64_t fp = vf::mix(::std::hash<::std::string> {}(cfg.mode + "/" + vf::args().variant), uint64_t(cfg.publishers), uint64_t(cfg.consumers));
  vf::watchdog().set_context(cfg.describe());
  pin_window(cfg.pin, vf::mix(seed, index, 0x91));
  for (int cy = 0; cy < cfg.cycles && !vf::failed(); ++cy) {
    Cycle c;
    c.index = cy;
    c.uid = g_cycle_uid++ & 0xffffff;
    int P = cfg.publishers, C = cfg.consumers;
    c.quota.assign(size_t(P), 0);
    c.total = cfg.max_total ? r.range(cfg.mode == "small" ? 0 : cfg.max_total / 8, cfg.max_total) : 0;
    for (uint64_t i = 0; i < c.total;) {
      uint64_t chunk = ::std::min<uint64_t>(c.total - i, r.range(1, 64));
      c.quota[r.below(uint64_t(P))] += chunk;
      i += chunk;
    }
    c.pub.assign(size_t(P), {});
    c.con = ::std::vector<ConRec>(size_t(C));
    for (auto& rec : c.con) {
      rec.late_mode = int(r.pick<int>({0, 0, 0, 1, 2, 2, 3}));
      rec.is_const = r.chance(1, 4);
      rec.ids.reserve(size_t(c.total));
    }
    w.cyc = &c;
    vf::watchdog().arm(true);
    // creation order of the threads is shuffled: consumers may be running (and asleep) before the first publisher starts
    ::std::vector<int> role(static_cast<size_t>(P + C));
    for (int i = 0; i < P + C; ++i) role[size_t(i)] = i;
    for (size_t i = role.size(); i > 1; --i) ::std::swap(role[i - 1], role[r.below(i)]);
    vf::run_threads(P + C, vf::mix(ep_seed, uint64_t(cy)), [&](int t) {
      int who = role[size_t(t)];
      if (who < P) publisher(w, who, ep_seed);
      else consumer_thread(w, who - P, ep_seed);
    });
    vf::watchdog().arm(false);
    if (vf::failed()) break;
    CycleOut out = cycle_oracle(w);
    VF_COUNT_N("obs:deliveries", out.deliveries);
    VF_COUNT_N("obs:published", c.total);
    VF_COUNT("obs:cycles");
    if (c.total == 0) VF_COUNT("obs:empty_cycle");
    fp = vf::mix(fp, out.fp);
    if (vf::failed()) break;
    if (index < 2 && cy == 0) {
      ::std::string s;
      for (size_t i = 0; i < c.con[0].ids.size() && i < 20; ++i) s += vf::fmt("%sp%d#%u", i ? " " : "", id_pub(c.con[0].ids[i]), id_seq(c.con[0].ids[i]));
      vf::sample("{\"config\": " + vf::jstr(cfg.describe()) + ", \"cycle\": 0, \"published\": " + ::std::to_string(c.total) +
                 ", \"deliveries\": " + ::std::to_string(out.deliveries) + ", \"first_positions\": " + vf::jstr(s) + "}", 3);
    }
    // clear(): nobody is inside the topic (all threads joined)
    topic.clear();
    size_t idx = topic._next_event_index.load(::std::memory_order_relaxed);
    if (idx != 0) vf::violation("clear-index-not-reset", vf::fmt("_next_event_index is %zu after clear()", idx), cycle_desc(w));
    size_t dirty = 0, first_dirty = 0, nslots = topic._slots.size();
    uint32_t dirty_word = 0;
    for (size_t i = 0; i < nslots; ++i) {
      uint32_t word = topic._slots[i].futex._futex.value().load(::std::memory_order_relaxed);
      if (word != 0 && dirty++ == 0) { first_dirty = i; dirty_word = word; }
    }
    if (dirty) {
      vf::violation("clear-slot-not-reset", vf::fmt("%zu of %zu slot words are not INITIAL after clear() (first: slot %zu = 0x%x)", dirty, nslots,
                                                    first_dirty, dirty_word), cycle_desc(w));
    }
    w.cyc = nullptr;
  }
  vf::pin_cpus(0);
  vf::disable_policy();
  bool slept = futex_slept_total() > slept_before;
  bool woke = vf::counter_value("point:topic:wake_slow") + vf::counter_value("obs:hsched_futex_wake_all") > wake_slow_before;
  if (slept) VF_COUNT("obs:episodes_with_sleeping_consumer");
  vf::evaluated(fp, slept || woke);
  w.topic = nullptr;
  g_world = nullptr;
}

}  // namespace

int main(int argc, char** argv) {
  vf::init(argc, argv, "C15", "c15_topic");
  auto& a = vf::args();
  ::std::string mode = a.mode.empty() ? "all" : a.mode;
  auto& wd = vf::watchdog();
  // slot word = status:16 | waiter flag:16. It changes only by (a) a waiter setting the flag while status is
  // INITIAL (nobody sleeps on the flag-less value), (b) set_published/set_closed (owes the sleepers a wake),
  // (c) the waker clearing the flag right before wake_all, (d) clear() at quiescence. So a thread asleep on a
  // value the word no longer holds, with no progress for the grace period, is a lost wake-up.
  wd.changed_word_is_lost_wakeup = true;
  wd.classify = []() -> ::std::string {
    World* w = g_world;
    if (!w || !w->cyc) return "";
    if (w->cyc->closed.load(::std::memory_order_relaxed) == 2) return "stuck:consumer-not-terminated-after-close-returned";
    return "";
  };
  wd.dump_extra = []() -> ::std::string {
    World* w = g_world;
    if (!w || !w->cyc || !w->topic) return "";
    Cycle& c = *w->cyc;
    size_t next = w->topic->_next_event_index.load(::std::memory_order_relaxed);
    ::std::string o = vf::fmt("cycle=%d total=%lu published(hint)=%lu pubs_done=%d closed=%u next_event_index=%zu\nslot words around the end:",
                              c.index, (unsigned long)c.total, (unsigned long)c.published.load(), c.pubs_done.load(), c.closed.load(), next);
    size_t n = w->topic->_slots.size();
    for (size_t i = next > 6 ? next - 6 : 0; i < n && i < next + 3; ++i) {
      o += vf::fmt(" [%zu]=0x%x", i, w->topic->_slots[i].futex._futex.value().load(::std::memory_order_relaxed));
    }
    return o + "\n";
  };
  wd.start();
  uint64_t n = vf::budget(260, 6000);
  for (uint64_t e = 0; e < n && !vf::failed(); ++e) {
    if (a.only_episode >= 0 && uint64_t(a.only_episode) != e) continue;
    episode(a.seed, e, mode);
  }
  wd.shutdown();
  vf::extra("fence_paths", "\"publish/publish_n/consume order payload and status with fences (TSan-annotated): fence strength not decidable by this family on x86 (DESIGN §1)\"");
  return vf::finish();
}
