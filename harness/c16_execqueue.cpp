// C16 — ConcurrentExecutionQueue: items consumed once, one consumer at a time,
// none stranded; behaviour under executor launch failures (fault enumeration).
//
// Episodes: P producers push unique (producer, seq) items in bursts into one
// ConcurrentExecutionQueue whose consumer is launched through
//   * InplaceExecutor / ThreadPoolExecutor / AlwaysUseNewThreadExecutor (bare),
//   * the same three behind a wrapper that counts launches and refuses them
//     according to a fault schedule (enumerated: every single and double refusal
//     among the first 6 launches x 3 executors; randomized: runs, probabilistic).
// Flaky episodes run a recovery thread that calls signal_push_event()
// periodically, as the header tells clients to do after a refused launch
// (DESIGN §5 C16: producers may block on the full queue before they reach their
// next signal).
//
// Oracles
//   exactly-once        per-item counter, checked in the consume callback and at the end
//   producer-order      plain next_seq[producer] owned by whoever is the consumer
//   concurrent-consumers `inside` flag 0->1->0 around the consume callback
//   execute-return-code  rc != 0 <=> the last launch this call attempted was refused
//   join-early           join() returned while an item whose execute() had returned
//                        before join() was called was not yet handed to the consumer
//   item-lost / stranded after the final (accepted) signal + join() everything is consumed
//   stuck:*              bounded progress (watchdog): a healthy or recovering executor
//                        must keep producers / join() moving
//   TSan                 plain payload + plain consumer-owned state: missing
//                        happens-before between producer -> consumer and between
//                        consecutive consumer incarnations is a race report
#include "common/vf.h"
#include "common/vf_interpose.h"

#include "babylon/concurrent/execution_queue.h"
#include "babylon/executor.h"

#include <memory>

namespace {

thread_local int tl_in_join = 0;
thread_local uint32_t tl_attempts = 0;
thread_local bool tl_last_refused = false;

struct World;
World* volatile g_world = nullptr;

struct Item {
  uint32_t producer = 0;
  uint32_t seq = 0;
  uint64_t check = 0;
  Item() = default;
  Item(uint32_t p, uint32_t s, uint64_t c) : producer(p), seq(s), check(c) {}
  Item(const Item&) = default;
  Item(Item&&) = default;
  // user code inside the push window (between ticket and slot publication)
  Item& operator=(const Item& o) noexcept {
    vf::perturb("cb:eq_item_assign");
    producer = o.producer; seq = o.seq; check = o.check;
    return *this;
  }
  Item& operator=(Item&& o) noexcept {
    vf::perturb("cb:eq_item_assign");
    producer = o.producer; seq = o.seq; check = o.check;
    return *this;
  }
};

void note_blocked();
struct HSched : public ::babylon::SchedInterface {
  // the library polls every 1 ms (full queue in push, join); poll faster. Timing only.
  static void usleep(useconds_t us) noexcept {
    if (tl_in_join) { VF_COUNT("obs:join_poll"); } else { note_blocked(); }
    ::usleep(us > 200 ? 200 : us);
  }
};
using Queue = ::babylon::ConcurrentExecutionQueue<Item, HSched>;
using QIter = Queue::Iterator;

////////////////////////////////////////////////////////////////////////////////
// fault schedules
struct Schedule {
  enum Kind { NONE, KTH, RUN, PROB } kind = NONE;
  uint64_t k1 = 0, k2 = 0;   // KTH: refuse launches k1 and k2 (k2 = 0: single); RUN: k1 = first, k2 = length
  uint32_t num = 0, den = 1; // PROB: probability num/den for launches <= k1
  bool enumerated = false;
  uint64_t planned() const {
    switch (kind) {
      case KTH: return k2 ? 2 : 1;
      case RUN: return k2;
      default: return 0;
    }
  }
  std::string describe() const {
    switch (kind) {
      case NONE: return "none";
      case KTH: return k2 ? vf::fmt("refuse-launches{%lu,%lu}", (unsigned long)k1, (unsigned long)k2)
                          : vf::fmt("refuse-launch{%lu}", (unsigned long)k1);
      case RUN: return vf::fmt("refuse-run{from=%lu,len=%lu}", (unsigned long)k1, (unsigned long)k2);
      case PROB: return vf::fmt("refuse-prob{%u/%u,first=%lu}", num, den, (unsigned long)k1);
    }
    return "?";
  }
};

const char* kBaseNames[] = {"inplace", "pool", "newthread"};

// Wrapper: counts launches, refuses by schedule, otherwise forwards to the real executor.
class FlakyExecutor : public ::babylon::Executor {
 public:
  ::babylon::Executor* base = nullptr;
  Schedule sch;
  uint64_t seed = 0;
  std::atomic<uint64_t> launches {0}, refused {0};
  // accepted launches handed to the real executor / whose closure began / whose closure returned
  std::atomic<uint64_t> accepted {0}, started {0}, finished {0};
  std::atomic<bool> healthy_now {false};  // set by the harness for the final recovery phase

  bool decide(uint64_t k) const {
    if (healthy_now.load(std::memory_order_relaxed)) return false;
    switch (sch.kind) {
      case Schedule::NONE: return false;
      case Schedule::KTH: return k == sch.k1 || (sch.k2 && k == sch.k2);
      case Schedule::RUN: return k >= sch.k1 && k < sch.k1 + sch.k2;
      case Schedule::PROB: return k <= sch.k1 && (vf::mix(seed, k, 0xfa17) % sch.den) < sch.num;
    }
    return false;
  }
  int invoke(::babylon::MoveOnlyFunction<void(void)>&& function) noexcept override {
    uint64_t k = launches.fetch_add(1, std::memory_order_relaxed) + 1;
    vf::perturb("cb:flaky_invoke");
    bool refuse = decide(k);
    ++tl_attempts;
    tl_last_refused = refuse;
    if (refuse) {
      refused.fetch_add(1, std::memory_order_relaxed);
      VF_COUNT("rare:launch_refused");
      return -1;
    }
    VF_COUNT("obs:launch_accepted");
    accepted.fetch_add(1, std::memory_order_relaxed);
    FlakyExecutor* self = this;
    return base->invoke([self, f = ::std::move(function)] {
      self->started.fetch_add(1, std::memory_order_relaxed);
      f();
      self->finished.fetch_add(1, std::memory_order_relaxed);
    });
  }
};

////////////////////////////////////////////////////////////////////////////////
struct Rec {
  std::atomic<uint32_t> consumed {0};
  uint64_t exec_call = 0, exec_ret = 0;   // written by the producer, read after the threads joined
  uint64_t consume_stamp = 0, pos = 0;    // written by the (exclusive) consumer
  int rc = 0;
};
struct JoinRec {
  int thread;
  uint64_t call, ret;
};

struct Episode {
  uint64_t index = 0, seed = 0;
  int base = 0;          // 0 inplace 1 pool 2 newthread
  bool wrapped = false;  // behind FlakyExecutor
  Schedule sch;
  size_t capacity = 1;
  int producers = 1;
  uint32_t per_producer = 0;
  uint32_t max_burst = 1;
  uint32_t pause_1in = 2;    // after a burst wait for own items with probability 1/pause_1in
  bool joiner = false, signaller = false, producer_joins = false;
  int pool_workers = 1, pool_gcap = 1;
  int pin = 0;
  std::string policy;
  bool flaky() const { return wrapped && sch.kind != Schedule::NONE; }
  std::string describe() const {
    return vf::fmt("ep=%lu seed=%lu exec=%s%s schedule=%s cap=%zu P=%d per_producer=%u burst<=%u pause=1/%u joiner=%d "
                   "signaller=%d producer_joins=%d pool{w=%d,g=%d} pin=%d policy{%s}",
                   (unsigned long)index, (unsigned long)seed, kBaseNames[base], wrapped ? "+wrapper" : "",
                   sch.describe().c_str(), capacity, producers, per_producer, max_burst, pause_1in, int(joiner),
                   int(signaller), int(producer_joins), pool_workers, pool_gcap, pin, policy.c_str());
  }
};

struct World {
  Episode ep;
  std::unique_ptr<Queue> q;
  FlakyExecutor flaky;
  std::unique_ptr<::babylon::ThreadPoolExecutor> pool;
  ::babylon::Executor* exec = nullptr;
  std::vector<std::unique_ptr<Rec[]>> items;  // [producer][seq]
  // consumer-owned plain state: whoever runs the consume function owns it exclusively
  std::vector<uint32_t> next_seq;
  uint64_t pos_plain = 0;
  uint64_t batches_plain = 0;
  std::vector<uint8_t> order;  // producer of the first 64 deliveries
  std::atomic<int> inside {0};
  std::atomic<uint64_t> consumed_total {0}, submitted_total {0}, blocked {0};
  std::atomic<int> producers_done {0};
  std::atomic<bool> aux_stop {false};
  std::atomic<const char*> phase {"setup"};
  std::mutex jmu;
  std::vector<JoinRec> joins;
};

void note_blocked() {
  VF_COUNT("rare:producer_blocked_full");
  World* w = g_world;
  if (w) w->blocked.fetch_add(1, std::memory_order_relaxed);
}

inline uint64_t item_check(const Episode& ep, uint32_t p, uint32_t s) { return vf::mix(ep.seed, ep.index, p, s) | 1; }

std::string item_history(World& w, uint32_t p, uint32_t s) {
  std::string o = w.ep.describe() + "\n";
  uint32_t lo = s > 3 ? s - 3 : 0, hi = std::min<uint32_t>(w.ep.per_producer, s + 3);
  for (uint32_t i = lo; i < hi; ++i) {
    Rec& r = w.items[p][i];
    o += vf::fmt("item(p%u,#%u): execute[%lu..%lu] rc=%d consumed=%u at %lu pos=%lu\n", p, i, (unsigned long)r.exec_call,
                 (unsigned long)r.exec_ret, r.rc, r.consumed.load(std::memory_order_relaxed),
                 (unsigned long)r.consume_stamp, (unsigned long)r.pos);
  }
  o += vf::fmt("events=%zu queue{push=%zu pop=%zu cap=%zu} consumed_total=%lu submitted_total=%lu launches=%lu refused=%lu\n",
               w.q ? w.q->_events.load() : 0, w.q ? w.q->_queue._next_push_index.load() : 0,
               w.q ? w.q->_queue._next_pop_index.load() : 0, w.q ? w.q->capacity() : 0,
               (unsigned long)w.consumed_total.load(), (unsigned long)w.submitted_total.load(),
               (unsigned long)w.flaky.launches.load(), (unsigned long)w.flaky.refused.load());
  return o;
}

// the consume function registered with the queue
void consume(World& w, QIter it, QIter end) {
  if (w.inside.exchange(1, std::memory_order_relaxed) != 0) {
    vf::violation("concurrent-consumers", "the consume function was entered while another invocation of it was still running",
                  w.ep.describe());
  }
  ++w.batches_plain;
  VF_COUNT("obs:consume_batches");
  for (; it != end; ++it) {
    Item& x = *it;
    uint64_t st = vf::stamp_call();
    if (x.producer >= uint32_t(w.ep.producers) || x.seq >= w.ep.per_producer ||
        x.check != item_check(w.ep, x.producer, x.seq)) {
      vf::violation("payload-corrupt", vf::fmt("consumer received an invented/torn item (producer=%u seq=%u check=%lx)",
                                               x.producer, x.seq, (unsigned long)x.check), w.ep.describe());
      continue;
    }
    Rec& r = w.items[x.producer][x.seq];
    if (r.consumed.fetch_add(1, std::memory_order_relaxed) != 0) {
      vf::violation("duplicate-delivery", vf::fmt("item (p%u,#%u) was delivered to the consume function more than once",
                                                  x.producer, x.seq), item_history(w, x.producer, x.seq));
      continue;
    }
    r.consume_stamp = st;
    r.pos = w.pos_plain;
    if (w.pos_plain < w.order.size()) w.order[w.pos_plain] = uint8_t(x.producer);
    ++w.pos_plain;
    if (x.seq != w.next_seq[x.producer]) {
      vf::violation("producer-order", vf::fmt("items of producer %u delivered out of submission order: got #%u, expected #%u",
                                              x.producer, x.seq, w.next_seq[x.producer]),
                    item_history(w, x.producer, x.seq));
    }
    w.next_seq[x.producer] = x.seq + 1;
    w.consumed_total.fetch_add(1, std::memory_order_relaxed);
    vf::progress();
    vf::perturb("cb:eq_consume");
  }
  if (w.inside.exchange(0, std::memory_order_relaxed) != 1) {
    vf::violation("concurrent-consumers", "the consume function's in-use flag was cleared by another invocation", w.ep.describe());
  }
}

// rc of execute()/signal_push_event() against what the executor told this thread
void check_rc(World& w, const char* what, int rc) {
  if (w.ep.wrapped) {
    bool expect_fail = tl_attempts > 0 && tl_last_refused;
    if ((rc != 0) != expect_fail) {
      vf::violation("return-code",
                    vf::fmt("%s returned %d although this call attempted %u consumer launch(es) and the last one was %s",
                            what, rc, tl_attempts, tl_attempts == 0 ? "not needed" : (tl_last_refused ? "refused" : "accepted")),
                    w.ep.describe());
    }
    if (tl_attempts > 1) VF_COUNT("rare:launch_retried_after_refusal");
    if (rc != 0) VF_COUNT("rare:rolled_back");
  } else if (rc != 0) {
    vf::violation("return-code", vf::fmt("%s returned %d with a healthy executor", what, rc), w.ep.describe());
  }
}

void do_join(World& w, int thread) {
  JoinRec j;
  j.thread = thread;
  vf::set_op("join");
  tl_in_join = 1;
  j.call = vf::stamp_call();
  w.q->join();
  j.ret = vf::stamp_ret();
  tl_in_join = 0;
  vf::set_op(nullptr);
  vf::progress();
  VF_COUNT("obs:joins");
  std::lock_guard<std::mutex> g(w.jmu);
  w.joins.push_back(j);
}

// oversubscription: restrict to k CPUs chosen by the episode rng (not always CPUs 0..k-1: the machine is shared with
// other harness processes that would all crowd onto the same cores)
void pin_some_cpus(int k, vf::Rng& r) {
  int ncpu = int(sysconf(_SC_NPROCESSORS_ONLN));
  if (k <= 0 || k >= ncpu) { vf::pin_cpus(0); return; }
  cpu_set_t set;
  CPU_ZERO(&set);
  int first = int(r.below(uint64_t(ncpu)));
  for (int i = 0; i < k; ++i) CPU_SET((first + i) % ncpu, &set);
  sched_setaffinity(0, sizeof set, &set);
}

// every kernel task of the process (library-created threads have no vf slot): state + current syscall
std::string all_tasks_dump() {
  std::string o = "kernel tasks:\n";
  DIR* d = opendir("/proc/self/task");
  if (!d) return o;
  while (struct dirent* e = readdir(d)) {
    if (e->d_name[0] == '.') continue;
    char p[128], st[512] = "", sc[256] = "";
    snprintf(p, sizeof p, "/proc/self/task/%s/stat", e->d_name);
    int fd = ::open(p, O_RDONLY);
    if (fd >= 0) { ssize_t n = ::read(fd, st, sizeof st - 1); if (n > 0) st[n] = 0; ::close(fd); }
    snprintf(p, sizeof p, "/proc/self/task/%s/syscall", e->d_name);
    fd = ::open(p, O_RDONLY);
    if (fd >= 0) { ssize_t n = ::read(fd, sc, sizeof sc - 1); if (n > 0) { sc[n] = 0; if (sc[n - 1] == '\n') sc[n - 1] = 0; } ::close(fd); }
    char* rp = strrchr(st, ')');
    o += vf::fmt("  tid %s state=%c syscall=[%.60s]\n", e->d_name, rp && rp[1] ? rp[2] : '?', sc);
  }
  closedir(d);
  return o;
}

const std::vector<std::string> kStallPoints = {
    "eq:empty_before_cas", "eq:empty_before_cas", "eq:empty_before_cas", "eq:pushed_before_signal",
    "eq:pushed_before_signal", "eq:submit_failed", "eq:launching", "bq:push_ticket", "cb:eq_item_assign", "cb:eq_consume",
    "cb:flaky_invoke"};

struct Totals {
  uint64_t items = 0, refusals = 0, launches = 0, enumerated_total = 0, enumerated_applied = 0, early_join_inflight = 0;
  std::string first_inflight_witness;
} g_tot;

void run_episode(Episode ep) {
  vf::Rng r(vf::mix(ep.seed, ep.index, 0xe9));
  double t_begin = vf::now_s();
  World w;
  w.ep = ep;
  // drawn before any thread of the episode exists (pool workers pass through vf::perturb and read the policy)
  w.ep.policy = vf::draw_policy(r, kStallPoints, 60, 6000);
  // executor
  ::babylon::Executor* base = nullptr;
  if (ep.base == 0) base = &::babylon::InplaceExecutor::instance();
  else if (ep.base == 2) base = &::babylon::AlwaysUseNewThreadExecutor::instance();
  else {
    w.pool.reset(new ::babylon::ThreadPoolExecutor);
    w.pool->set_worker_number(size_t(ep.pool_workers));
    w.pool->set_global_capacity(size_t(ep.pool_gcap));
    w.pool->start();
    base = w.pool.get();
  }
  w.flaky.base = base;
  w.flaky.sch = ep.sch;
  w.flaky.seed = vf::mix(ep.seed, ep.index, 0xf1a);
  w.exec = ep.wrapped ? static_cast<::babylon::Executor*>(&w.flaky) : base;
  // items
  w.items.resize(size_t(ep.producers));
  for (auto& v : w.items) v.reset(new Rec[ep.per_producer]);
  w.next_seq.assign(size_t(ep.producers), 0);
  w.order.assign(64, 0xff);
  w.q.reset(new Queue);
  World* wp = &w;
  w.q->initialize(ep.capacity, *w.exec, [wp](QIter b, QIter e) { consume(*wp, b, e); });
  w.ep.capacity = w.q->capacity();
  g_world = &w;
  vf::watchdog().set_context(w.ep.describe());
  pin_some_cpus(ep.pin, r);
  w.phase.store("producers-running", std::memory_order_relaxed);
  vf::watchdog().arm(true);

  uint64_t ep_seed = vf::mix(ep.seed, ep.index, 0x16);
  bool flaky = ep.flaky();
  int n_aux = (ep.joiner ? 1 : 0) + ((ep.signaller || flaky) ? 1 : 0);
  int threads = ep.producers + n_aux;
  vf::run_threads(threads, ep_seed, [&](int t) {
    vf::Rng tr(vf::mix(ep_seed, uint64_t(t), 9));
    if (t < ep.producers) {
      uint32_t s = 0;
      while (s < ep.per_producer && !vf::failed()) {
        uint32_t burst = uint32_t(tr.range(1, ep.max_burst));
        for (uint32_t b = 0; b < burst && s < ep.per_producer; ++b, ++s) {
          Rec& rec = w.items[size_t(t)][s];
          Item x(uint32_t(t), s, item_check(w.ep, uint32_t(t), s));
          bool by_copy = tr.chance(1, 3);
          tl_attempts = 0;
          tl_last_refused = false;
          vf::set_op("execute", s);
          rec.exec_call = vf::stamp_call();
          int rc = by_copy ? w.q->execute(static_cast<const Item&>(x)) : w.q->execute(std::move(x));
          rec.exec_ret = vf::stamp_ret();
          vf::set_op(nullptr);
          rec.rc = rc;
          w.submitted_total.fetch_add(1, std::memory_order_relaxed);
          vf::progress();
          check_rc(w, "execute()", rc);
        }
        if (ep.producer_joins && tr.chance(1, 3)) {
          do_join(w, t);
        } else if (tr.chance(1, ep.pause_1in)) {
          // idle gap: wait until my last item was handed to the consumer, so that the next push finds the
          // queue without consumer (new rising edge / new launch). Bounded by the watchdog.
          vf::set_op("wait-own-consumed", s - 1);
          Rec& last = w.items[size_t(t)][s - 1];
          while (last.consumed.load(std::memory_order_relaxed) == 0 && !vf::failed()) vf::raw_sleep_us(100);
          vf::set_op(nullptr);
        }
      }
      w.producers_done.fetch_add(1, std::memory_order_relaxed);
    } else if (ep.joiner && t == ep.producers) {
      while (w.producers_done.load(std::memory_order_relaxed) < ep.producers && !vf::failed()) {
        do_join(w, t);
        vf::raw_sleep_us(tr.range(5, 300));
      }
    } else {
      // recovery / spurious signaller thread: what the header recommends after a refused launch
      while (w.producers_done.load(std::memory_order_relaxed) < ep.producers && !vf::failed()) {
        vf::raw_sleep_us(tr.range(flaky ? 50 : 100, flaky ? 400 : 1500));
        tl_attempts = 0;
        tl_last_refused = false;
        vf::set_op("signal_push_event");
        int rc = w.q->signal_push_event();
        vf::set_op(nullptr);
        VF_COUNT("obs:extra_signals");
        check_rc(w, "signal_push_event()", rc);
      }
    }
  });

  // all producers returned; final phase
  if (!vf::failed()) {
    vf::thread_begin(ep_seed, threads);
    if (ep.wrapped) {
      // executor recovered: the next accepted signal must resume consumption of everything pending
      w.phase.store("final-signal-after-recovery", std::memory_order_relaxed);
      w.flaky.healthy_now.store(true, std::memory_order_relaxed);
      tl_attempts = 0;
      tl_last_refused = false;
      int rc = w.q->signal_push_event();
      check_rc(w, "signal_push_event() after recovery", rc);
      if (rc != 0 && !vf::failed()) {
        vf::violation("return-code", "signal_push_event() failed although the executor accepts launches again", w.ep.describe());
      }
    }
    w.phase.store("final-join", std::memory_order_relaxed);
    do_join(w, threads);
    vf::thread_end();
  }
  vf::watchdog().arm(false);
  w.phase.store("oracle", std::memory_order_relaxed);
  vf::pin_cpus(0);
  vf::disable_policy();
  if (ep.base == 2) ::babylon::AlwaysUseNewThreadExecutor::instance().join();
  if (w.pool) w.pool->stop();

  uint64_t total = uint64_t(ep.producers) * ep.per_producer;
  uint64_t launches = w.flaky.launches.load(), refused = w.flaky.refused.load();
  if (!vf::failed()) {
    // everything consumed exactly once at the return of the final join()
    for (int p = 0; p < ep.producers && !vf::failed(); ++p) {
      for (uint32_t s = 0; s < ep.per_producer; ++s) {
        uint32_t c = w.items[size_t(p)][s].consumed.load(std::memory_order_relaxed);
        if (c == 1) continue;
        if (c == 0) {
          vf::violation(flaky ? "item-stranded-after-recovery" : "item-lost",
                        vf::fmt("item (p%d,#%u): execute() returned, all producers finished, %sjoin() returned, but the "
                                "item was never handed to the consume function",
                                p, s, flaky ? "the executor recovered, a signal was accepted, " : ""),
                        item_history(w, uint32_t(p), s));
        } else {
          vf::violation("duplicate-delivery", vf::fmt("item (p%d,#%u) consumed %u times", p, s, c),
                        item_history(w, uint32_t(p), s));
        }
        break;
      }
    }
    if (!vf::failed() && w.inside.load() != 0) {
      vf::violation("concurrent-consumers", "consume function still marked running after join() returned", w.ep.describe());
    }
  }
  if (!vf::failed()) {
    // join(): everything whose execute() returned before join() was called is consumed when it returns
    for (const JoinRec& j : w.joins) {
      for (int p = 0; p < ep.producers; ++p) {
        Rec* v = w.items[size_t(p)].get();
        // last item of this producer with exec_ret < j.call (exec_ret is increasing in seq)
        uint32_t lo = 0, hi = ep.per_producer;
        while (lo < hi) {
          uint32_t mid = (lo + hi) / 2;
          if (v[mid].exec_ret != 0 && v[mid].exec_ret < j.call) lo = mid + 1; else hi = mid;
        }
        if (lo == 0) continue;
        Rec& x = v[lo - 1];
        if (x.consume_stamp <= j.ret) continue;
        if (flaky) continue;  // after a refused launch join() is documented to return with items pending
        // Not consumed when join() returned. Known shape: some item with an *earlier ticket* (delivered before x)
        // was still inside execute() while join() ran — the consumer found that slot unpublished, took the queue
        // for empty and reset the event counter, so join() saw 0.
        bool inflight = false;
        uint32_t by_p = 0, by_s = 0;
        for (int p2 = 0; p2 < ep.producers && !inflight; ++p2) {
          Rec* v2 = w.items[size_t(p2)].get();
          for (uint32_t s2 = 0; s2 < ep.per_producer; ++s2) {
            if (v2[s2].pos < x.pos && v2[s2].exec_ret > j.call && v2[s2].consume_stamp > j.ret) {
              inflight = true; by_p = uint32_t(p2); by_s = s2;
              break;
            }
          }
        }
        std::string detail = vf::fmt("join by t%d [%lu..%lu]; item (p%d,#%u) execute returned at %lu (rc=%d), consumed at %lu\n",
                                     j.thread, (unsigned long)j.call, (unsigned long)j.ret, p, lo - 1,
                                     (unsigned long)x.exec_ret, x.rc, (unsigned long)x.consume_stamp) +
                             item_history(w, uint32_t(p), lo - 1);
        if (inflight) {
          detail += vf::fmt("blocking earlier-ticket item: (p%u,#%u) execute[%lu..%lu] consumed at %lu\n", by_p, by_s,
                            (unsigned long)w.items[by_p][by_s].exec_call, (unsigned long)w.items[by_p][by_s].exec_ret,
                            (unsigned long)w.items[by_p][by_s].consume_stamp);
          ++g_tot.early_join_inflight;
          VF_COUNT("finding:join_early_while_earlier_push_in_flight");
          if (g_tot.first_inflight_witness.empty()) g_tot.first_inflight_witness = detail;
        } else {
          vf::violation("join-early",
                        "join() returned although an item whose execute() had returned before join() was called had not "
                        "been handed to the consume function (healthy executor, no earlier push in flight)", detail);
        }
        break;
      }
      if (vf::failed()) break;
    }
  }
  // evidence
  g_tot.items += total;
  g_tot.refusals += refused;
  g_tot.launches += launches;
  if (ep.sch.enumerated) {
    ++g_tot.enumerated_total;
    if (refused == ep.sch.planned()) { ++g_tot.enumerated_applied; VF_COUNT("obs:enumerated_schedule_fully_applied"); }
    else VF_COUNT("obs:enumerated_schedule_not_reached");
  }
  VF_COUNT_N("obs:items_consumed", w.consumed_total.load());
  if (launches >= 2) VF_COUNT("rare:consumer_relaunched");
  if (w.batches_plain > launches && ep.wrapped) VF_COUNT("obs:episodes_with_repoll");
  bool nontrivial = refused > 0 || launches >= 2 || w.blocked.load() > 0 || w.joins.size() > 1;
  uint64_t fp = vf::mix(vf::mix(ep.capacity, uint64_t(ep.producers), uint64_t(ep.base) * 2 + ep.wrapped,
                                std::hash<std::string> {}(ep.sch.describe() + vf::args().variant)),
                        ep.per_producer);
  for (size_t i = 0; i < w.order.size(); ++i) fp = vf::mix(fp, w.order[i]);
  vf::evaluated(fp, nontrivial);
  if (vf::report().samples.size() < 4 && (ep.index % 37 == 0 || flaky)) {
    std::string ord;
    for (size_t i = 0; i < 20 && i < w.pos_plain && i < w.order.size(); ++i) ord += vf::fmt("%sp%u", i ? " " : "", w.order[i]);
    vf::sample("{\"config\": " + vf::jstr(w.ep.describe()) + ", \"items\": " + std::to_string(total) +
               ", \"launches\": " + std::to_string(launches) + ", \"refused\": " + std::to_string(refused) +
               ", \"joins\": " + std::to_string(w.joins.size()) + ", \"first_deliveries\": " + vf::jstr(ord) + "}", 4);
  }
  g_world = nullptr;
  w.q.reset();
  w.pool.reset();
  if (vf::args().get("verbose", 0)) {
    fprintf(stderr, "[c16] %.3fs items=%lu launches=%lu blocked=%lu %s\n", vf::now_s() - t_begin, (unsigned long)total,
            (unsigned long)launches, (unsigned long)w.blocked.load(), w.ep.describe().c_str());
  }
}

Episode draw_common(uint64_t seed, uint64_t index, vf::Rng& r) {
  Episode ep;
  ep.seed = seed;
  ep.index = index;
  ep.capacity = r.pick<size_t>({1, 1, 2, 3, 4, 7, 8, 16, 33, 64});
  ep.producers = int(r.range(1, 8));
  bool big = vf::args().thorough && r.chance(1, 4);
  ep.per_producer = uint32_t(r.range(10, big ? 1500 : 160));
  ep.max_burst = uint32_t(r.pick<uint32_t>({1, 2, 4, 8, 32}));
  ep.pause_1in = uint32_t(r.pick<uint32_t>({1, 2, 4, 16}));
  ep.pool_workers = int(r.range(1, 4));
  ep.pool_gcap = int(r.pick<int>({1, 2, 8, 64}));
  ep.pin = r.chance(1, 4) ? int(r.range(1, 3)) : 0;
  return ep;
}

// a thread per consumer launch (up to one per item): keep those episodes small, thread creation costs
// ~0.1 ms plain and several ms under ASan (fake stacks)
void cap_newthread(Episode& ep) {
  if (ep.base != 2) return;
  uint32_t total = VF_ASAN ? 96 : 240;
  ep.per_producer = std::max<uint32_t>(10, std::min<uint32_t>(ep.per_producer, total / uint32_t(ep.producers)));
}

}  // namespace

int main(int argc, char** argv) {
  vf::init(argc, argv, "C16", "c16_execqueue");
  auto& a = vf::args();
  auto& wd = vf::watchdog();
  wd.classify = []() -> std::string {
    World* w = g_world;
    if (!w) return "";
    // Every schedule refuses only finitely many launches (or with probability < 1 among the first n), flaky
    // episodes run the recovery signaller, every consumer-side callback terminates: no progress is a violation --
    // unless the (trusted, real) executor has accepted a launch whose closure it has not begun to run yet: then
    // the queue under test is waiting for the environment (thread creation / worker wake-up), not the reverse.
    if (w->ep.wrapped && w->flaky.started.load(std::memory_order_relaxed) < w->flaky.accepted.load(std::memory_order_relaxed)) {
      return "";
    }
    return std::string("stuck:") + (w->ep.flaky() ? "flaky-with-recovery-thread:" : "healthy-executor:") +
           w->phase.load(std::memory_order_relaxed);
  };
  wd.dump_extra = []() -> std::string {
    World* w = g_world;
    if (!w || !w->q) return "";
    std::string pq;
    if (w->pool) {
      auto& g = w->pool->_global_task_queue;
      pq = vf::fmt("pool global queue{push=%zu pop=%zu cap=%zu} slot words:", g._next_push_index.load(), g._next_pop_index.load(),
                   g.capacity());
      for (size_t i = 0; i < g.capacity() && i < 32; ++i) {
        pq += vf::fmt(" [%zu]%p=0x%x", i, (void*)&g._slots.futex(i)._futex.value(), g._slots.futex(i)._futex.value().load());
      }
      pq += "\n";
    }
    return all_tasks_dump() + pq + vf::fmt("accepted=%lu started=%lu finished=%lu\n", (unsigned long)w->flaky.accepted.load(),
                   (unsigned long)w->flaky.started.load(), (unsigned long)w->flaky.finished.load()) + vf::fmt("events=%zu queue{push=%zu pop=%zu cap=%zu} consumed=%lu submitted=%lu producers_done=%d launches=%lu "
                   "refused=%lu inside=%d\n",
                   w->q->_events.load(), w->q->_queue._next_push_index.load(), w->q->_queue._next_pop_index.load(),
                   w->q->capacity(), (unsigned long)w->consumed_total.load(), (unsigned long)w->submitted_total.load(),
                   w->producers_done.load(), (unsigned long)w->flaky.launches.load(),
                   (unsigned long)w->flaky.refused.load(), w->inside.load());
  };
  wd.start();

  std::string mode = a.mode.empty() ? "all" : a.mode;
  uint64_t n_healthy = 0, n_enum = 0, n_rand = 0;
  if (mode == "all" || mode == "healthy") n_healthy = vf::budget(80, 4000);
  if (mode == "all" || mode == "enumerated") n_enum = a.thorough ? 63 * std::max<uint64_t>(1, uint64_t(4 * a.scale)) : 63;
  if (mode == "all" || mode == "random-faults") n_rand = vf::budget(30, 1500);
  if (a.kv.count("episodes") && mode == "enumerated") n_enum = uint64_t(a.get("episodes", 63));
  auto want = [&](uint64_t idx) { return a.only_episode < 0 || uint64_t(a.only_episode) == idx; };
  uint64_t e = 0;

  // 1. healthy executors (bare and behind the pass-through wrapper)
  for (uint64_t i = 0; i < n_healthy && !vf::failed(); ++i, ++e) {
    if (!want(e)) continue;
    vf::Rng r(vf::mix(a.seed, e, 0x4ea1));
    Episode ep = draw_common(a.seed, e, r);
    ep.base = int(r.below(3));
    ep.wrapped = !r.chance(1, 3);
    ep.joiner = r.chance(1, 2);
    ep.signaller = ep.wrapped ? r.chance(1, 3) : r.chance(1, 6);
    ep.producer_joins = r.chance(1, 2);
    cap_newthread(ep);
    run_episode(ep);
  }
  // 2. enumerated fault schedules: every single / double refusal among the first 6 launches x 3 executors
  {
    std::vector<Schedule> sch;
    for (uint64_t k = 1; k <= 6; ++k) { Schedule s; s.kind = Schedule::KTH; s.k1 = k; s.enumerated = true; sch.push_back(s); }
    for (uint64_t k = 1; k <= 6; ++k)
      for (uint64_t l = k + 1; l <= 6; ++l) { Schedule s; s.kind = Schedule::KTH; s.k1 = k; s.k2 = l; s.enumerated = true; sch.push_back(s); }
    for (uint64_t i = 0; i < n_enum && !vf::failed(); ++i, ++e) {
      if (!want(e)) continue;
      vf::Rng r(vf::mix(a.seed, e, 0xe4e4));
      Episode ep = draw_common(a.seed, e, r);
      ep.base = int((i / sch.size()) % 3);
      ep.sch = sch[i % sch.size()];
      ep.wrapped = true;
      // many rising edges: small bursts, producers wait for their items after every burst
      ep.producers = int(r.range(1, 4));
      ep.per_producer = uint32_t(r.range(12, 40));
      ep.max_burst = uint32_t(r.pick<uint32_t>({1, 2, 3}));
      ep.pause_1in = 1;
      run_episode(ep);
    }
  }
  // 3. randomized fault schedules: runs of refusals, probabilistic refusal, then recovery
  for (uint64_t i = 0; i < n_rand && !vf::failed(); ++i, ++e) {
    if (!want(e)) continue;
    vf::Rng r(vf::mix(a.seed, e, 0x7a9d));
    Episode ep = draw_common(a.seed, e, r);
    ep.base = int(r.below(3));
    ep.wrapped = true;
    cap_newthread(ep);
    switch (r.below(3)) {
      case 0: ep.sch.kind = Schedule::RUN; ep.sch.k1 = r.range(1, 8); ep.sch.k2 = r.range(2, 40); break;
      case 1: ep.sch.kind = Schedule::PROB; ep.sch.k1 = r.range(5, 200); ep.sch.num = uint32_t(r.range(1, 3)); ep.sch.den = 4; break;
      default: ep.sch.kind = Schedule::KTH; ep.sch.k1 = r.range(1, 30); ep.sch.k2 = ep.sch.k1 + r.range(1, 30); break;
    }
    run_episode(ep);
  }
  wd.shutdown();

  vf::extra("fault_schedules",
            vf::fmt("{\"enumerated_total\": %lu, \"enumerated_fully_applied\": %lu, \"space\": \"all single and double "
                    "refusals among the first 6 consumer launches x {inplace, pool, newthread}\", \"randomized\": %lu, "
                    "\"refusals_observed\": %lu, \"launches_observed\": %lu, \"items\": %lu}",
                    (unsigned long)g_tot.enumerated_total, (unsigned long)g_tot.enumerated_applied, (unsigned long)n_rand,
                    (unsigned long)g_tot.refusals, (unsigned long)g_tot.launches, (unsigned long)g_tot.items));
  if (g_tot.enumerated_total && g_tot.enumerated_applied * 10 < g_tot.enumerated_total * 8) {
    vf::shortfall(vf::fmt("only %lu of %lu enumerated fault schedules were fully applied (episode ended before the "
                          "scheduled launch number was reached)",
                          (unsigned long)g_tot.enumerated_applied, (unsigned long)g_tot.enumerated_total));
  }
  // Reported last so that it does not cut the exploration short (see notes/C16.md): a genuine early return of
  // join() on the unchanged tree, specific key for known_findings.
  if (g_tot.early_join_inflight > 0 && !vf::failed() && a.get("report-inflight", 1)) {
    vf::violation("join-early:earlier-push-in-flight",
                  vf::fmt("join() returned although an item whose execute() had returned before join() was called had not "
                          "been consumed: a push with an earlier ticket was still in flight, the consumer took its "
                          "unpublished slot for an empty queue and reset the event counter (%lu occurrences this run)",
                          (unsigned long)g_tot.early_join_inflight),
                  g_tot.first_inflight_witness);
  }
  return vf::finish();
}
