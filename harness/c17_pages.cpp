// C17 — page allocators and object pool (DESIGN §5 C17).
//
// modes:
//   pages        stacks of Cached / Batch / Counting allocators over a recording upstream, and
//                PageHeap; 2-12 threads, single and batched allocate/deallocate sized around the
//                cache capacity (compensating paths), upstream delays inside the reverse callbacks
//   pool-strict  ObjectPool without creator: N injected objects, blocking pop / try_pop, hold,
//                return through the deleter or push(), move-construction of the pooled unique_ptr
//   pool-auto    ObjectPool with creator + recycler: pop never blocks, overflow is destroyed
//   pool-moveassign  move-ASSIGNMENT of a pooled unique_ptr, executed in a forked child so that
//                the undefined behaviour of ObjectPool::Deleter::operator=(Deleter&&) (no return
//                statement) cannot take the other modes down
//   all          pages + pool-strict + pool-auto (default)
//
// Oracles: ownership map page -> holder (test-and-set on receipt, clear on return), page live
// upstream on receipt, holder pattern intact on return, upstream double/foreign free and "held
// page returned upstream", conservation at quiescence (upstream_live == held + cached +
// per-thread batch buffers), counting allocator == outstanding, upstream_live == held after the
// allocator died. Pool: in_use flag per object, outstanding <= N, created == destroyed + cached
// + held, recycler once per return, blocked pop resumes (stuck rule).
#include <sys/wait.h>

#include <deque>
#include <list>

#include "common/vf.h"

#include "babylon/concurrent/object_pool.h"
#include "babylon/reusable/page_allocator.h"

namespace {

std::string g_desc;

// The compensating loops of the bounded queue busy-wait without yielding while the opposite party
// "is on its way"; on an oversubscribed machine the spinners starve the one thread that can make
// progress (10^9 spins per run). The hook therefore yields at that point (a place where a
// preemptive thread can be descheduled anyway) and forwards only every 16th hit to the policy /
// the hit counter (point:bq:compensate counts 1/16 of the real hits).
void c17_hook(const char* name) noexcept {
  if (name[0] == 'b' && strcmp(name, "bq:compensate") == 0) {
    static thread_local unsigned n = 0;
    if ((++n & 15) != 0) {
      ::sched_yield();
      return;
    }
  }
  vf::perturb(name);
}

void fail(const std::string& key, const std::string& msg) { vf::violation(key, msg, g_desc); }

////////////////////////////////////////////////////////////////////////////////
// lock-free pointer table with one 32-bit value per key (relaxed atomics only)
struct PtrTable {
  static constexpr size_t N = 1 << 20;  // was 1<<15: a thorough PageHeap episode (capacity 64, 7 threads, batches of up to 129 system pages) filled it
  std::atomic<uintptr_t>* k;
  std::atomic<uint32_t>* v;
  std::atomic<int64_t> live {0};
  // indices ever written since the last clear(): clear() touches only those (a full sweep of 2^20 entries per
  // episode made the thorough tier crawl)
  std::atomic<uint32_t>* used;
  std::atomic<size_t> nused {0};
  PtrTable() : k(new std::atomic<uintptr_t>[N]), v(new std::atomic<uint32_t>[N]), used(new std::atomic<uint32_t>[N]) {
    for (size_t i = 0; i < N; ++i) { k[i].store(0, std::memory_order_relaxed); v[i].store(0, std::memory_order_relaxed); }
  }
  void clear() {
    size_t n = std::min(nused.load(std::memory_order_relaxed), N);
    for (size_t j = 0; j < n; ++j) {
      size_t i = used[j].load(std::memory_order_relaxed);
      k[i].store(0, std::memory_order_relaxed);
      v[i].store(0, std::memory_order_relaxed);
    }
    nused.store(0, std::memory_order_relaxed);
    live.store(0, std::memory_order_relaxed);
  }
  static size_t h(uintptr_t p) { return size_t(((p >> 6) * 0x9e3779b97f4a7c15ULL) >> 44); }
  long find(uintptr_t p) const {
    for (size_t i = h(p), n = 0; n < N; i = (i + 1) & (N - 1), ++n) {
      uintptr_t c = k[i].load(std::memory_order_relaxed);
      if (c == p) return long(i);
      if (c == 0) return -1;
    }
    return -1;
  }
  long insert(uintptr_t p) {  // -1: already present
    if (find(p) >= 0) return -1;
    for (size_t i = h(p), n = 0; n < N; i = (i + 1) & (N - 1), ++n) {
      uintptr_t c = k[i].load(std::memory_order_relaxed);
      while (c == 0 || c == 1) {
        if (k[i].compare_exchange_weak(c, p, std::memory_order_relaxed)) {
          if (c == 0) {  // first use of this slot since clear() (a tombstone was recorded when it was first used)
            size_t j = nused.fetch_add(1, std::memory_order_relaxed);
            if (j < N) used[j].store(uint32_t(i), std::memory_order_relaxed);
          }
          v[i].store(0, std::memory_order_relaxed);
          live.fetch_add(1, std::memory_order_relaxed);
          return long(i);
        }
      }
    }
    vf::inconclusive("harness: PtrTable full");
    return -1;
  }
  bool remove(uintptr_t p) {
    long i = find(p);
    if (i < 0) return false;
    uintptr_t c = p;
    if (!k[i].compare_exchange_strong(c, 1, std::memory_order_relaxed)) return false;
    live.fetch_sub(1, std::memory_order_relaxed);
    return true;
  }
  template <typename F>
  void for_each(F&& f) const {
    for (size_t i = 0; i < N; ++i) {
      uintptr_t c = k[i].load(std::memory_order_relaxed);
      if (c > 1) f(c, v[i].load(std::memory_order_relaxed));
    }
  }
};

constexpr size_t kPage = 256;
struct PageBody {  // what a holder writes into its page (plain memory: TSan sees a missing hand-off edge)
  uint64_t holder;
  uint64_t serial;
  uint64_t check;
  uint64_t fill[(kPage - 24) / 8];
};
static_assert(sizeof(PageBody) == kPage, "page layout");

// Recording upstream. value of a key = holder+1 while a client holds the page, 0 otherwise.
struct RecUp : public ::babylon::PageAllocator {
  PtrTable tab;
  std::atomic<uint64_t> n_alloc {0}, n_free {0};
  size_t page_size() const noexcept override { return kPage; }
  using PageAllocator::allocate;
  using PageAllocator::deallocate;
  void allocate(void** pages, size_t num) noexcept override {
    vf::perturb("cb:c17_upstream_allocate");
    for (size_t i = 0; i < num; ++i) {
      void* p = ::aligned_alloc(kPage, kPage);
      memset(p, 0xCD, kPage);
      if (tab.insert(uintptr_t(p)) < 0) vf::inconclusive("harness: malloc returned a live page twice");
      pages[i] = p;
    }
    n_alloc.fetch_add(num, std::memory_order_relaxed);
    VF_COUNT_N("obs:upstream_pages_allocated", num);
  }
  void deallocate(void** pages, size_t num) noexcept override {
    vf::perturb("cb:c17_upstream_deallocate");
    for (size_t i = 0; i < num; ++i) {
      void* p = pages[i];
      long s = tab.find(uintptr_t(p));
      if (s < 0) {
        fail("upstream-double-or-foreign-free", vf::fmt("page %p returned upstream although it is not outstanding there "
                                                        "(returned twice, or never obtained from upstream)", p));
        continue;
      }
      uint32_t holder = tab.v[s].load(std::memory_order_relaxed);
      if (holder != 0) {
        fail("held-page-returned-upstream", vf::fmt("page %p was returned upstream while client thread %u still holds it", p, holder - 1));
        continue;
      }
      if (!tab.remove(uintptr_t(p))) {
        fail("upstream-double-or-foreign-free", vf::fmt("page %p returned upstream twice at the same instant", p));
        continue;
      }
      memset(p, 0xDD, kPage);
      asm volatile("" : : "r"(p) : "memory");  // keep the poison store (dead-store elimination before free)
      ::free(p);
    }
    n_free.fetch_add(num, std::memory_order_relaxed);
    VF_COUNT_N("obs:upstream_pages_returned", num);
  }
  int64_t live() const { return tab.live.load(std::memory_order_relaxed); }
  void drain() {
    std::vector<uintptr_t> v;
    tab.for_each([&](uintptr_t p, uint32_t) { v.push_back(p); });
    for (auto p : v) { tab.remove(p); ::free(reinterpret_cast<void*>(p)); }
  }
};

////////////////////////////////////////////////////////////////////////////////
// pages mode
enum Shape { S_CACHED, S_BATCH_CACHED, S_COUNT_CACHED, S_COUNT_BATCH_CACHED, S_BATCH_COUNT_CACHED, S_HEAP, S_COUNT_ONLY, kShapes };
const char* kShapeNames[] = {"Cached>Up", "Batch>Cached>Up", "Counting>Cached>Up", "Counting>Batch>Cached>Up",
                             "Batch>Counting>Cached>Up", "PageHeap", "Counting>Up"};

struct Stack {
  Shape shape;
  RecUp* up = nullptr;
  ::babylon::CachedPageAllocator* cached = nullptr;
  ::babylon::BatchPageAllocator* batch = nullptr;
  ::babylon::CountingPageAllocator* counting = nullptr;
  ::babylon::PageHeap* heap = nullptr;
  ::babylon::PageAllocator* top = nullptr;
  size_t cap = 0, batch_size = 0;
  size_t batch_buffered() {
    size_t n = 0;
    if (batch)
      batch->_cache.for_each([&](::babylon::BatchPageAllocator::Slot* it, ::babylon::BatchPageAllocator::Slot* end) {
        for (; it != end; ++it) if (it->next_page < it->buffer.end()) n += size_t(it->buffer.end() - it->next_page);
      });
    return n;
  }
  size_t cached_pages() { return cached ? cached->free_page_num() : (heap ? heap->free_page_num() : 0); }
  // destroy top-down (an allocator must die before its upstream)
  void destroy() {
    if (shape == S_COUNT_BATCH_CACHED || shape == S_COUNT_CACHED || shape == S_COUNT_ONLY) { delete counting; counting = nullptr; }
    delete batch; batch = nullptr;
    delete counting; counting = nullptr;
    delete cached; cached = nullptr;
    delete heap; heap = nullptr;
    top = nullptr;
  }
};

struct PagesWorld {
  Stack st;
  PtrTable* holders = nullptr;          // for PageHeap (no recording upstream): page -> holder
  std::atomic<int64_t> held {0};
  std::atomic<uint64_t> serial {0};
  uint64_t seed = 0, e = 0;
  std::vector<std::vector<void*>> kept;  // pages still held per thread at the end
};

inline PtrTable& holder_table(PagesWorld& w) { return w.st.up ? w.st.up->tab : *w.holders; }

bool receive(PagesWorld& w, int t, void* p, const char* how) {
  if (p == nullptr) { fail("allocate-returned-null", vf::fmt("%s returned a null page", how)); return false; }
  if (uintptr_t(p) & (kPage - 1)) { fail("page-misaligned", vf::fmt("%s returned %p", how, p)); return false; }
  PtrTable& tab = holder_table(w);
  long s = tab.find(uintptr_t(p));
  if (s < 0) {
    if (w.st.up) {
      fail("page-not-live-upstream", vf::fmt("%s handed out page %p, which is not outstanding at the upstream allocator (already "
                                             "returned upstream, or never obtained from it)", how, p));
      return false;
    }
    s = tab.insert(uintptr_t(p));
    if (s < 0) s = tab.find(uintptr_t(p));
    if (s < 0) return false;
  }
  uint32_t expect = 0;
  if (!tab.v[s].compare_exchange_strong(expect, uint32_t(t) + 1, std::memory_order_relaxed)) {
    fail("page-handed-out-twice", vf::fmt("%s handed page %p to thread %d while thread %u holds it", how, p, t, expect - 1));
    return false;
  }
  w.held.fetch_add(1, std::memory_order_relaxed);
  auto* b = static_cast<PageBody*>(p);
  b->holder = uint64_t(t);
  b->serial = w.serial.fetch_add(1, std::memory_order_relaxed);
  b->check = vf::mix(b->holder, b->serial, uintptr_t(p));
  for (auto& f : b->fill) f = b->check;
  vf::progress();
  return true;
}
// before handing a page back
bool give_back(PagesWorld& w, int t, void* p) {
  auto* b = static_cast<PageBody*>(p);
  bool ok = b->holder == uint64_t(t) && b->check == vf::mix(b->holder, b->serial, uintptr_t(p));
  for (auto& f : b->fill) ok = ok && f == b->check;
  if (!ok) {
    fail("page-content-changed-while-held", vf::fmt("page %p held by thread %d no longer carries what its holder wrote "
                                                    "(holder field %lu): somebody else owns it too", p, t, (unsigned long)b->holder));
    return false;
  }
  PtrTable& tab = holder_table(w);
  long s = tab.find(uintptr_t(p));
  uint32_t expect = uint32_t(t) + 1;
  if (s < 0 || !tab.v[s].compare_exchange_strong(expect, 0, std::memory_order_relaxed)) {
    fail("ownership-map-corrupt", vf::fmt("page %p held by thread %d is not recorded as such", p, t));
    return false;
  }
  w.held.fetch_sub(1, std::memory_order_relaxed);
  return true;
}

void pages_worker(PagesWorld& w, int t, uint64_t nops, int bias) {
  vf::Rng r(vf::mix(w.seed, w.e, uint64_t(t), 0x17));
  auto& top = *w.st.top;
  std::vector<void*> mine;
  size_t cap = std::max<size_t>(w.st.cap, 1);
  size_t max_hold = 3 * cap + 8;
  auto pick_n = [&]() -> size_t {
    switch (r.below(8)) {
      case 0: return 1;
      case 1: return cap;
      case 2: return cap + 1;
      case 3: return cap > 1 ? cap - 1 : 1;
      case 4: return 2 * cap;
      case 5: return 2 * cap + 1;
      default: return size_t(r.range(1, 4));
    }
  };
  void* buf[160];
  for (uint64_t i = 0; i < nops && !vf::failed(); ++i) {
    bool want_alloc = mine.empty() || (mine.size() < max_hold && r.below(100) < uint64_t(bias));
    if (want_alloc) {
      if (r.chance(1, 3)) {
        vf::set_op("allocate()", 1);
        void* p = top.allocate();
        if (!receive(w, t, p, "allocate()")) break;
        mine.push_back(p);
      } else {
        size_t n = std::min<size_t>(pick_n(), 150);
        vf::set_op("allocate(pages,n)", n);
        for (size_t j = 0; j < n; ++j) buf[j] = nullptr;
        top.allocate(buf, n);
        bool ok = true;
        for (size_t j = 0; j < n && ok; ++j) ok = receive(w, t, buf[j], "allocate(pages, n)");
        if (!ok) break;
        mine.insert(mine.end(), buf, buf + n);
      }
    } else {
      // return a random subset
      if (r.chance(1, 3) || mine.size() == 1) {
        size_t idx = size_t(r.below(mine.size()));
        void* p = mine[idx];
        mine[idx] = mine.back();
        mine.pop_back();
        if (!give_back(w, t, p)) break;
        vf::set_op("deallocate(page)", 1);
        top.deallocate(p);
      } else {
        size_t n = std::min<size_t>(std::min<size_t>(pick_n(), mine.size()), 150);
        for (size_t j = 0; j < n; ++j) {
          size_t idx = size_t(r.below(mine.size()));
          buf[j] = mine[idx];
          mine[idx] = mine.back();
          mine.pop_back();
        }
        bool ok = true;
        for (size_t j = 0; j < n && ok; ++j) ok = give_back(w, t, buf[j]);
        if (!ok) break;
        vf::set_op("deallocate(pages,n)", n);
        top.deallocate(buf, n);
      }
      vf::progress();
    }
    if (r.chance(1, 16)) vf::perturb("cb:c17_client");
  }
  // keep a few pages beyond the allocator's life, return the rest
  size_t keep = vf::failed() ? mine.size() : size_t(r.below(4));
  while (mine.size() > keep && !vf::failed()) {
    void* p = mine.back();
    mine.pop_back();
    if (!give_back(w, t, p)) break;
    top.deallocate(p);
  }
  w.kept[size_t(t)] = mine;
}

RecUp* g_up = nullptr;
PtrTable* g_holders = nullptr;

void run_pages(uint64_t seed, uint64_t e) {
  vf::Rng r(vf::mix(seed, e, 0xc17a));
  PagesWorld w;
  w.seed = seed;
  w.e = e;
  Stack& st = w.st;
  st.shape = Shape(r.below(kShapes));
  st.cap = r.pick<size_t>({0, 1, 4, 64, 2, 16});
  st.batch_size = r.pick<size_t>({1, 4, 16});
  if (!g_up) g_up = new RecUp;
  if (!g_holders) g_holders = new PtrTable;
  g_up->tab.clear();
  g_up->n_alloc = 0;
  g_up->n_free = 0;
  g_holders->clear();
  w.holders = g_holders;
  if (st.shape != S_HEAP) st.up = g_up;
  ::babylon::PageAllocator* below = st.up;
  if (st.shape == S_HEAP) {
    st.heap = new ::babylon::PageHeap;
    st.heap->set_page_size(kPage);
    st.heap->set_free_page_capacity(st.cap);
    st.top = st.heap;
    st.cap = st.heap->free_page_capacity();
  } else {
    if (st.shape != S_COUNT_ONLY) {
      st.cached = new ::babylon::CachedPageAllocator;
      st.cached->set_upstream(*st.up);
      st.cached->set_free_page_capacity(st.cap);
      st.cap = st.cached->free_page_capacity();
      below = st.cached;
    }
    auto add_counting = [&] {
      st.counting = new ::babylon::CountingPageAllocator;
      st.counting->set_upstream(*below);
      below = st.counting;
    };
    auto add_batch = [&] {
      st.batch = new ::babylon::BatchPageAllocator;
      st.batch->set_upstream(*below);
      st.batch->set_batch_size(st.batch_size);
      below = st.batch;
    };
    switch (st.shape) {
      case S_BATCH_CACHED: add_batch(); break;
      case S_COUNT_CACHED: case S_COUNT_ONLY: add_counting(); break;
      case S_COUNT_BATCH_CACHED: add_batch(); add_counting(); break;
      case S_BATCH_COUNT_CACHED: add_counting(); add_batch(); break;
      default: break;
    }
    st.top = below;
  }
  // the compensating paths busy-wait (no yield while the opposite party "is on its way"): keep the
  // thread count near the core count and never pin the process to fewer CPUs than threads
  int threads = r.chance(1, 6) ? int(r.range(9, 12)) : int(r.range(2, 8));
  uint64_t nops = r.range(50, 400);
  int rounds = int(r.range(1, 3));
  std::string pol = vf::draw_policy(r, {"bq:compensate", "cb:c17_upstream_allocate", "cb:c17_upstream_deallocate", "bq:push_n_ticket",
                                        "bq:pop_n_ticket", "bq:try_n_before_cas", "bq:batch_versions_stored"}, 300, 3000);
  if (vf::policy().sleep_per_65536.load() > 64) vf::policy().sleep_per_65536.store(64);
  g_desc = vf::fmt("mode=pages seed=%lu episode=%lu stack=%s cache_capacity=%zu batch=%zu threads=%d ops=%lu rounds=%d policy=[%s]",
                   (unsigned long)seed, (unsigned long)e, kShapeNames[st.shape], st.cap, st.batch_size, threads, (unsigned long)nops,
                   rounds, pol.c_str());
  uint64_t comp0 = vf::counter_value("point:bq:compensate");
  if (st.top->page_size() != kPage) fail("page-size-wrong", vf::fmt("page_size()=%zu, upstream says %zu", st.top->page_size(), kPage));
  for (int round = 0; round < rounds && !vf::failed(); ++round) {
    w.kept.assign(size_t(threads), {});
    vf::watchdog().arm(true);
    vf::run_threads(threads, vf::mix(seed, e, uint64_t(round)), [&](int t) {
      // odd threads lean towards allocation, even towards returning: the cache runs empty and full
      pages_worker(w, t, nops, (t & 1) ? 70 : 45);
    });
    vf::watchdog().arm(false);
    if (vf::failed()) break;
    {  // a harness capacity problem (reported as inconclusive) must not be turned into violations by the oracles below
      std::lock_guard<std::mutex> g(vf::report().mu);
      if (!vf::report().inconclusive.empty()) return;
    }
    // quiescent: conservation
    int64_t held = w.held.load();
    int64_t kept = 0;
    for (auto& v : w.kept) kept += int64_t(v.size());
    if (held != kept) fail("harness-held-count", "harness bookkeeping: held != kept");
    if (st.up) {
      int64_t cached = int64_t(st.cached_pages()), buffered = int64_t(st.batch_buffered());
      if (st.up->live() != held + cached + buffered)
        fail("conservation-at-quiescence",
             vf::fmt("quiescent point: %ld pages outstanding upstream (obtained %lu, returned %lu) but clients hold %ld, the cache "
                     "holds %ld (free_page_num) and the per-thread batch buffers %ld", (long)st.up->live(),
                     (unsigned long)st.up->n_alloc.load(), (unsigned long)st.up->n_free.load(), (long)held, (long)cached, (long)buffered));
      if (cached > int64_t(st.cap))
        fail("cache-above-capacity", vf::fmt("free_page_num()=%ld exceeds the capacity %zu", (long)cached, st.cap));
    }
    if (st.counting) {
      int64_t expect = held + (st.shape == S_BATCH_COUNT_CACHED ? int64_t(st.batch_buffered()) : 0);
      if (int64_t(st.counting->allocated_page_num()) != expect)
        fail("counting-allocator-number", vf::fmt("CountingPageAllocator::allocated_page_num()=%zu but %ld pages are outstanding "
                                                  "through it", st.counting->allocated_page_num(), (long)expect));
    }
    if (st.heap) {
      if (int64_t(st.heap->allocate_page_num()) != held)
        fail("pageheap-allocate-page-num", vf::fmt("PageHeap::allocate_page_num()=%zu but clients hold %ld", st.heap->allocate_page_num(), (long)held));
      if (st.heap->free_page_num() > st.cap)
        fail("cache-above-capacity", vf::fmt("PageHeap::free_page_num()=%zu exceeds the capacity %zu", st.heap->free_page_num(), st.cap));
    }
    VF_COUNT("obs:quiescent_conservation_checks");
    // between rounds the kept pages go back (single-threaded)
    if (round + 1 < rounds) {
      for (size_t t = 0; t < w.kept.size(); ++t)
        for (void* p : w.kept[t]) { if (give_back(w, int(t), p)) st.top->deallocate(p); }
    }
  }
  vf::disable_policy();
  // destroy the stack while some pages are still held by clients
  if (!vf::failed()) {
    int64_t held = w.held.load();
    st.destroy();
    if (st.up && st.up->live() != held)
      fail("allocator-destruction-leaves-pages-upstream",
           vf::fmt("after the allocator stack died %ld pages are outstanding upstream but clients hold %ld (cache / batch buffers "
                   "not drained, or drained twice)", (long)st.up->live(), (long)held));
    VF_COUNT("obs:destruction_checks");
    // the clients return what they kept straight to the upstream
    for (size_t t = 0; t < w.kept.size(); ++t)
      for (void* p : w.kept[t]) {
        if (!give_back(w, int(t), p)) break;
        if (st.up) st.up->deallocate(p); else ::operator delete(p, kPage, ::std::align_val_t(kPage));
      }
    if (st.up && !vf::failed() && st.up->live() != 0) fail("harness-upstream-not-empty", "harness: upstream not empty at the end");
  } else {
    // leak on purpose after a violation
  }
  if (st.up && vf::failed()) st.up->drain();
  uint64_t comp = vf::counter_value("point:bq:compensate") - comp0;
  vf::evaluated(vf::mix(uint64_t(st.shape), st.cap, st.batch_size, vf::mix(uint64_t(threads), nops, uint64_t(rounds), comp)), comp > 0 || st.batch != nullptr);
  if (e < 3) vf::sample("{\"mode\": \"pages\", \"config\": " + vf::jstr(g_desc) + vf::fmt(", \"compensations\": %lu}", (unsigned long)comp));
}

////////////////////////////////////////////////////////////////////////////////
// object pool
struct PoolStats {
  std::atomic<int64_t> created {0}, destroyed {0}, outstanding {0}, max_outstanding {0}, recycled {0}, returns {0};
};
PoolStats* g_ps = nullptr;
struct Obj {
  static constexpr uint64_t kMagic = 0x0b7ec7900117ULL;
  uint64_t magic = kMagic;
  std::atomic<int> in_use {0};
  std::atomic<int> recycles {0};
  uint64_t payload = 0;  // plain: written by the holder, read by the next holder (TSan: hand-off edge)
  int id = 0;
  Obj() { g_ps->created.fetch_add(1, std::memory_order_relaxed); }
  ~Obj() {
    if (in_use.load(std::memory_order_relaxed) != 0)
      fail("object-destroyed-while-held", vf::fmt("pooled object %d was destroyed while a client holds it", id));
    magic = 0xdeadULL;
    g_ps->destroyed.fetch_add(1, std::memory_order_relaxed);
  }
};
using Pool = ::babylon::ObjectPool<Obj>;
using Pooled = ::std::unique_ptr<Obj, Pool::Deleter>;

struct PoolWorld {
  Pool* pool = nullptr;
  bool strict = true;
  int64_t n = 0;
  std::atomic<int> in_pop {0};
  std::atomic<bool> quiescing {false};
};
PoolWorld* g_pw = nullptr;

bool acquire(PoolWorld& w, Obj* o, int t, const char* how) {
  if (o->magic != Obj::kMagic) { fail("pool-returned-dead-object", vf::fmt("%s returned an object that is already destroyed", how)); return false; }
  if (o->in_use.exchange(1, std::memory_order_relaxed) != 0) {
    fail("object-handed-out-twice", vf::fmt("%s handed object %d to thread %d while another client holds it", how, o->id, t));
    return false;
  }
  int64_t now = g_ps->outstanding.fetch_add(1, std::memory_order_relaxed) + 1;
  int64_t mx = g_ps->max_outstanding.load(std::memory_order_relaxed);
  while (now > mx && !g_ps->max_outstanding.compare_exchange_weak(mx, now, std::memory_order_relaxed)) {}
  if (w.strict && now > w.n) {
    fail("strict-pool-outstanding-above-n", vf::fmt("%ld objects outstanding from a strict pool holding %ld", (long)now, (long)w.n));
    return false;
  }
  o->payload = vf::mix(uint64_t(t), o->payload);
  vf::progress();
  return true;
}
void before_return(Obj* o) {
  o->payload += 1;
  g_ps->returns.fetch_add(1, std::memory_order_relaxed);
  g_ps->outstanding.fetch_sub(1, std::memory_order_relaxed);
  o->in_use.store(0, std::memory_order_relaxed);
}

// NOTE: nothing in this function move-ASSIGNS a pooled unique_ptr (no vector erase, no std::swap):
// that operation is undefined behaviour on the unchanged tree and lives in mode pool-moveassign.
void pool_worker(PoolWorld& w, int t, uint64_t cycles, uint64_t seed) {
  vf::Rng r(vf::mix(seed, uint64_t(t), 0x9001));
  Pool& pool = *w.pool;
  std::list<Pooled> held;
  size_t max_hold = w.strict ? 1 : size_t(r.range(1, 6));
  for (uint64_t i = 0; i < cycles && !vf::failed(); ++i) {
    if (held.size() < max_hold && (held.empty() || r.chance(2, 3))) {
      bool use_try = r.chance(1, 3);
      const char* how = use_try ? "try_pop()" : "pop()";
      vf::set_op(how);
      if (!use_try) w.in_pop.fetch_add(1, std::memory_order_relaxed);
      Pooled q = use_try ? pool.try_pop() : pool.pop();
      if (!use_try) w.in_pop.fetch_sub(1, std::memory_order_relaxed);
      if (!q) {
        if (!use_try) { fail("pop-returned-empty", "pop() returned an empty pointer"); break; }
        VF_COUNT("obs:try_pop_empty");
        if (w.strict) ::sched_yield();
        continue;
      }
      Pooled p(std::move(q));  // move-construction
      if (!acquire(w, p.get(), t, how)) { p.release(); break; }
      held.emplace_back(std::move(p));  // move-construction again
      VF_COUNT("obs:pooled_ptr_move_constructed");
      vf::perturb("cb:c17_pool_hold");
    } else {
      auto it = held.begin();
      std::advance(it, long(r.below(held.size())));
      Pooled p(std::move(*it));
      held.erase(it);
      before_return(p.get());
      switch (r.below(3)) {
        case 0: p.reset(); break;                  // through the deleter
        case 1: pool.push(std::move(p)); break;    // push(unique_ptr<T, Deleter>&&)
        default: {                                  // push(unique_ptr<T>&&)
          ::std::unique_ptr<Obj> plain(p.release());
          pool.push(std::move(plain));
          // auto-create pool at capacity: the object stays with the caller, who destroys it
          if (plain) VF_COUNT("rare:pool_overflow_left_with_caller");
          break;
        }
      }
      vf::progress();
    }
  }
  while (!held.empty()) {
    Pooled p(std::move(held.back()));
    held.pop_back();
    if (p) before_return(p.get());
  }
}

void run_pool(uint64_t seed, uint64_t e, bool strict) {
  vf::Rng r(vf::mix(seed, e, strict ? 0x57 : 0xa7));
  PoolStats ps;
  g_ps = &ps;
  PoolWorld w;
  g_pw = &w;
  w.strict = strict;
  w.n = int64_t(r.pick<int64_t>({1, 2, 3, 4, 8, 16}));
  int threads = r.chance(1, 6) ? int(r.range(9, 12)) : int(r.range(2, 8));
  uint64_t cycles = r.range(50, 800);
  std::string pol = vf::draw_policy(r, {"cb:c17_pool_hold", "bq:compensate", "bq:wait_registered", "bq:single_before_wake", "bq:pop_ticket",
                                        "bq:push_ticket", "bq:try_before_cas"}, 300, 3000);
  if (vf::policy().sleep_per_65536.load() > 64) vf::policy().sleep_per_65536.store(64);
  g_desc = vf::fmt("mode=%s seed=%lu episode=%lu capacity=%ld threads=%d cycles=%lu policy=[%s]", strict ? "pool-strict" : "pool-auto",
                   (unsigned long)seed, (unsigned long)e, (long)w.n, threads, (unsigned long)cycles, pol.c_str());
  w.pool = new Pool;
  w.pool->reserve_and_clear(size_t(w.n));
  std::atomic<int> next_id {0};
  w.pool->set_recycler([&](Obj& o) {
    o.recycles.fetch_add(1, std::memory_order_relaxed);
    ps.recycled.fetch_add(1, std::memory_order_relaxed);
    if (o.in_use.load(std::memory_order_relaxed) != 0) fail("recycler-on-held-object", "the recycler ran on an object a client still holds");
    vf::perturb("cb:c17_pool_recycle");
  });
  if (!strict) {
    w.pool->set_creator([&]() {
      vf::perturb("cb:c17_pool_create");
      auto o = ::std::unique_ptr<Obj>(new Obj);
      o->id = next_id.fetch_add(1, std::memory_order_relaxed);
      VF_COUNT("obs:pool_objects_created");
      return o;
    });
  } else {
    for (int64_t i = 0; i < w.n; ++i) {
      auto o = ::std::unique_ptr<Obj>(new Obj);
      o->id = next_id.fetch_add(1, std::memory_order_relaxed);
      w.pool->push(std::move(o));
    }
    if (int64_t(w.pool->free_object_number()) != w.n) fail("strict-pool-inject", "injected objects are not all in the pool");
  }
  int64_t injected_recycles = ps.recycled.load();
  uint64_t comp0 = vf::counter_value("point:bq:compensate"), wait0 = vf::counter_value("point:bq:wait_registered");
  vf::watchdog().arm(true);
  vf::run_threads(threads, vf::mix(seed, e, 0x7001), [&](int t) { pool_worker(w, t, cycles, vf::mix(seed, e)); });
  vf::watchdog().arm(false);
  vf::disable_policy();
  if (!vf::failed()) {
    int64_t cached = int64_t(w.pool->free_object_number());
    int64_t created = ps.created.load(), destroyed = ps.destroyed.load(), out = ps.outstanding.load();
    if (out != 0) fail("harness-outstanding", "harness bookkeeping: outstanding != 0 at the end");
    if (created != destroyed + cached)
      fail("pool-conservation", vf::fmt("at quiescence: created %ld != destroyed %ld + cached %ld (+ held 0)", (long)created,
                                        (long)destroyed, (long)cached));
    if (strict && (cached != w.n || destroyed != 0))
      fail("strict-pool-lost-object", vf::fmt("strict pool of %ld objects ends with %ld cached, %ld destroyed", (long)w.n, (long)cached, (long)destroyed));
    if (ps.recycled.load() - injected_recycles != ps.returns.load())
      fail("recycler-count", vf::fmt("%ld objects were returned but the recycler ran %ld times", (long)ps.returns.load(),
                                     (long)(ps.recycled.load() - injected_recycles)));
    if (!strict && destroyed > 0) VF_COUNT_N("rare:pool_overflow_destroyed", uint64_t(destroyed));
    delete w.pool;
    w.pool = nullptr;
    if (ps.created.load() != ps.destroyed.load())
      fail("pool-destruction-leaks", vf::fmt("after the pool died: created %ld, destroyed %ld", (long)ps.created.load(), (long)ps.destroyed.load()));
    VF_COUNT("obs:pool_episodes_checked");
  }
  uint64_t comp = vf::counter_value("point:bq:compensate") - comp0, waits = vf::counter_value("point:bq:wait_registered") - wait0;
  if (strict && waits) VF_COUNT_N("rare:strict_pop_blocked", waits);
  vf::evaluated(vf::mix(uint64_t(strict), uint64_t(w.n), uint64_t(threads), vf::mix(cycles, comp, waits, uint64_t(ps.max_outstanding.load()))),
                strict ? waits > 0 : (comp > 0 || ps.destroyed.load() > 0));
  if (e < 2 || (e & 31) == 0)
    vf::sample("{\"mode\": " + vf::jstr(strict ? "pool-strict" : "pool-auto") + ", \"config\": " + vf::jstr(g_desc) +
               vf::fmt(", \"created\": %ld, \"max_outstanding\": %ld, \"returns\": %ld, \"blocked_pops\": %lu, \"compensations\": %lu}",
                       (long)ps.created.load(), (long)ps.max_outstanding.load(), (long)ps.returns.load(), (unsigned long)waits,
                       (unsigned long)comp), 6);
  g_pw = nullptr;
  g_ps = nullptr;
}

////////////////////////////////////////////////////////////////////////////////
// move-assignment of a pooled unique_ptr, in a forked child (single-threaded at this point)
int moveassign_child(uint64_t variant) {
  PoolStats ps;
  g_ps = &ps;
  {
    Pool pool;
    pool.reserve_and_clear(4);
    for (int i = 0; i < 4; ++i) {
      auto o = ::std::unique_ptr<Obj>(new Obj);
      o->id = i;
      pool.push(std::move(o));
    }
    Pooled a = pool.pop();
    Obj* oa = a.get();
    if (variant == 0) {
      Pooled b;          // empty target
      b = std::move(a);  // <- ObjectPool<T>::Deleter::operator=(Deleter&&)
      if (a || b.get() != oa) return 21;
      b.reset();
      if (pool.free_object_number() != 4) return 22;
    } else {
      Pooled b = pool.pop();  // target owns another object, which must go back to the pool
      b = std::move(a);
      if (a || b.get() != oa) return 23;
      if (pool.free_object_number() != 3) return 24;  // b's previous object went back through b's deleter
      b.reset();
      if (pool.free_object_number() != 4) return 25;
    }
  }
  if (ps.created.load() != ps.destroyed.load()) return 26;
  return 0;
}

void run_moveassign(uint64_t seed, uint64_t e) {
  uint64_t variant = e & 1;
  g_desc = vf::fmt("mode=pool-moveassign seed=%lu episode=%lu: pool of 4; Pooled a = pool.pop(); Pooled b%s; b = std::move(a); "
                   "(executed in a forked child)", (unsigned long)seed, (unsigned long)e, variant ? " = pool.pop()" : "");
  fflush(nullptr);
  pid_t pid = fork();
  if (pid == 0) {
    alarm(8);  // undefined behaviour may also loop (it does at -O2)
    int rc = moveassign_child(variant);
    _exit(rc);
  }
  int status = 0;
  if (pid < 0 || waitpid(pid, &status, 0) != pid) { vf::inconclusive("fork/waitpid failed"); return; }
  bool ok = WIFEXITED(status) && WEXITSTATUS(status) == 0;
  if (!ok) {
    std::string how = WIFSIGNALED(status) ? vf::fmt("child killed by signal %d", WTERMSIG(status))
                                          : vf::fmt("child exited with code %d (21-26: wrong result, 66-68: sanitizer report)", WEXITSTATUS(status));
    fail("pool-deleter-move-assign-ub",
         "move-assigning a pooled unique_ptr (std::unique_ptr<T, ObjectPool<T>::Deleter>::operator=(&&) -> "
         "ObjectPool<T>::Deleter::operator=(Deleter&&), which has no return statement) does not complete normally: " + how);
    VF_COUNT("obs:moveassign_child_failed");
  } else {
    VF_COUNT("obs:moveassign_child_ok");
  }
  vf::evaluated(vf::mix(variant, 0x3a), true);
  if (e < 2) vf::sample("{\"mode\": \"pool-moveassign\", \"config\": " + vf::jstr(g_desc) + vf::fmt(", \"child_status\": %d}", status));
}

}  // namespace

int main(int argc, char** argv) {
  vf::init(argc, argv, "C17", "c17_pages");
#ifdef BABYLON_VERIF
  ::babylon::verif::point_hook = &c17_hook;
#endif
  auto& a = vf::args();
  std::string mode = a.mode.empty() ? "all" : a.mode;
  if (mode == "pool-moveassign") {
    // no other thread exists yet: fork is safe under every sanitizer
    for (uint64_t e = 0; e < 2; ++e) run_moveassign(a.seed, e);
    return vf::finish();
  }
  auto& wd = vf::watchdog();
  wd.classify = []() -> std::string {
    PoolWorld* w = g_pw;
    if (w && w->strict && g_ps && g_ps->outstanding.load() == 0 && w->in_pop.load() > 0)
      return "stuck:strict-pool-pop-never-resumed";  // every object is back in the pool, poppers still wait
    if (w && !w->strict) return "stuck:auto-pool-operation-never-returned";
    if (!w) return "stuck:page-allocator-operation-never-returned";  // compensating paths never block
    return "";
  };
  wd.dump_extra = []() -> std::string {
    PoolWorld* w = g_pw;
    if (!w || !w->pool || !g_ps) return "";
    return vf::fmt("pool: free_object_number=%zu outstanding=%ld in_pop=%d\n", w->pool->free_object_number(), (long)g_ps->outstanding.load(),
                   w->in_pop.load());
  };
  wd.start();
  uint64_t n_pages = 0, n_strict = 0, n_auto = 0;
  if (mode == "all") { n_pages = vf::budget(36, 4000); n_strict = vf::budget(30, 1500); n_auto = vf::budget(30, 1500); }
  else if (mode == "pages") n_pages = vf::budget(36, 4000);
  else if (mode == "pool-strict") n_strict = vf::budget(30, 1500);
  else if (mode == "pool-auto") n_auto = vf::budget(30, 1500);
  uint64_t e = 0;
  auto want = [&](uint64_t idx) { return a.only_episode < 0 || uint64_t(a.only_episode) == idx; };
  for (uint64_t i = 0; i < n_pages && !vf::failed(); ++i, ++e) if (want(e)) run_pages(a.seed, e);
  for (uint64_t i = 0; i < n_strict && !vf::failed(); ++i, ++e) if (want(e)) run_pool(a.seed, e, true);
  for (uint64_t i = 0; i < n_auto && !vf::failed(); ++i, ++e) if (want(e)) run_pool(a.seed, e, false);
  wd.shutdown();
  if (vf::failed()) {
    int code = vf::finish();
    _exit(code);  // objects of the failing episode are leaked on purpose
  }
  return vf::finish();
}
