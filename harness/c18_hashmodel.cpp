// C18 — ConcurrentTransientHashSet / ConcurrentTransientHashMap against
// std::unordered_map as reference container, purely sequential (DESIGN §5 C18).
//
// One evaluation = one seeded operation sequence over two container instances of
// one element kind:
//   construct(default | n), emplace / insert(const&) / insert(&&) / try_emplace /
//   operator[], find / contains / count, clear, reserve, rehash, copy-construct,
//   copy-assign, move-construct, move-assign, swap, iterate, size, empty
// with key bursts that force 0..5+ chained growth steps. After every operation the
// touched containers are compared with the model: size(), empty(), the set of
// iterated elements (each exactly once, mapped values), find/contains/count of
// every reference key and of a few absent keys.
//
// kinds (--mode): set_int, set_str, map_str (string -> string), map_mo (uint64 ->
// move-only value), fixed_int / fixed_str (ConcurrentFixedSwissTable: never grows,
// an insertion into a saturated table returns end(); a default-constructed one is
// "empty and full"), all (default).
//
// Known-defect patterns get their own violation keys, the affected comparison is
// skipped (and the model re-synchronised when elements were really lost) and the
// sequence goes on, so that any *other* divergence is still reported:
//   size-mismatch:default-constructed-chained, empty-mismatch:default-constructed-chained,
//   iteration-short:default-constructed-chained, copy-short:default-constructed-chained,
//   reserve-drops:default-constructed-chained, rehash-drops:default-constructed-chained
// Every other key stops the run.
#include <memory>
#include <optional>
#include <unordered_map>
#include <unordered_set>

#include "common/vf.h"

#include "babylon/concurrent/transient_hash_table.h"

namespace {

using babylon::ConcurrentFixedSwissTable;
using babylon::ConcurrentTransientHashMap;
using babylon::ConcurrentTransientHashSet;
using Group = babylon::internal::concurrent_transient_hash_table::Group;

bool g_stop = false;  // an unclassified divergence was found
std::set<std::string> g_reported;

////////////////////////////////////////////////////////////////////////////////
// move-only mapped value with a live-object counter
int64_t g_mo_live = 0;
struct MoVal {
  static constexpr uint64_t MOVED = ~0ull;
  uint64_t id;
  MoVal() : id(0) { ++g_mo_live; }
  explicit MoVal(uint64_t i) : id(i) { ++g_mo_live; }
  MoVal(MoVal&& o) noexcept : id(o.id) { o.id = MOVED; ++g_mo_live; }
  MoVal& operator=(MoVal&& o) noexcept { id = o.id; o.id = MOVED; return *this; }
  MoVal(const MoVal&) = delete;
  MoVal& operator=(const MoVal&) = delete;
  ~MoVal() { --g_mo_live; }
};

////////////////////////////////////////////////////////////////////////////////
// Element kinds
enum KeyStyle { KS_SEQ, KS_TAG128, KS_RANDOM, KS_NSTYLES };

inline uint64_t int_key(uint64_t id, int style, uint64_t salt) {
  switch (style) {
    case KS_SEQ: return id;
    case KS_TAG128: return id * 128 + (salt & 127);  // std::hash<uint64_t> is the identity: one 7-bit tag for all keys
    default: return vf::mix(id, salt);
  }
}
inline std::string str_key(uint64_t id, int style, uint64_t salt) {
  switch (style) {
    case KS_SEQ: return "k" + std::to_string(id);
    case KS_TAG128: return "key-with-a-long-prefix-beyond-sso-" + std::to_string(id);
    default: return std::to_string(vf::mix(id, salt));
  }
}
inline std::string str_val(uint64_t vid) { return vid == 0 ? std::string() : "v" + std::to_string(vid) + (vid % 3 == 0 ? std::string(24, 'x') : std::string()); }
inline uint64_t str_val_id(const std::string& s) {
  if (s.empty()) return 0;
  if (s[0] != 'v') return ~0ull - 1;
  return strtoull(s.c_str() + 1, nullptr, 10);
}

struct SetInt {
  using C = ConcurrentTransientHashSet<uint64_t>;
  using K = uint64_t;
  static constexpr bool is_map = false, copyable = true, fixed = false;
  static const char* name() { return "set_int"; }
  static K key(uint64_t id, int style, uint64_t salt) { return int_key(id, style, salt); }
  static const K& key_of(const uint64_t& v) { return v; }
  static uint64_t val_of(const uint64_t&) { return 0; }
  static std::string show(const K& k) { return std::to_string(k); }
  static auto emplace(C& c, const K& k, uint64_t, int variant) {
    switch (variant % 3) {
      case 0: return c.emplace(k);
      case 1: return c.insert(k);
      default: { K tmp = k; return c.insert(std::move(tmp)); }
    }
  }
  static const char* variant_name(int v) { static const char* n[] = {"emplace", "insert(const&)", "insert(&&)"}; return n[v % 3]; }
  static constexpr int variants = 3;
  template <typename CC> static auto find(CC& c, const K& k, int) { return c.find(k); }
};

struct SetStr {
  using C = ConcurrentTransientHashSet<std::string>;
  using K = std::string;
  static constexpr bool is_map = false, copyable = true, fixed = false;
  static const char* name() { return "set_str"; }
  static K key(uint64_t id, int style, uint64_t salt) { return str_key(id, style, salt); }
  static const K& key_of(const std::string& v) { return v; }
  static uint64_t val_of(const std::string&) { return 0; }
  static std::string show(const K& k) { return k; }
  static auto emplace(C& c, const K& k, uint64_t, int variant) {
    switch (variant % 4) {
      case 0: return c.emplace(k);
      case 1: return c.emplace(k.c_str());  // heterogeneous key
      case 2: return c.insert(k);
      default: { K tmp = k; return c.insert(std::move(tmp)); }
    }
  }
  static const char* variant_name(int v) { static const char* n[] = {"emplace", "emplace(const char*)", "insert(const&)", "insert(&&)"}; return n[v % 4]; }
  static constexpr int variants = 4;
  template <typename CC> static auto find(CC& c, const K& k, int variant) { return (variant & 1) ? c.find(k.c_str()) : c.find(k); }
};

struct MapStr {
  using C = ConcurrentTransientHashMap<std::string, std::string>;
  using K = std::string;
  static constexpr bool is_map = true, copyable = true, fixed = false;
  static const char* name() { return "map_str"; }
  static K key(uint64_t id, int style, uint64_t salt) { return str_key(id, style, salt); }
  static const K& key_of(const std::pair<const std::string, std::string>& v) { return v.first; }
  static uint64_t val_of(const std::pair<const std::string, std::string>& v) { return str_val_id(v.second); }
  static std::string show(const K& k) { return k; }
  // variants: 0 emplace(k, v), 1 try_emplace(k, v), 2 insert(const pair&), 3 insert(pair&&), 4 emplace(k) [default mapped]
  static auto emplace(C& c, const K& k, uint64_t vid, int variant) {
    switch (variant % 5) {
      case 0: return c.emplace(k, str_val(vid));
      case 1: return c.try_emplace(k.c_str(), str_val(vid));
      case 2: { std::pair<const std::string, std::string> p(k, str_val(vid)); return c.insert(p); }
      case 3: { std::pair<const std::string, std::string> p(k, str_val(vid)); return c.insert(std::move(p)); }
      default: return c.emplace(k);
    }
  }
  static bool variant_default_mapped(int v) { return v % 5 == 4; }
  static const char* variant_name(int v) { static const char* n[] = {"emplace(k,v)", "try_emplace", "insert(const&)", "insert(&&)", "emplace(k)"}; return n[v % 5]; }
  static constexpr int variants = 5;
  template <typename CC> static auto find(CC& c, const K& k, int variant) { return (variant & 1) ? c.find(k.c_str()) : c.find(k); }
  static uint64_t index_get(C& c, const K& k) { return str_val_id(c[k]); }
  static void index_set(C& c, const K& k, uint64_t vid) { c[k] = str_val(vid); }
};

struct MapMo {
  using C = ConcurrentTransientHashMap<uint64_t, MoVal>;
  using K = uint64_t;
  static constexpr bool is_map = true, copyable = false, fixed = false;
  static const char* name() { return "map_mo"; }
  static K key(uint64_t id, int style, uint64_t salt) { return int_key(id, style, salt); }
  static const K& key_of(const std::pair<const uint64_t, MoVal>& v) { return v.first; }
  static uint64_t val_of(const std::pair<const uint64_t, MoVal>& v) { return v.second.id; }
  static std::string show(const K& k) { return std::to_string(k); }
  // variants: 0 emplace(k, id), 1 try_emplace(k, MoVal&&), 2 insert(pair&&), 3 emplace(k) [default mapped]
  static auto emplace(C& c, const K& k, uint64_t vid, int variant) {
    switch (variant % 4) {
      case 0: return c.emplace(k, vid);
      case 1: return c.try_emplace(k, MoVal(vid));
      case 2: { std::pair<const uint64_t, MoVal> p(k, MoVal(vid)); return c.insert(std::move(p)); }
      default: return c.emplace(k);
    }
  }
  static bool variant_default_mapped(int v) { return v % 4 == 3; }
  static const char* variant_name(int v) { static const char* n[] = {"emplace(k,v)", "try_emplace(&&)", "insert(&&)", "emplace(k)"}; return n[v % 4]; }
  static constexpr int variants = 4;
  template <typename CC> static auto find(CC& c, const K& k, int) { return c.find(k); }
  static uint64_t index_get(C& c, const K& k) { return c[k].id; }
  static void index_set(C& c, const K& k, uint64_t vid) { c[k] = MoVal(vid); }
};


// ConcurrentFixedSwissTable: same traits, other container
struct FixedInt : SetInt {
  using C = ConcurrentFixedSwissTable<uint64_t>;
  static constexpr bool fixed = true;
  static const char* name() { return "fixed_int"; }
  static auto emplace(C& c, const K& k, uint64_t, int variant) {
    switch (variant % 3) {
      case 0: return c.emplace(k);
      case 1: return c.insert(k);
      default: { K tmp = k; return c.insert(std::move(tmp)); }
    }
  }
};
struct FixedStr : SetStr {
  using C = ConcurrentFixedSwissTable<std::string>;
  static constexpr bool fixed = true;
  static const char* name() { return "fixed_str"; }
  static auto emplace(C& c, const K& k, uint64_t, int variant) {
    switch (variant % 4) {
      case 0: return c.emplace(k);
      case 1: return c.emplace(k.c_str());
      case 2: return c.insert(k);
      default: { K tmp = k; return c.insert(std::move(tmp)); }
    }
  }
};

////////////////////////////////////////////////////////////////////////////////
// internal state used only to *classify* a divergence (never to detect one)
struct St {
  bool head_dummy = false;
  int chain = 0;              // tables behind the head
  size_t first_chained = 0;   // elements in the first chained table
  size_t stored = 0;          // elements over all tables (per-table iteration)
};
template <typename T, typename H, typename E>
St state_of(ConcurrentFixedSwissTable<T, H, E>& c) {
  St s;
  s.head_dummy = c._controls == Group::s_dummy_controls;
  s.stored = c.size();
  return s;
}
template <typename C>
St state_of(C& c) {
  St s;
  s.head_dummy = c._head.table._controls == Group::s_dummy_controls;
  auto* node = c._head.next.load(std::memory_order_relaxed);
  s.stored = c._head.table.size();
  while (node) {
    if (s.chain == 0) s.first_chained = node->table.size();
    s.stored += node->table.size();
    ++s.chain;
    node = node->next.load(std::memory_order_relaxed);
  }
  return s;
}

////////////////////////////////////////////////////////////////////////////////
template <typename Tr>
struct Session {
  using C = typename Tr::C;
  using K = typename Tr::K;
  using Model = std::unordered_map<K, uint64_t>;

  vf::Rng rng;
  uint64_t seed, caseno;
  int style;
  uint64_t salt;
  std::unique_ptr<C> c[2];
  Model m[2];
  uint64_t next_id = 1;
  std::vector<K> gone;  // keys that were dropped by a clear / re-construction (may be re-inserted later)
  std::vector<std::string> oplog;
  uint64_t ophash = 0;
  bool boundary = false;
  int max_chain = 0;
  uint64_t nops = 0;

  Session(uint64_t s, uint64_t cn) : rng(vf::mix(s, cn, 0xc18)), seed(s), caseno(cn) {
    style = int(rng.below(KS_NSTYLES));
    salt = rng.next();
  }

  std::string detail(const std::string& extra) {
    std::string d = vf::fmt("kind=%s seed=%lu case=%lu key_style=%d\n", Tr::name(), (unsigned long)seed, (unsigned long)caseno, style);
    d += extra + "\noperations so far (last 40 of " + std::to_string(oplog.size()) + "):\n";
    size_t from = oplog.size() > 40 ? oplog.size() - 40 : 0;
    for (size_t i = from; i < oplog.size(); ++i) d += vf::fmt("  #%zu %s\n", i, oplog[i].c_str());
    return d;
  }
  // a divergence matching a known-defect pattern: recorded under its own key, run continues
  void known(const std::string& key, const std::string& msg, const std::string& extra) {
    VF_COUNT("obs:known_pattern_hits");
    if (g_reported.insert(key).second) vf::violation(key, msg, detail(extra));
  }
  void unknown(const std::string& key, const std::string& msg, const std::string& extra) {
    g_stop = true;
    if (g_reported.insert(key).second) vf::violation(key, msg, detail(extra));
  }
  void log(const std::string& s) {
    oplog.push_back(s);
    ophash = vf::mix(ophash, std::hash<std::string>()(s));
    ++nops;
    VF_COUNT("obs:ops");
    vf::progress();
  }
  std::string st_str(int i) {
    St s = state_of(*c[i]);
    return vf::fmt("container %d: head_is_default_placeholder=%d chained_tables=%d first_chained_elems=%zu stored=%zu size()=%zu model=%zu",
                   i, int(s.head_dummy), s.chain, s.first_chained, s.stored, c[i]->size(), m[i].size());
  }

  // fixed table: number of elements it can still take (public API + documented placeholder state)
  bool fixed_has_room(int i) {
    if constexpr (Tr::fixed) {
      if (c[i]->_controls == Group::s_dummy_controls) return false;  // default-constructed: empty and full
      return m[i].size() < c[i]->bucket_count();
    } else {
      return true;
    }
  }
  void remember_gone(int i) {
    size_t n = 0;
    for (auto& kv : m[i]) { if (gone.size() >= 512 || ++n > 48) break; gone.push_back(kv.first); }
  }
  K fresh_key() { return Tr::key(next_id++, style, salt); }
  K absent_key() { return Tr::key((1ull << 40) + rng.below(1000), style, salt); }
  bool pick_existing(int i, K& out) {
    if (m[i].empty()) return false;
    size_t n = rng.below(m[i].size());
    // unordered_map has no random access; walk a bounded number of steps from a random bucket
    auto it = m[i].begin();
    std::advance(it, long(n % 64 < m[i].size() ? n % 64 : 0));
    out = it->first;
    return true;
  }

  // rebuild the model of container i from what is physically stored (per-table
  // iteration of the fixed tables), checking it is a sub-map of the old model
  void resync(int i, const char* why) {
    if constexpr (Tr::fixed) { (void)i; (void)why; return; } else {
    Model nm;
    auto* node = &c[i]->_head;
    while (node) {
      for (auto it = node->table.begin(); it != node->table.end(); ++it) {
        const K& k = Tr::key_of(*it);
        auto f = m[i].find(k);
        if (f == m[i].end() || f->second != Tr::val_of(*it)) {
          unknown("content-corrupted", std::string("after ") + why + " the container stores an element the model never had", st_str(i));
          return;
        }
        nm[k] = f->second;
      }
      node = node->next.load(std::memory_order_relaxed);
    }
    m[i].swap(nm);
    VF_COUNT("obs:model_resynchronised");
    }
  }

  // ---- the comparison run after every operation
  void compare(int i, const char* after) {
    if (g_stop) return;
    C& cc = *c[i];
    Model& mm = m[i];
    St st = state_of(cc);
    max_chain = std::max(max_chain, st.chain);
    if (st.chain > 0) boundary = true;
    VF_COUNT("obs:compares");
    // size / empty
    size_t sz = cc.size();
    if (sz != mm.size()) {
      if (st.head_dummy && st.chain >= 1 && sz == mm.size() + 16)
        known("size-mismatch:default-constructed-chained",
              "size() of a default-constructed set/map is 16 too large once a chained table exists (the placeholder head's bucket count is added)",
              vf::fmt("after %s: size()=%zu, reference size=%zu\n%s", after, sz, mm.size(), st_str(i).c_str()));
      else
        unknown("size-mismatch", vf::fmt("size()=%zu but the reference container holds %zu", sz, mm.size()),
                vf::fmt("after %s\n%s", after, st_str(i).c_str()));
    }
    bool em = cc.empty();
    if (em != mm.empty()) {
      if (st.head_dummy && st.chain >= 1 && em)
        known("empty-mismatch:default-constructed-chained",
              "empty() of a default-constructed set/map stays true although elements were inserted (only the placeholder head is consulted)",
              vf::fmt("after %s: empty()=true, reference size=%zu\n%s", after, mm.size(), st_str(i).c_str()));
      else
        unknown("empty-mismatch", vf::fmt("empty()=%d but the reference container holds %zu", int(em), mm.size()),
                vf::fmt("after %s\n%s", after, st_str(i).c_str()));
    }
    // iteration: every element exactly once
    {
      std::unordered_map<K, int> seen;
      size_t n = 0, dups = 0, foreign = 0, wrongval = 0;
      std::string first_bad;
      auto visit = [&](const auto& v) {
        ++n;
        const K& k = Tr::key_of(v);
        auto f = mm.find(k);
        if (f == mm.end()) { if (!foreign++) first_bad = "foreign " + Tr::show(k); return; }
        if (++seen[k] > 1) { if (!dups++) first_bad = "duplicate " + Tr::show(k); }
        if (f->second != Tr::val_of(v)) { if (!wrongval++) first_bad = "mapped value of " + Tr::show(k); }
      };
      if (rng.chance(1, 2)) {
        for (auto it = cc.begin(); it != cc.end(); ++it) visit(*it);
      } else {
        const C& cref = cc;
        for (auto& v : cref) visit(v);
      }
      VF_COUNT_N("obs:elements_iterated", n);
      if (dups) unknown("iteration-duplicate", "iteration visits an element twice: " + first_bad, vf::fmt("after %s\n%s", after, st_str(i).c_str()));
      else if (foreign) unknown("iteration-foreign-element", "iteration yields an element the reference does not hold: " + first_bad, vf::fmt("after %s\n%s", after, st_str(i).c_str()));
      else if (wrongval) unknown("iteration-wrong-mapped-value", "iteration yields a wrong mapped value: " + first_bad, vf::fmt("after %s\n%s", after, st_str(i).c_str()));
      else if (n != mm.size()) {
        if (st.head_dummy && st.chain >= 2 && n == st.first_chained)
          known("iteration-short:default-constructed-chained",
                "iterating a default-constructed set/map that has grown to two or more chained tables stops after the first chained table",
                vf::fmt("after %s: iterated %zu of %zu elements\n%s", after, n, mm.size(), st_str(i).c_str()));
        else
          unknown("iteration-misses-elements", vf::fmt("iteration visited %zu elements, the reference holds %zu", n, mm.size()),
                  vf::fmt("after %s\n%s", after, st_str(i).c_str()));
      }
    }
    // membership of every reference key + a few absent keys
    {
      int variant = int(rng.below(4));
      for (auto& kv : mm) {
        bool ok;
        switch (variant) {
          case 0: { auto it = Tr::find(cc, kv.first, 0); ok = it != cc.end() && Tr::key_of(*it) == kv.first && Tr::val_of(*it) == kv.second; } break;
          case 1: { const C& cref = cc; auto it = Tr::find(cref, kv.first, 1); ok = it != cref.end() && Tr::key_of(*it) == kv.first && Tr::val_of(*it) == kv.second; } break;
          case 2: ok = cc.contains(kv.first); break;
          default: ok = cc.count(kv.first) == 1; break;
        }
        if (!ok) {
          unknown("find-misses-inserted-key", "find/contains/count does not return an inserted key (or returns a wrong mapped value): " + Tr::show(kv.first),
                  vf::fmt("after %s (lookup variant %d)\n%s", after, variant, st_str(i).c_str()));
          break;
        }
      }
      VF_COUNT_N("obs:keys_looked_up", mm.size());
      for (int j = 0; j < 7; ++j) {
        K a = (j < 3 || gone.empty()) ? absent_key() : gone[rng.below(gone.size())];
        if (j >= 3) VF_COUNT("obs:cleared_keys_looked_up");
        if (mm.count(a)) continue;
        if (Tr::find(cc, a, j) != cc.end() || cc.contains(a) || cc.count(a) != 0) {
          unknown("find-returns-absent-key", "find/contains/count reports a key that was never inserted (or was cleared): " + Tr::show(a),
                  vf::fmt("after %s\n%s", after, st_str(i).c_str()));
          break;
        }
      }
    }
    if (std::is_same<Tr, MapMo>::value) {
      int64_t want = int64_t(m[0].size() + m[1].size());
      if (g_mo_live != want) {
        unknown("moveonly-live-count-mismatch",
                vf::fmt("%ld move-only mapped values are alive, the two reference containers hold %ld", (long)g_mo_live, (long)want),
                vf::fmt("after %s\n%s\n%s", after, st_str(0).c_str(), st_str(1).c_str()));
      }
    }
  }

  // ---- single operations
  void op_construct(int i) {
    size_t n = 0;
    bool dflt = rng.chance(1, 2);
    if (dflt) {
      c[i].reset(new C());
      log(vf::fmt("c%d = C()", i));
      VF_COUNT("obs:op_construct_default");
    } else {
      n = rng.pick<size_t>({0, 1, 15, 16, 17, 32, 33, 100, 1024});
      c[i].reset(new C(n));
      log(vf::fmt("c%d = C(%zu)", i, n));
      VF_COUNT("obs:op_construct_n");
    }
    remember_gone(i);
    m[i].clear();
    compare(i, "construct");
  }
  void op_insert(int i, bool fresh) {
    K k;
    if (!gone.empty() && rng.chance(1, 8)) { k = gone[rng.below(gone.size())]; VF_COUNT("obs:op_insert_cleared_key"); }
    else if (fresh || !pick_existing(i, k)) { k = fresh_key(); fresh = true; }
    uint64_t vid = Tr::is_map ? 1 + rng.below(1000000) : 0;
    int variant = int(rng.below(Tr::variants));
    if constexpr (Tr::is_map) { if (Tr::variant_default_mapped(variant)) vid = 0; }
    auto have = m[i].find(k);
    bool expect_inserted = have == m[i].end();
    bool expect_full = false;
    if (expect_inserted && !fixed_has_room(i)) { expect_inserted = false; expect_full = true; boundary = true; VF_COUNT("rare:fixed_table_saturated"); }
    St before = state_of(*c[i]);
    auto r = Tr::emplace(*c[i], k, vid, variant);
    if (expect_inserted) m[i][k] = vid;
    log(vf::fmt("c%d.%s(%s%s) -> inserted=%d", i, Tr::variant_name(variant), Tr::show(k).c_str(),
                Tr::is_map ? vf::fmt(", v%lu", (unsigned long)vid).c_str() : "", int(r.second)));
    VF_COUNT("obs:op_insert");
    if (r.second != expect_inserted)
      unknown("insert-flag-differs", vf::fmt("insertion reported inserted=%d, the reference says %d", int(r.second), int(expect_inserted)), st_str(i));
    else if (expect_full) {
      if (r.first != c[i]->end())
        unknown("fixed-insert-into-full-table", "insertion of a new key into a saturated / default-constructed fixed table did not return end()", st_str(i));
    } else if (r.first == c[i]->end())
      unknown("insert-returned-end", Tr::fixed ? "insertion into a fixed table that still has free buckets returned end()"
                                               : "insertion into a growing set/map returned end()", st_str(i));
    else if (!(Tr::key_of(*r.first) == k) || Tr::val_of(*r.first) != m[i][k] || !(Tr::key_of(*r.first.operator->()) == k))
      unknown("insert-returned-wrong-element", "the iterator returned by an insertion does not point at the key / first inserted mapped value", st_str(i));
    St after = state_of(*c[i]);
    if (after.chain > before.chain) { VF_COUNT("rare:growth_step"); if (before.head_dummy) VF_COUNT("rare:growth_behind_default_head"); }
    compare(i, "insert");
  }
  void op_lookup(int i) {
    K k;
    bool present = rng.chance(2, 3) && pick_existing(i, k);
    if (!present) k = absent_key();
    present = m[i].count(k) != 0;
    bool got;
    int v = int(rng.below(3));
    if (v == 0) got = Tr::find(*c[i], k, int(rng.below(2))) != c[i]->end();
    else if (v == 1) got = c[i]->contains(k);
    else got = c[i]->count(k) == 1;
    log(vf::fmt("c%d.%s(%s) -> %d", i, v == 0 ? "find" : v == 1 ? "contains" : "count", Tr::show(k).c_str(), int(got)));
    VF_COUNT("obs:op_lookup");
    if (got != present) unknown("lookup-differs", vf::fmt("lookup returned %d, the reference says %d", int(got), int(present)), st_str(i));
  }
  void op_index(int i) {
    if constexpr (Tr::is_map) {
      K k;
      bool fresh = rng.chance(1, 2) || !pick_existing(i, k);
      if (fresh) k = fresh_key();
      bool had = m[i].count(k) != 0;
      uint64_t expect = had ? m[i][k] : 0;
      uint64_t got = Tr::index_get(*c[i], k);
      m[i][k] = expect;
      log(vf::fmt("c%d[%s] -> v%lu", i, Tr::show(k).c_str(), (unsigned long)got));
      VF_COUNT("obs:op_index");
      if (got != expect) unknown("index-returns-wrong-value", vf::fmt("operator[] returned v%lu, the reference holds v%lu", (unsigned long)got, (unsigned long)expect), st_str(i));
      if (rng.chance(1, 3)) {
        uint64_t vid = 1 + rng.below(1000000);
        Tr::index_set(*c[i], k, vid);
        m[i][k] = vid;
        log(vf::fmt("c%d[%s] = v%lu", i, Tr::show(k).c_str(), (unsigned long)vid));
      }
      compare(i, "operator[]");
    } else {
      op_lookup(i);
    }
  }
  void op_clear(int i) {
    St st = state_of(*c[i]);
    if (st.chain) VF_COUNT("rare:clear_with_chained_tables");
    c[i]->clear();
    remember_gone(i);
    m[i].clear();
    log(vf::fmt("c%d.clear()", i));
    VF_COUNT("obs:op_clear");
    compare(i, "clear");
  }
  void op_reserve(int i, bool rehash) {
    size_t cur = m[i].size();
    size_t n = rng.pick<size_t>({0, 1, 16, 17, 33, 64, 100, 500, 2000, cur, cur + 1, cur * 2, cur / 2});
    St st = state_of(*c[i]);
    if (st.chain) { VF_COUNT(rehash ? "rare:rehash_with_chained_tables" : "rare:reserve_with_chained_tables"); }
    if (rehash) c[i]->rehash(n);
    else c[i]->reserve(n);
    log(vf::fmt("c%d.%s(%zu)", i, rehash ? "rehash" : "reserve", n));
    VF_COUNT(rehash ? "obs:op_rehash" : "obs:op_reserve");
    St after = state_of(*c[i]);
    if (after.stored != m[i].size() && st.head_dummy && st.chain >= 2 && after.stored == st.first_chained) {
      known(rehash ? "rehash-drops:default-constructed-chained" : "reserve-drops:default-constructed-chained",
            std::string(rehash ? "rehash" : "reserve") + " of a default-constructed set/map with two or more chained tables keeps only the elements of the first chained table",
            vf::fmt("before: chained_tables=%d first_chained_elems=%zu reference=%zu; after: stored=%zu", st.chain, st.first_chained, m[i].size(), after.stored));
      resync(i, rehash ? "rehash" : "reserve");
    }
    compare(i, rehash ? "rehash" : "reserve");
  }
  // after copying container `from` (state `st` before) into `to`
  void after_copy(int from, int to, const St& st, const char* what) {
    St after = state_of(*c[to]);
    remember_gone(to);
    m[to] = m[from];
    if (after.stored != m[from].size() && st.head_dummy && st.chain >= 2 && after.stored == st.first_chained) {
      known("copy-short:default-constructed-chained",
            "copying a default-constructed set/map with two or more chained tables copies only the elements of the first chained table",
            vf::fmt("%s: source chained_tables=%d first_chained_elems=%zu reference=%zu; copy stores %zu", what, st.chain, st.first_chained, m[from].size(), after.stored));
      resync(to, what);
    }
    compare(to, what);
    compare(from, what);
  }
  void op_copy(int from) {
    if constexpr (Tr::copyable) {
      int to = 1 - from;
      St st = state_of(*c[from]);
      if (st.chain) VF_COUNT("rare:copy_with_chained_tables");
      if (rng.chance(1, 2)) {
        c[to].reset(new C(*c[from]));
        log(vf::fmt("c%d = C(c%d)  [copy-construct]", to, from));
        VF_COUNT("obs:op_copy_construct");
        after_copy(from, to, st, "copy-construct");
      } else {
        *c[to] = *c[from];
        log(vf::fmt("c%d = c%d  [copy-assign]", to, from));
        VF_COUNT("obs:op_copy_assign");
        after_copy(from, to, st, "copy-assign");
      }
    } else {
      op_move(from);
    }
  }
  void op_move(int from) {
    int to = 1 - from;
    St st = state_of(*c[from]);
    if (st.chain) VF_COUNT("rare:move_with_chained_tables");
    if (rng.chance(1, 2)) {
      c[to].reset(new C(std::move(*c[from])));
      log(vf::fmt("c%d = C(std::move(c%d))  [move-construct]", to, from));
      VF_COUNT("obs:op_move_construct");
    } else {
      *c[to] = std::move(*c[from]);
      log(vf::fmt("c%d = std::move(c%d)  [move-assign]", to, from));
      VF_COUNT("obs:op_move_assign");
    }
    remember_gone(to);
    m[to] = std::move(m[from]);
    m[from].clear();
    // the moved-from container is valid but unspecified: clear() it before further use
    c[from]->clear();
    log(vf::fmt("c%d.clear()  [moved-from]", from));
    compare(to, "move");
    compare(from, "clear of moved-from container");
  }
  // self copy-assignment / self swap must leave the contents alone
  void op_self(int i) {
    bool did = false;
    St before = state_of(*c[i]);
    if constexpr (Tr::copyable && !Tr::fixed) {
      if (rng.chance(1, 2)) {
        C& self = *c[i];
        *c[i] = self;
        log(vf::fmt("c%d = c%d  [self copy-assign]", i, i));
        did = true;
      }
    }
    if (!did) {
      c[i]->swap(*c[i]);
      log(vf::fmt("c%d.swap(c%d)  [self swap]", i, i));
    }
    VF_COUNT("obs:op_self");
    St st = state_of(*c[i]);
    // a self copy goes through the copy constructor: same known pattern as copy
    if (did && st.stored != m[i].size() && before.head_dummy && before.chain >= 2 && st.stored == before.first_chained) {
      known("copy-short:default-constructed-chained",
            "copying a default-constructed set/map with two or more chained tables copies only the elements of the first chained table",
            vf::fmt("self copy-assign: source chained_tables=%d first_chained_elems=%zu reference=%zu; result stores %zu", before.chain,
                    before.first_chained, m[i].size(), st.stored));
      resync(i, "self copy-assign");
    }
    compare(i, "self-assign/self-swap");
  }
  void op_swap() {
    St a = state_of(*c[0]), b = state_of(*c[1]);
    if (a.chain || b.chain) VF_COUNT("rare:swap_with_chained_tables");
    if (rng.chance(1, 2)) c[0]->swap(*c[1]);
    else c[1]->swap(*c[0]);
    m[0].swap(m[1]);
    log("c0.swap(c1)");
    VF_COUNT("obs:op_swap");
    compare(0, "swap");
    compare(1, "swap");
  }

  void run() {
    int len = int(rng.pick<int>({30, 60, 120, 250, 500, 900}));
    for (int i = 0; i < 2; ++i) {
      if (rng.chance(2, 3)) { c[i].reset(new C()); log(vf::fmt("c%d = C()", i)); }
      else { size_t n = rng.pick<size_t>({16, 32, 64, 256}); c[i].reset(new C(n)); log(vf::fmt("c%d = C(%zu)", i, n)); }
    }
    compare(0, "construct");
    compare(1, "construct");
    int burst = 0, burst_target = 0;
    for (int step = 0; step < len && !g_stop; ++step) {
      int i = int(rng.below(2));
      if (burst > 0) {  // a burst of fresh keys into one container: forces growth steps
        op_insert(burst_target, true);
        --burst;
        continue;
      }
      uint64_t x = rng.below(100);
      if (x < 30) op_insert(i, rng.chance(3, 4));
      else if (x < 40) op_lookup(i);
      else if (x < 48) op_index(i);
      else if (x < 56) { burst = int(rng.pick<int>({5, 20, 40, 70, 150, 300, 520})); burst = std::min(burst, len - step); burst_target = i; }
      else if (x < 61) op_clear(i);
      else if (x < 67) op_reserve(i, false);
      else if (x < 73) op_reserve(i, true);
      else if (x < 81) op_copy(i);
      else if (x < 88) op_move(i);
      else if (x < 93) op_swap();
      else if (x < 95) op_self(i);
      else if (x < 97) op_construct(i);
      else { compare(i, "explicit iterate/size/empty"); log(vf::fmt("iterate/size/empty c%d", i)); }
    }
    // destruction with whatever is left; move-only balance must return to zero
    c[0].reset();
    c[1].reset();
    if (std::is_same<Tr, MapMo>::value && g_mo_live != 0 && !g_stop) {
      unknown("moveonly-live-count-mismatch", vf::fmt("%ld move-only mapped values still alive after both containers were destroyed", (long)g_mo_live), "");
      g_mo_live = 0;
    }
    if (max_chain >= 1) VF_COUNT("rare:case_with_chain_ge1");
    if (max_chain >= 3) VF_COUNT("rare:case_with_chain_ge3");
    if (max_chain >= 5) VF_COUNT("rare:case_with_chain_ge5");
    vf::evaluated(vf::mix(ophash, std::hash<std::string>()(Tr::name())), boundary);
    if (caseno % 11 == 0 || max_chain >= 5) {
      std::string s = vf::fmt("{\"kind\": \"%s\", \"case\": %lu, \"ops\": %lu, \"max_chained_tables\": %d, \"first_ops\": [", Tr::name(),
                              (unsigned long)caseno, (unsigned long)nops, max_chain);
      for (size_t i = 0; i < oplog.size() && i < 14; ++i) s += std::string(i ? ", " : "") + vf::jstr(oplog[i]);
      s += "]}";
      vf::sample(s, 4);
    }
  }
};

template <typename Tr>
void run_case(uint64_t seed, uint64_t caseno) {
  Session<Tr> s(seed, caseno);
  s.run();
}

}  // namespace

int main(int argc, char** argv) {
  vf::init(argc, argv, "C18", "c18_hashmodel");
  auto& a = vf::args();
  std::string mode = a.mode.empty() ? "all" : a.mode;
  auto& wd = vf::watchdog();
  wd.classify = []() -> std::string { return "stuck:sequential-operation-never-returned"; };
  wd.start();
  wd.arm(true);
  uint64_t n = vf::budget(720, 24000);
  auto want = [&](uint64_t idx) { return a.only_episode < 0 || uint64_t(a.only_episode) == idx; };
  for (uint64_t e = 0; e < n && !g_stop; ++e) {
    if (!want(e)) continue;
    wd.set_context(vf::fmt("case %lu", (unsigned long)e));
    // 4 of 5 cases on the growing set/map kinds, 1 of 5 on the fixed table
    static const int cycle[10] = {0, 1, 2, 3, 4, 0, 1, 2, 3, 5};
    int kind = cycle[e % 10];
    if (mode == "set_int") kind = 0;
    else if (mode == "set_str") kind = 1;
    else if (mode == "map_str") kind = 2;
    else if (mode == "map_mo") kind = 3;
    else if (mode == "fixed_int") kind = 4;
    else if (mode == "fixed_str") kind = 5;
    switch (kind) {
      case 0: run_case<SetInt>(a.seed, e); break;
      case 1: run_case<SetStr>(a.seed, e); break;
      case 2: run_case<MapStr>(a.seed, e); break;
      case 3: run_case<MapMo>(a.seed, e); break;
      case 4: run_case<FixedInt>(a.seed, e); break;
      default: run_case<FixedStr>(a.seed, e); break;
    }
  }
  wd.arm(false);
  wd.shutdown();
  return vf::finish();
}
