// C19 — counters and enumerable thread-locals (DESIGN §5 C19).
//
// Histories of THREAD generations (short-lived threads exit, their ids are reused through
// ThreadId/IdAllocator; long-lived threads keep their per-thread caches across instance
// generations) and of INSTANCE generations (construct / destroy / move / reset of
// ConcurrentAdder, ConcurrentSummer, ConcurrentMaxer, ConcurrentMiner, ConcurrentSampler,
// EnumerableThreadLocal<T>, CompactEnumerableThreadLocal<T, N>, so that compact slots and
// cache lines are recycled between instances). The harness keeps exact shadow totals.
//
// modes (episode kinds, --mode X restricts; default all):
//   churn   rounds of counting threads (short-lived waves + long-lived threads) separated by
//           quiescent points where the main thread runs the oracle and churns the instance
//           population; worker threads also create/use/destroy private counters concurrently
//   reader  (plain/asan only, DESIGN §4) stamped counting operations against concurrent readers:
//           sum(completed before r.call) <= r <= sum(started before r.ret)
//   wide    > 128 live threads: thread ids cross the 128-element block of the per-instance
//           storage; instances whose storage is smaller than the live id range
//   many    > 1024 live adders: the compact instance ids cross into a second shared storage
//
// Under TSan every read of the deliberately unsynchronised statistics happens at a quiescent
// point (threads joined or parked through a mutex => happens-before), or by the only thread
// that ever counted on a private instance.
#include <array>
#include <condition_variable>
#include <unordered_map>
#include <unordered_set>
#include <utility>

#include "common/vf.h"

#include "babylon/concurrent/counter.h"
#include "babylon/concurrent/thread_local.h"

namespace {
namespace bb = ::babylon;
constexpr auto RLX = std::memory_order_relaxed;

////////////////////////////////////////////////////////////////////////////////
// element types of the thread-locals under test
constexpr uint64_t kMagic = 0x1735c0de1735c0deULL;
constexpr uint64_t kTag = 0x7a67c19c19c19c19ULL;
std::atomic<int64_t> g_item_live {0};
struct Item {  // non-trivial: ConcurrentVector constructs it with `new (ptr) Item`
  uint64_t magic;
  uint64_t v;
  uint64_t pad[2];
  Item() noexcept : magic(kMagic), v(0) { pad[0] = pad[1] = 0; g_item_live.fetch_add(1, RLX); }
  ~Item() noexcept { magic = 0; g_item_live.fetch_sub(1, RLX); }
};
struct NT {  // non-trivial through default member initialisers (like ConcurrentComparer::Slot)
  uint64_t v {0};
  uint64_t tag {kTag};
};

using EtlItem = bb::EnumerableThreadLocal<Item>;              // ThreadId, constructed slots
using EtlU64 = bb::EnumerableThreadLocal<uint64_t, true>;     // LeakyThreadId, memset slots
using CmpU64 = bb::CompactEnumerableThreadLocal<uint64_t, 1>; // 16 instances per line
using CmpNT = bb::CompactEnumerableThreadLocal<NT, 1, true>;  // 8 instances per line, leaky
using AdderTL = decltype(bb::ConcurrentAdder::_storage);
using SummerTL = decltype(bb::ConcurrentSummer::_storage);
using MaxerTL = decltype(bb::ConcurrentMaxer::_storage);
using MinerTL = decltype(bb::ConcurrentMiner::_storage);

enum Kind : int { ADDER, SUMMER, MAXER, MINER, SAMPLER, ETL_ITEM, ETL_U64, CMP_U64, CMP_NT, NKINDS };
const char* kKindName[NKINDS] = {"adder", "summer", "maxer", "miner", "sampler",
                                 "etl_item", "etl_u64", "compact_u64", "compact_nt"};
inline bool is_tl(Kind k) { return k >= ETL_ITEM; }
inline bool is_compact_backed(Kind k) { return k == ADDER || k == SUMMER || k == MAXER || k == MINER || k == CMP_U64 || k == CMP_NT; }

// thread id of the calling thread in the id space the kind uses (allocates it like local() would)
uint16_t tid_of(Kind k) {
  switch (k) {
    case ADDER: return bb::LeakyThreadId::current_thread_id<AdderTL::CacheLine>().value;
    case SUMMER: return bb::LeakyThreadId::current_thread_id<SummerTL::CacheLine>().value;
    case MAXER: return bb::LeakyThreadId::current_thread_id<MaxerTL::CacheLine>().value;
    case MINER: return bb::LeakyThreadId::current_thread_id<MinerTL::CacheLine>().value;
    case SAMPLER: return bb::LeakyThreadId::current_thread_id<bb::ConcurrentSampler::Sample>().value;
    case ETL_ITEM: return bb::ThreadId::current_thread_id<Item>().value;
    case ETL_U64: return bb::LeakyThreadId::current_thread_id<uint64_t>().value;
    case CMP_U64: return bb::ThreadId::current_thread_id<CmpU64::CacheLine>().value;
    case CMP_NT: return bb::LeakyThreadId::current_thread_id<CmpNT::CacheLine>().value;
    default: return 0;
  }
}

////////////////////////////////////////////////////////////////////////////////
// global monitor state
constexpr int kMaxTid = 2048;
std::atomic<uint8_t> g_tid_live[NKINDS][kMaxTid];   // id currently held by a harness thread
std::atomic<uint8_t> g_tid_ever[NKINDS][kMaxTid];   // id was held by some thread before
constexpr int kMaxInst = 8192;
std::atomic<uint8_t> g_inst_ever[NKINDS][kMaxInst];  // compact instance id seen before
std::atomic<int32_t> g_storage_live[NKINDS][kMaxInst];  // live instances per shared storage
std::atomic<bool> g_stop {false};                    // a (non-listed) violation happened: wind down
std::atomic<uint64_t> g_uid {1};
std::string g_ctx;                                   // episode description (set at quiescent points)
bool g_is_tsan = VF_TSAN != 0;

void fail(const std::string& key, const std::string& msg, const std::string& detail = "") {
  vf::violation(key, msg, g_ctx + "\n" + detail);
  g_stop.store(true, RLX);
}

struct Cell {
  uintptr_t addr = 0;
  uint64_t expected = 0;
};
struct Obj {
  Kind kind = ADDER;
  uint64_t uid = 0;
  void* p = nullptr;
  // shadow, owned by whoever is at the quiescent point
  int64_t sum = 0;
  uint64_t num = 0;
  bool has = false;
  int64_t ext = 0;
  uint32_t periods = 0;
  std::array<uint64_t, 31> bucket_cnt {};
  std::unordered_set<uint32_t> samples;
  std::map<int, Cell> cells;                 // TL kinds: thread id -> slot
  std::map<int, uintptr_t> id2addr;          // all kinds with an observable local()
  std::map<uintptr_t, int> addr2id;
  uint32_t moves = 0;
};
#define AS(T, o) (static_cast<T*>((o)->p))

// per (thread, object, round) accumulator
struct Acc {
  bool touched = false;
  int64_t sum = 0;
  uint64_t num = 0;
  bool has = false;
  int64_t ext = 0;
  uint32_t bc[31] = {};
  std::vector<uint32_t> samples;
  uintptr_t addr = 0;
  int tid = -1;
  uint64_t first_seen = 0, delta = 0, running = 0;
};
struct RoundResult {
  uint64_t serial = 0;
  std::vector<std::pair<int, Acc>> accs;
};
std::mutex g_mu;
std::vector<RoundResult> g_results;          // pushed in an order compatible with id succession

struct ThreadCtx {
  int logical = 0;
  uint64_t serial = 0;
  bool long_lived = false;
  int tid[NKINDS];
  std::unordered_map<uint64_t, uintptr_t> addr_of;   // obj uid -> address of my local()
  vf::Rng rng;
  ThreadCtx() { for (auto& t : tid) t = -1; }
};

int acquire_tid(ThreadCtx& t, Kind k) {
  if (t.tid[k] >= 0) return t.tid[k];
  int id = tid_of(k);
  t.tid[k] = id;
  if (id >= kMaxTid) { fail("thread-id-out-of-range", vf::fmt("thread id %d for %s", id, kKindName[k])); return id; }
  if (g_tid_live[k][id].exchange(1, RLX) != 0)
    fail("thread-id-shared-by-live-threads", vf::fmt("%s: thread id %d handed to a second live thread", kKindName[k], id));
  if (g_tid_ever[k][id].exchange(1, RLX) != 0) VF_COUNT("rare:thread_id_reused");
  else VF_COUNT("obs:thread_id_fresh");
  if (id >= 128) VF_COUNT("rare:thread_id_ge_128");
  return id;
}
void release_tids(ThreadCtx& t) {
  for (int k = 0; k < NKINDS; ++k)
    if (t.tid[k] >= 0 && t.tid[k] < kMaxTid) g_tid_live[k][t.tid[k]].store(0, RLX);
}

////////////////////////////////////////////////////////////////////////////////
// construction / destruction / fresh-state oracle
template <typename C>
void note_compact_created(Kind k, C& c) {
  uint32_t id = c._instance_id;
  uint32_t sidx = id / C::NUM_PER_CACHELINE;
  if (id < uint32_t(kMaxInst)) {
    if (g_inst_ever[k][id].exchange(1, RLX) != 0) VF_COUNT("rare:compact_slot_reused");
    else VF_COUNT("obs:compact_slot_fresh");
    if (g_storage_live[k][sidx].fetch_add(1, RLX) > 0) VF_COUNT("rare:cacheline_shared");
    if (sidx > 0) VF_COUNT("rare:second_storage");
  }
  if (c._cacheline_offset != id % C::NUM_PER_CACHELINE)
    fail("compact-offset-inconsistent", vf::fmt("%s instance %u has offset %u", kKindName[k], id, c._cacheline_offset));
}
template <typename C>
void note_compact_destroyed(Kind k, C& c) {
  uint32_t id = c._instance_id;
  if (id < uint32_t(kMaxInst)) g_storage_live[k][id / C::NUM_PER_CACHELINE].fetch_sub(1, RLX);
}
void note_created(Kind k, void* p) {
  switch (k) {
    case ADDER: note_compact_created(k, static_cast<bb::ConcurrentAdder*>(p)->_storage); break;
    case SUMMER: note_compact_created(k, static_cast<bb::ConcurrentSummer*>(p)->_storage); break;
    case MAXER: note_compact_created(k, static_cast<bb::ConcurrentMaxer*>(p)->_storage); break;
    case MINER: note_compact_created(k, static_cast<bb::ConcurrentMiner*>(p)->_storage); break;
    case CMP_U64: note_compact_created(k, *static_cast<CmpU64*>(p)); break;
    case CMP_NT: note_compact_created(k, *static_cast<CmpNT*>(p)); break;
    default: break;
  }
}
void note_destroyed(Kind k, void* p) {
  switch (k) {
    case ADDER: note_compact_destroyed(k, static_cast<bb::ConcurrentAdder*>(p)->_storage); break;
    case SUMMER: note_compact_destroyed(k, static_cast<bb::ConcurrentSummer*>(p)->_storage); break;
    case MAXER: note_compact_destroyed(k, static_cast<bb::ConcurrentMaxer*>(p)->_storage); break;
    case MINER: note_compact_destroyed(k, static_cast<bb::ConcurrentMiner*>(p)->_storage); break;
    case CMP_U64: note_compact_destroyed(k, *static_cast<CmpU64*>(p)); break;
    case CMP_NT: note_compact_destroyed(k, *static_cast<CmpNT*>(p)); break;
    default: break;
  }
}
uint32_t inst_id_of(Kind k, void* p) {
  switch (k) {
    case ADDER: return static_cast<bb::ConcurrentAdder*>(p)->_storage._instance_id;
    case SUMMER: return static_cast<bb::ConcurrentSummer*>(p)->_storage._instance_id;
    case MAXER: return static_cast<bb::ConcurrentMaxer*>(p)->_storage._instance_id;
    case MINER: return static_cast<bb::ConcurrentMiner*>(p)->_storage._instance_id;
    case CMP_U64: return static_cast<CmpU64*>(p)->_instance_id;
    case CMP_NT: return static_cast<CmpNT*>(p)->_instance_id;
    default: return 0;
  }
}

void* construct_raw(Kind k) {
  void* p = nullptr;
  switch (k) {
    case ADDER: p = new bb::ConcurrentAdder; break;
    case SUMMER: p = new bb::ConcurrentSummer; break;
    case MAXER: p = new bb::ConcurrentMaxer; break;
    case MINER: p = new bb::ConcurrentMiner; break;
    case SAMPLER: p = new bb::ConcurrentSampler; break;
    case ETL_ITEM: p = new EtlItem; break;
    case ETL_U64: p = new EtlU64; break;
    case CMP_U64: p = new CmpU64; break;
    case CMP_NT: p = new CmpNT; break;
    default: break;
  }
  note_created(k, p);
  return p;
}
void destroy_raw(Kind k, void* p) {
  note_destroyed(k, p);
  switch (k) {
    case ADDER: delete static_cast<bb::ConcurrentAdder*>(p); break;
    case SUMMER: delete static_cast<bb::ConcurrentSummer*>(p); break;
    case MAXER: delete static_cast<bb::ConcurrentMaxer*>(p); break;
    case MINER: delete static_cast<bb::ConcurrentMiner*>(p); break;
    case SAMPLER: delete static_cast<bb::ConcurrentSampler*>(p); break;
    case ETL_ITEM: delete static_cast<EtlItem*>(p); break;
    case ETL_U64: delete static_cast<EtlU64*>(p); break;
    case CMP_U64: delete static_cast<CmpU64*>(p); break;
    case CMP_NT: delete static_cast<CmpNT*>(p); break;
    default: break;
  }
}

////////////////////////////////////////////////////////////////////////////////
// thread-local element access helpers
template <typename E> struct ElemOf;
template <> struct ElemOf<EtlItem> { using type = Item; static constexpr size_t off = offsetof(Item, v); };
template <> struct ElemOf<EtlU64> { using type = uint64_t; static constexpr size_t off = 0; };
template <> struct ElemOf<CmpU64> { using type = uint64_t; static constexpr size_t off = 0; };
template <> struct ElemOf<CmpNT> { using type = NT; static constexpr size_t off = offsetof(NT, v); };

inline bool shape_ok(const Item* i) { return i->magic == kMagic; }
inline bool shape_ok(const uint64_t*) { return true; }
inline bool shape_ok(const NT* n) { return n->tag == kTag; }

// visit element pointers (never dereferenced here). mode: 0 for_each, 1 for_each const,
// 2 for_each_alive, 3 for_each_alive const
template <typename T, bool L, typename F>
void visit(bb::EnumerableThreadLocal<T, L>& e, int mode, F&& f) {
  auto nc = [&](T* b, T* en) { for (; b != en; ++b) f(b); };
  auto cc = [&](const T* b, const T* en) { for (; b != en; ++b) f(const_cast<T*>(b)); };
  switch (mode) {
    case 0: e.for_each(nc); break;
    case 1: std::as_const(e).for_each(cc); break;
    case 2: e.for_each_alive(nc); break;
    default: std::as_const(e).for_each_alive(cc); break;
  }
}
template <typename T, size_t N, bool L, typename F>
void visit(bb::CompactEnumerableThreadLocal<T, N, L>& c, int mode, F&& f) {
  auto nc = [&](T& v) { f(&v); };
  auto cc = [&](const T& v) { f(const_cast<T*>(&v)); };
  switch (mode) {
    case 0: c.for_each(nc); break;
    case 1: std::as_const(c).for_each(cc); break;
    case 2: c.for_each_alive(nc); break;
    default: std::as_const(c).for_each_alive(cc); break;
  }
}
// private view of the per-thread-id storage
template <typename T, bool L> size_t storage_size(bb::EnumerableThreadLocal<T, L>& e) { return e._storage.size(); }
template <typename T, size_t N, bool L> size_t storage_size(bb::CompactEnumerableThreadLocal<T, N, L>& c) { return c._storage->_storage.size(); }
template <typename T, bool L> T* elem_at(bb::EnumerableThreadLocal<T, L>& e, size_t id) { return &e._storage.snapshot()[id]; }
template <typename T, size_t N, bool L> T* elem_at(bb::CompactEnumerableThreadLocal<T, N, L>& c, size_t id) {
  return &c._storage->_storage.snapshot()[id].value[c._cacheline_offset];
}
// [begin, end) address ranges of the blocks that hold this instance's elements
template <typename V> void block_ranges_of(V& vec, std::vector<std::pair<uintptr_t, uintptr_t>>& out) {
  auto* table = vec._block_table.load(std::memory_order_acquire);
  using Elem = std::remove_reference_t<decltype(*table->blocks[0])>;
  for (size_t i = 0; i < table->size; ++i) {
    auto b = reinterpret_cast<uintptr_t>(table->blocks[i]);
    out.emplace_back(b, b + sizeof(Elem) * 128);
  }
}
template <typename T, bool L> void block_ranges(bb::EnumerableThreadLocal<T, L>& e, std::vector<std::pair<uintptr_t, uintptr_t>>& out) { block_ranges_of(e._storage, out); }
template <typename T, size_t N, bool L> void block_ranges(bb::CompactEnumerableThreadLocal<T, N, L>& c, std::vector<std::pair<uintptr_t, uintptr_t>>& out) { block_ranges_of(c._storage->_storage, out); }

inline uint64_t* local_cell(EtlItem& e) {
  Item& it = e.local();
  Item* f = e.local_fast();
  if (f != &it) fail("local_fast-differs-from-local", vf::fmt("local()=%p local_fast()=%p", (void*)&it, (void*)f));
  if (it.magic != kMagic) fail("local-slot-not-constructed", vf::fmt("Item at %p has magic %lx", (void*)&it, (unsigned long)it.magic));
  return &it.v;
}
inline uint64_t* local_cell(EtlU64& e) {
  uint64_t& v = e.local();
  uint64_t* f = e.local_fast();
  if (f != &v) fail("local_fast-differs-from-local", vf::fmt("local()=%p local_fast()=%p", (void*)&v, (void*)f));
  return &v;
}
inline uint64_t* local_cell(CmpU64& c) { return &c.local(); }
inline uint64_t* local_cell(CmpNT& c) {
  NT& n = c.local();
  if (n.tag != kTag) fail("local-slot-not-constructed", vf::fmt("NT at %p has tag %lx", (void*)&n, (unsigned long)n.tag));
  return &n.v;
}

template <typename F>
auto with_tl(Kind k, void* p, F&& f) {
  switch (k) {
    case ETL_ITEM: return f(*static_cast<EtlItem*>(p));
    case ETL_U64: return f(*static_cast<EtlU64*>(p));
    case CMP_U64: return f(*static_cast<CmpU64*>(p));
    default: return f(*static_cast<CmpNT*>(p));
  }
}

// state a freshly constructed object must show, whatever storage it recycles
void check_fresh(Kind k, void* p, const char* who) {
  auto bad = [&](const std::string& what) {
    fail(std::string("new-counter-not-zero:") + kKindName[k],
         vf::fmt("a newly constructed %s (%s, compact instance id %u) does not start from zero: %s", kKindName[k], who,
                 inst_id_of(k, p), what.c_str()));
  };
  switch (k) {
    case ADDER: {
      auto v = static_cast<bb::ConcurrentAdder*>(p)->value();
      if (v != 0) bad(vf::fmt("value()=%ld", (long)v));
    } break;
    case SUMMER: {
      auto s = static_cast<bb::ConcurrentSummer*>(p)->value();
      if (s.sum != 0 || s.num != 0) bad(vf::fmt("value()={%ld,%lu}", (long)s.sum, (unsigned long)s.num));
    } break;
    case MAXER: {
      ssize_t x = 4242;
      bool h = static_cast<bb::ConcurrentMaxer*>(p)->value(x);
      if (h || x != 4242 || static_cast<bb::ConcurrentMaxer*>(p)->value() != 0) bad(vf::fmt("value(x)=%d x=%ld", int(h), (long)x));
    } break;
    case MINER: {
      ssize_t x = 4242;
      bool h = static_cast<bb::ConcurrentMiner*>(p)->value(x);
      if (h || x != 4242 || static_cast<bb::ConcurrentMiner*>(p)->value() != 0) bad(vf::fmt("value(x)=%d x=%ld", int(h), (long)x));
    } break;
    case SAMPLER: {
      size_t n = 0;
      static_cast<bb::ConcurrentSampler*>(p)->for_each([&](size_t, const bb::ConcurrentSampler::SampleBucket& b) {
        n += b.record_num.load(RLX);
      });
      if (n != 0) bad(vf::fmt("%zu samples", n));
    } break;
    default:
      with_tl(k, p, [&](auto& e) {
        using E = std::remove_reference_t<decltype(e)>;
        using Elem = typename ElemOf<E>::type;
        size_t n = 0, dirty = 0;
        visit(e, 0, [&](Elem* el) {
          ++n;
          uint64_t v = *reinterpret_cast<uint64_t*>(reinterpret_cast<uintptr_t>(el) + ElemOf<E>::off);
          if (v != 0 || !shape_ok(el)) ++dirty;
        });
        if (dirty) bad(vf::fmt("%zu of %zu visited slots are not pristine", dirty, n));
        if ((k == ETL_ITEM || k == ETL_U64) && n != 0) bad(vf::fmt("for_each visits %zu slots of an unused instance", n));
        return 0;
      });
  }
}

Obj* create_obj(Kind k, const char* who) {
  Obj* o = new Obj;
  o->kind = k;
  o->uid = g_uid.fetch_add(1, RLX);
  o->p = construct_raw(k);
  vf::progress();
  VF_COUNT("obs:instances_created");
  check_fresh(k, o->p, who);
  return o;
}

////////////////////////////////////////////////////////////////////////////////
// one counting operation on a shared or private object
void check_addr(ThreadCtx& t, Obj* o, Acc& acc, uintptr_t addr) {
  auto it = t.addr_of.find(o->uid);
  if (it == t.addr_of.end()) {
    t.addr_of.emplace(o->uid, addr);
  } else if (it->second != addr) {
    fail("local-address-unstable",
         vf::fmt("%s uid %lu: local() of thread serial %lu moved from %lx to %lx", kKindName[o->kind], (unsigned long)o->uid,
                 (unsigned long)t.serial, (unsigned long)it->second, (unsigned long)addr));
    it->second = addr;
  }
  acc.addr = addr;
}

void do_op(ThreadCtx& t, Obj* o, Acc& acc, bool nonneg) {
  vf::Rng& r = t.rng;
  acc.tid = acquire_tid(t, o->kind);
  switch (o->kind) {
    case ADDER: {
      auto* a = AS(bb::ConcurrentAdder, o);
      int64_t d = nonneg ? int64_t(r.below(1000)) : int64_t(r.below(1500)) - 500;
      if (!acc.touched || r.chance(1, 16)) check_addr(t, o, acc, reinterpret_cast<uintptr_t>(&a->_storage.local()));
      *a << d;
      acc.sum += d;
      acc.num++;
    } break;
    case SUMMER: {
      auto* s = AS(bb::ConcurrentSummer, o);
      if (!acc.touched || r.chance(1, 16)) check_addr(t, o, acc, reinterpret_cast<uintptr_t>(&s->_storage.local()));
      if (r.chance(1, 4)) {
        bb::ConcurrentSummer::Summary sm {ssize_t(r.below(5000)) - (nonneg ? 0 : 1000), size_t(r.below(5))};
        *s << sm;
        acc.sum += sm.sum;
        acc.num += sm.num;
      } else {
        ssize_t v = ssize_t(r.below(1000)) - (nonneg ? 0 : 300);
        *s << v;
        acc.sum += v;
        acc.num++;
      }
    } break;
    case MAXER:
    case MINER: {
      // three magnitudes so that late, small-magnitude periods cannot hide behind stale extremes
      int64_t span = r.pick<int64_t>({100, 100000, 4000000000000LL});
      int64_t v = int64_t(r.below(uint64_t(2 * span))) - span;
      if (o->kind == MAXER) {
        auto* m = AS(bb::ConcurrentMaxer, o);
        if (!acc.touched || r.chance(1, 16)) check_addr(t, o, acc, reinterpret_cast<uintptr_t>(&m->_storage.local()));
        *m << v;
        if (!acc.has || v > acc.ext) acc.ext = v;
      } else {
        auto* m = AS(bb::ConcurrentMiner, o);
        if (!acc.touched || r.chance(1, 16)) check_addr(t, o, acc, reinterpret_cast<uintptr_t>(&m->_storage.local()));
        *m << v;
        if (!acc.has || v < acc.ext) acc.ext = v;
      }
      acc.has = true;
      acc.num++;
    } break;
    case SAMPLER: {
      auto* s = AS(bb::ConcurrentSampler, o);
      uint32_t v = uint32_t(r.next()) >> r.below(32);
      if (r.chance(1, 8)) v = uint32_t(r.below(4));
      *s << v;
      acc.bc[bb::ConcurrentSampler::bucket_index(v)]++;
      acc.samples.push_back(v);
      acc.num++;
    } break;
    default: {
      uint64_t* cell = with_tl(o->kind, o->p, [&](auto& e) { return local_cell(e); });
      check_addr(t, o, acc, reinterpret_cast<uintptr_t>(cell));
      if (!acc.touched) {
        acc.first_seen = acc.running = *cell;
      } else if (*cell != acc.running) {
        fail("local-not-private",
             vf::fmt("%s uid %lu: slot of thread id %d holds %lu, its only writer left %lu there", kKindName[o->kind],
                     (unsigned long)o->uid, acc.tid, (unsigned long)*cell, (unsigned long)acc.running));
        acc.running = *cell;
      }
      uint64_t d = 1 + r.below(100);
      *cell += d;
      acc.running += d;
      acc.delta += d;
      acc.num++;
    } break;
  }
  acc.touched = true;
  vf::progress();
}

////////////////////////////////////////////////////////////////////////////////
// merge of the per-thread accumulators into the shadow (quiescent point / private owner)
void merge(Obj* o, const Acc& a) {
  if (!a.touched) return;
  if (a.addr != 0 && a.tid >= 0) {
    auto it = o->id2addr.find(a.tid);
    if (it == o->id2addr.end()) {
      auto jt = o->addr2id.find(a.addr);
      if (jt != o->addr2id.end() && jt->second != a.tid)
        fail("local-address-shared", vf::fmt("%s uid %lu: local() address %lx returned to thread ids %d and %d",
                                              kKindName[o->kind], (unsigned long)o->uid, (unsigned long)a.addr, jt->second, a.tid));
      o->id2addr[a.tid] = a.addr;
      o->addr2id[a.addr] = a.tid;
    } else if (it->second != a.addr) {
      fail("local-address-differs-for-thread-id",
           vf::fmt("%s uid %lu: thread id %d got local() %lx, an earlier holder of the id got %lx", kKindName[o->kind],
                   (unsigned long)o->uid, a.tid, (unsigned long)a.addr, (unsigned long)it->second));
    }
  }
  switch (o->kind) {
    case ADDER:
    case SUMMER:
      o->sum += a.sum;
      o->num += a.num;
      break;
    case MAXER:
      if (a.has && (!o->has || a.ext > o->ext)) o->ext = a.ext;
      o->has = o->has || a.has;
      o->num += a.num;
      break;
    case MINER:
      if (a.has && (!o->has || a.ext < o->ext)) o->ext = a.ext;
      o->has = o->has || a.has;
      o->num += a.num;
      break;
    case SAMPLER:
      for (int i = 0; i < 31; ++i) o->bucket_cnt[i] += a.bc[i];
      o->samples.insert(a.samples.begin(), a.samples.end());
      o->num += a.num;
      break;
    default: {
      auto it = o->cells.find(a.tid);
      if (it == o->cells.end()) {
        if (a.first_seen != 0)
          fail("new-slot-not-zero", vf::fmt("%s uid %lu: first local() of thread id %d found %lu in a never used slot",
                                            kKindName[o->kind], (unsigned long)o->uid, a.tid, (unsigned long)a.first_seen));
        Cell c;
        c.addr = a.addr;
        c.expected = a.first_seen + a.delta;
        o->cells[a.tid] = c;
      } else {
        if (a.first_seen != it->second.expected)
          fail("slot-value-changed-between-owners",
               vf::fmt("%s uid %lu: thread id %d found %lu in its slot, previous holders left %lu", kKindName[o->kind],
                       (unsigned long)o->uid, a.tid, (unsigned long)a.first_seen, (unsigned long)it->second.expected));
        it->second.expected = a.first_seen + a.delta;
      }
      o->num += a.num;
    } break;
  }
}

////////////////////////////////////////////////////////////////////////////////
// oracle at a quiescent point
std::string live_ids_str(const std::vector<int>& v) {
  std::string s;
  for (int i : v) s += std::to_string(i) + " ";
  return s;
}

template <typename E>
void check_tl_typed(Obj* o, E& e, const std::vector<int>& live_ids, vf::Rng& r, const char* when) {
  using Elem = typename ElemOf<E>::type;
  constexpr size_t off = ElemOf<E>::off;
  std::string head = vf::fmt("%s uid %lu (%s)", kKindName[o->kind], (unsigned long)o->uid, when);
  // (1) for_each: every slot ever used, each once, with the exact value
  std::unordered_map<uintptr_t, int> seen;
  uint64_t total = 0, expect_total = 0;
  size_t dirty_unknown = 0;
  visit(e, int(r.below(2)), [&](Elem* el) {
    uintptr_t cell = reinterpret_cast<uintptr_t>(el) + off;
    if (++seen[cell] == 2) fail("for_each-duplicate-slot", head + vf::fmt(": slot %lx visited twice", (unsigned long)cell));
    uint64_t v = *reinterpret_cast<uint64_t*>(cell);
    total += v;
    if (!shape_ok(el)) fail("for_each-unconstructed-slot", head + vf::fmt(": slot %lx not constructed", (unsigned long)cell));
    if (o->addr2id.find(cell) == o->addr2id.end() && v != 0) ++dirty_unknown;
  });
  for (auto& kv : o->cells) {
    expect_total += kv.second.expected;
    if (!seen.count(kv.second.addr)) {
      fail("for_each-missed-slot", head + vf::fmt(": slot %lx of thread id %d (value %lu) was used but is not visited by for_each "
                                                  "(%zu slots visited)", (unsigned long)kv.second.addr, kv.first,
                                                  (unsigned long)kv.second.expected, seen.size()));
    } else {
      uint64_t v = *reinterpret_cast<uint64_t*>(kv.second.addr);
      if (v != kv.second.expected)
        fail("slot-value-mismatch", head + vf::fmt(": slot of thread id %d holds %lu, contributions sum to %lu", kv.first,
                                                   (unsigned long)v, (unsigned long)kv.second.expected));
    }
  }
  if (dirty_unknown) fail("for_each-dirty-unused-slot", head + vf::fmt(": %zu slots nobody used are not zero", dirty_unknown));
  if (total != expect_total && !vf::failed())
    fail("tl-aggregate-mismatch", head + vf::fmt(": for_each sums to %lu, contributions to %lu", (unsigned long)total, (unsigned long)expect_total));
  VF_COUNT("obs:for_each_checked");

  // (2) for_each_alive: exactly the slots of the live thread ids that have a slot here
  size_t S = storage_size(e);
  std::set<uintptr_t> expect;
  bool beyond = false;
  for (int id : live_ids) {
    if (size_t(id) < S) expect.insert(reinterpret_cast<uintptr_t>(elem_at(e, size_t(id))) + off);
    else beyond = true;
  }
  for (auto& kv : o->cells) {  // black-box cross check of the private view
    if (size_t(kv.first) < S && reinterpret_cast<uintptr_t>(elem_at(e, size_t(kv.first))) + off != kv.second.addr)
      fail("slot-address-not-indexed-by-thread-id", head + vf::fmt(": thread id %d", kv.first));
  }
  for (int mode = 2; mode <= 3; ++mode) {
    constexpr bool compact = !std::is_same<E, EtlItem>::value && !std::is_same<E, EtlU64>::value;
    bool clamped = (mode == 3 && !compact);  // only the const overload of EnumerableThreadLocal clamps
    if (beyond && !clamped) {
      // live thread ids reach beyond this instance's storage. Never dereference what comes back.
      if (VF_ASAN && S == 0) { VF_COUNT("obs:alive_probe_skipped_empty_asan"); continue; }
      std::vector<std::pair<uintptr_t, uintptr_t>> ranges;
      block_ranges(e, ranges);
      size_t outside = 0, n = 0;
      uintptr_t first_bad = 0;
      visit(e, mode, [&](Elem* el) {
        uintptr_t a = reinterpret_cast<uintptr_t>(el);
        ++n;
        bool in = false;
        for (auto& rg : ranges) in = in || (a >= rg.first && a < rg.second);
        if (!in) { if (!outside) first_bad = a; ++outside; }
      });
      VF_COUNT("rare:alive_beyond_storage");
      if (!outside) VF_COUNT("obs:alive_beyond_storage_clamped");
      if (outside) {
        // genuine defect of the unchanged tree (see notes): specific key, does not stop the run
        vf::violation("for_each_alive-beyond-storage-unclamped",
                      "non-const for_each_alive hands the callback element ranges outside the instance's storage when a live "
                      "thread id is >= the storage size (block table indexed out of bounds)",
                      g_ctx + "\n" + head + vf::fmt(": storage size %zu, live ids [%s], %zu of %zu visited elements lie outside "
                                                    "every block, first %lx", S, live_ids_str(live_ids).c_str(), outside, n,
                                                    (unsigned long)first_bad));
        continue;
      }
      // everything handed out lies inside the storage: safe to dereference, fall through to the exact check
    }
    std::set<uintptr_t> got;
    bool dup = false;
    visit(e, mode, [&](Elem* el) { dup = !got.insert(reinterpret_cast<uintptr_t>(el) + off).second || dup; });
    if (dup) fail("for_each_alive-duplicate-slot", head);
    if (got != expect) {
      size_t missing = 0, extra = 0;
      for (auto a : expect) missing += !got.count(a);
      for (auto a : got) extra += !expect.count(a);
      fail(missing ? "for_each_alive-missed-live-slot" : "for_each_alive-visits-dead-slot",
           head + vf::fmt(": for_each_alive(%s) visited %zu slots, expected the %zu slots of live ids [%s] (storage size %zu): "
                          "%zu missing, %zu extra", mode == 3 ? "const" : "non-const", got.size(), expect.size(),
                          live_ids_str(live_ids).c_str(), S, missing, extra));
    }
    VF_COUNT("obs:for_each_alive_checked");
    if (got.size() < seen.size()) VF_COUNT("rare:alive_subset_of_all");
  }
}

void check_obj(Obj* o, const std::vector<int>* live_ids, vf::Rng& r, const char* when) {
  std::string head = vf::fmt("%s uid %lu inst %u (%s, %lu ops, %u periods, %u moves)", kKindName[o->kind], (unsigned long)o->uid,
                             inst_id_of(o->kind, o->p), when, (unsigned long)o->num, o->periods, o->moves);
  switch (o->kind) {
    case ADDER: {
      auto v = AS(bb::ConcurrentAdder, o)->value();
      if (v != o->sum) fail("adder-value-mismatch", head + vf::fmt(": value()=%ld, exact sum %ld", (long)v, (long)o->sum));
    } break;
    case SUMMER: {
      auto s = AS(bb::ConcurrentSummer, o)->value();
      if (s.sum != o->sum) fail("summer-sum-mismatch", head + vf::fmt(": sum=%ld, exact %ld", (long)s.sum, (long)o->sum));
      if (s.num != o->num) fail("summer-num-mismatch", head + vf::fmt(": num=%lu, exact %lu", (unsigned long)s.num, (unsigned long)o->num));
    } break;
    case MAXER:
    case MINER: {
      ssize_t x = 4242, v0;
      bool h;
      if (o->kind == MAXER) { h = AS(bb::ConcurrentMaxer, o)->value(x); v0 = AS(bb::ConcurrentMaxer, o)->value(); }
      else { h = AS(bb::ConcurrentMiner, o)->value(x); v0 = AS(bb::ConcurrentMiner, o)->value(); }
      const char* nm = kKindName[o->kind];
      if (h != o->has) fail(std::string(nm) + "-has-mismatch", head + vf::fmt(": value(x) returned %d, records in this period: %d", int(h), int(o->has)));
      else if (h && x != o->ext) fail(std::string(nm) + "-value-mismatch", head + vf::fmt(": extreme %ld, exact %ld", (long)x, (long)o->ext));
      else if (!h && x != 4242) fail(std::string(nm) + "-value-touched", head + ": value(x) returned false but modified x");
      if (v0 != (o->has ? o->ext : 0) && !vf::failed()) fail(std::string(nm) + "-value-mismatch", head + vf::fmt(": value()=%ld", (long)v0));
    } break;
    case SAMPLER: {
      std::array<uint64_t, 31> got {};
      size_t foreign = 0, wrong_bucket = 0;
      AS(bb::ConcurrentSampler, o)->for_each([&](size_t index, const bb::ConcurrentSampler::SampleBucket& b) {
        uint32_t n = b.record_num.load(RLX);
        if (index < 31) got[index] += n;
        uint32_t m = std::min<uint32_t>(n, b.capacity);
        for (uint32_t i = 0; i < m; ++i) {
          if (bb::ConcurrentSampler::bucket_index(b.data[i]) != index) ++wrong_bucket;
          if (!o->samples.count(b.data[i])) ++foreign;
        }
      });
      for (int i = 0; i < 31; ++i)
        if (got[i] != o->bucket_cnt[i]) {
          fail("sampler-count-mismatch", head + vf::fmt(": bucket %d holds %lu records, exact %lu", i, (unsigned long)got[i], (unsigned long)o->bucket_cnt[i]));
          break;
        }
      if (foreign || wrong_bucket) fail("sampler-foreign-sample", head + vf::fmt(": %zu samples never recorded in this period, %zu in a wrong bucket", foreign, wrong_bucket));
    } break;
    default:
      if (live_ids) with_tl(o->kind, o->p, [&](auto& e) { check_tl_typed(o, e, *live_ids, r, when); return 0; });
  }
  VF_COUNT("obs:quiescent_reads");
}

void destroy_obj(Obj* o) {
  destroy_raw(o->kind, o->p);
  delete o;
}

////////////////////////////////////////////////////////////////////////////////
// private churn: a worker thread creates, uses, (moves,) checks and destroys its own instance
// while other threads count on neighbours in the same cache lines
void private_churn(ThreadCtx& t) {
  vf::Rng& r = t.rng;
  Kind k = Kind(r.below(NKINDS));
  Obj* o = create_obj(k, "private");
  Acc acc;
  uint64_t saved_uid = o->uid;
  int n = int(r.below(40));
  for (int i = 0; i < n && !g_stop.load(RLX); ++i) do_op(t, o, acc, false);
  vf::perturb("cb:c19_private");
  void* husk = nullptr;
  if (r.chance(1, 3) && (k == ADDER || is_tl(k))) {  // move while neighbours are busy
    void* np = nullptr;
    switch (k) {
      case ADDER: np = new bb::ConcurrentAdder(std::move(*AS(bb::ConcurrentAdder, o))); break;
      case ETL_ITEM: np = new EtlItem(std::move(*AS(EtlItem, o))); break;
      case ETL_U64: np = new EtlU64(std::move(*AS(EtlU64, o))); break;
      case CMP_U64: np = new CmpU64(std::move(*AS(CmpU64, o))); break;
      default: np = new CmpNT(std::move(*AS(CmpNT, o))); break;
    }
    husk = o->p;
    note_created(k, husk);  // the move constructor allocated a fresh instance id; after the swap the husk holds it
    o->p = np;
    o->moves++;
    VF_COUNT("rare:counter_moved");
    if (r.chance(1, 2)) { destroy_raw(k, husk); husk = nullptr; }
    for (int i = 0; i < 5 && !g_stop.load(RLX); ++i) do_op(t, o, acc, false);
  }
  merge(o, acc);
  // for_each_alive is checked at global quiescent points only
  check_obj(o, nullptr, r, "private");
  if (is_tl(k) && acc.touched) {  // my own slot must be visited with my value
    uint64_t want = acc.running;
    bool found = false;
    with_tl(k, o->p, [&](auto& e) {
      using E = std::remove_reference_t<decltype(e)>;
      using Elem = typename ElemOf<E>::type;
      visit(e, int(r.below(2)), [&](Elem* el) {
        uintptr_t cell = reinterpret_cast<uintptr_t>(el) + ElemOf<E>::off;
        if (cell == acc.addr) found = (*reinterpret_cast<uint64_t*>(cell) == want);
        else if (*reinterpret_cast<uint64_t*>(cell) != 0)
          fail("private-instance-foreign-value", vf::fmt("%s private uid %lu: a slot nobody used holds %lu", kKindName[k],
                                                        (unsigned long)saved_uid, (unsigned long)*reinterpret_cast<uint64_t*>(cell)));
      });
      return 0;
    });
    if (!found) fail("for_each-missed-slot", vf::fmt("%s private uid %lu: own slot not visited or wrong value", kKindName[k], (unsigned long)saved_uid));
  }
  if (husk) destroy_raw(k, husk);
  t.addr_of.erase(saved_uid);
  destroy_obj(o);
  VF_COUNT("obs:private_instances");
}

////////////////////////////////////////////////////////////////////////////////
// churn episode
struct RoundPlan {
  std::vector<Obj*> objs;
  int ops = 0;
  int private_per_1024 = 0;
  bool nonneg = false;
  bool touch_all = false;        // wide: every thread touches every object once (acquires every id space)
  int long_part_per_8 = 7;       // share of long-lived threads that work this round (the rest stay alive, idle)
};
RoundPlan g_plan;  // written by main at quiescent points only
uint64_t g_episode_seed = 0;
std::atomic<uint64_t> g_serial {1};

void run_round_work(ThreadCtx& t) {
  const RoundPlan& plan = g_plan;
  std::vector<Acc> accs(plan.objs.size());
  vf::Rng& r = t.rng;
  // skewed object choice: a thread touches only part of the population
  size_t span = plan.objs.empty() ? 0 : 1 + r.below(plan.objs.size());
  size_t base = plan.objs.empty() ? 0 : r.below(plan.objs.size());
  if (plan.touch_all)
    for (size_t i = 0; i < plan.objs.size() && !g_stop.load(RLX); ++i) do_op(t, plan.objs[i], accs[i], plan.nonneg);
  for (int i = 0; i < plan.ops && !g_stop.load(RLX); ++i) {
    if (uint32_t(r.below(1024)) < uint32_t(plan.private_per_1024)) { private_churn(t); continue; }
    if (plan.objs.empty()) continue;
    size_t idx = (base + r.below(span)) % plan.objs.size();
    do_op(t, plan.objs[idx], accs[idx], plan.nonneg);
    if ((i & 15) == 0) vf::perturb("cb:c19_op");
  }
  RoundResult res;
  res.serial = t.serial;
  for (size_t i = 0; i < accs.size(); ++i)
    if (accs[i].touched) res.accs.emplace_back(int(i), std::move(accs[i]));
  std::lock_guard<std::mutex> g(g_mu);
  g_results.push_back(std::move(res));
}

struct LongSync {
  std::mutex mu;
  std::condition_variable cv;
  int round = -1;
  int done = 0;
  bool quit = false;
};

struct Episode {
  uint64_t index = 0, seed = 0;
  std::string mode;
  int rounds = 0, longs = 0, shorts = 0, waves = 1, nobjs = 0, ops = 0;
  std::string policy;
  std::string describe() const {
    return vf::fmt("mode=%s ep=%lu seed=%lu rounds=%d long=%d short=%d waves=%d objs=%d ops=%d policy=[%s]", mode.c_str(),
                   (unsigned long)index, (unsigned long)seed, rounds, longs, shorts, waves, nobjs, ops, policy.c_str());
  }
};

const std::vector<std::string> kStallPoints = {"ida:alloc_before_cas", "ida:dealloc_before_cas", "vec:before_cas",
                                               "vec:cas_won", "vec:cas_lost", "cb:c19_op", "cb:c19_private"};

Kind draw_kind(vf::Rng& r, bool tl_heavy) {
  if (tl_heavy && r.chance(1, 2)) return Kind(ETL_ITEM + r.below(4));
  static const Kind w[] = {ADDER, ADDER, ADDER, SUMMER, SUMMER, MAXER, MINER, SAMPLER, ETL_ITEM, ETL_U64, CMP_U64, CMP_U64, CMP_NT};
  return w[r.below(sizeof w / sizeof w[0])];
}

// instance-population churn at a quiescent point
void churn_population(std::vector<Obj*>& objs, std::vector<std::pair<Kind, void*>>& husks, vf::Rng& r, int target) {
  // destroy
  for (size_t i = 0; i < objs.size();) {
    if (r.chance(1, 4)) {
      destroy_obj(objs[i]);
      objs[i] = objs.back();
      objs.pop_back();
      VF_COUNT("obs:instances_destroyed");
    } else {
      ++i;
    }
  }
  // husks of earlier moves die at a random later point
  for (size_t i = 0; i < husks.size();) {
    if (r.chance(1, 2)) {
      destroy_raw(husks[i].first, husks[i].second);
      husks[i] = husks.back();
      husks.pop_back();
    } else {
      ++i;
    }
  }
  // move / reset survivors
  for (Obj* o : objs) {
    if (r.chance(1, 6) && (o->kind == ADDER || is_tl(o->kind))) {
      void* np = nullptr;
      bool assign = r.chance(1, 2);
      switch (o->kind) {
        case ADDER:
          if (assign) { np = construct_raw(ADDER); *static_cast<bb::ConcurrentAdder*>(np) = std::move(*AS(bb::ConcurrentAdder, o)); }
          else { np = new bb::ConcurrentAdder(std::move(*AS(bb::ConcurrentAdder, o))); note_created(ADDER, o->p); }
          break;
        case ETL_ITEM:
          if (assign) { np = construct_raw(ETL_ITEM); *static_cast<EtlItem*>(np) = std::move(*AS(EtlItem, o)); }
          else { np = new EtlItem(std::move(*AS(EtlItem, o))); }
          break;
        case ETL_U64:
          if (assign) { np = construct_raw(ETL_U64); *static_cast<EtlU64*>(np) = std::move(*AS(EtlU64, o)); }
          else { np = new EtlU64(std::move(*AS(EtlU64, o))); }
          break;
        case CMP_U64:
          if (assign) { np = construct_raw(CMP_U64); *static_cast<CmpU64*>(np) = std::move(*AS(CmpU64, o)); }
          else { np = new CmpU64(std::move(*AS(CmpU64, o))); note_created(CMP_U64, o->p); }
          break;
        default:
          if (assign) { np = construct_raw(CMP_NT); *static_cast<CmpNT*>(np) = std::move(*AS(CmpNT, o)); }
          else { np = new CmpNT(std::move(*AS(CmpNT, o))); note_created(CMP_NT, o->p); }
          break;
      }
      husks.emplace_back(o->kind, o->p);
      o->p = np;
      o->moves++;
      VF_COUNT("rare:counter_moved");
    }
    if (r.chance(1, 5)) {
      switch (o->kind) {
        case ADDER:
          AS(bb::ConcurrentAdder, o)->reset();
          o->sum = 0;
          break;
        case MAXER:
          AS(bb::ConcurrentMaxer, o)->reset();
          o->has = false;
          break;
        case MINER:
          AS(bb::ConcurrentMiner, o)->reset();
          o->has = false;
          break;
        case SAMPLER: {
          auto* s = AS(bb::ConcurrentSampler, o);
          if (r.chance(1, 2)) s->set_bucket_capacity(r.below(31), r.pick<size_t>({1, 3, 30, 60, 200}));
          s->reset();
          o->bucket_cnt.fill(0);
          o->samples.clear();
        } break;
        default:
          continue;
      }
      o->periods++;
      VF_COUNT("rare:reset_period");
    }
  }
  // create
  while (int(objs.size()) < target) objs.push_back(create_obj(draw_kind(r, false), "shared"));
}

void collect_live_ids(const std::vector<ThreadCtx*>& longs, std::vector<int> (&live)[NKINDS]) {
  for (auto& v : live) v.clear();
  for (auto* t : longs)
    for (int k = 0; k < NKINDS; ++k)
      if (t->tid[k] >= 0) live[k].push_back(t->tid[k]);
}

uint64_t g_fp = 0;

void quiescent_oracle(std::vector<Obj*>& objs, const std::vector<ThreadCtx*>& longs, vf::Rng& r, const char* when) {
  {
    std::lock_guard<std::mutex> g(g_mu);
    for (auto& res : g_results) {
      for (auto& ia : res.accs) {
        merge(objs[size_t(ia.first)], ia.second);
        g_fp = vf::mix(g_fp, uint64_t(ia.second.tid), objs[size_t(ia.first)]->kind, ia.second.num);
      }
    }
    g_results.clear();
  }
  std::vector<int> live[NKINDS];
  collect_live_ids(longs, live);
  for (Obj* o : objs) {
    check_obj(o, &live[o->kind], r, when);
    if (g_stop.load(RLX)) return;
  }
}

void run_churn_episode(Episode& ep, vf::Rng& r) {
  bool wide = ep.mode == "wide", many = ep.mode == "many";
  std::vector<Obj*> objs;
  std::vector<std::pair<Kind, void*>> husks;
  std::vector<Obj*> ballast;  // "many": keeps > 1024 adder instance ids live
  if (many) {
    int n = 1030 + int(r.below(20));
    for (int i = 0; i < n; ++i) ballast.push_back(create_obj(ADDER, "ballast"));
    if (r.chance(1, 2)) for (int i = 0; i < 520; ++i) ballast.push_back(create_obj(r.chance(1, 2) ? SUMMER : MAXER, "ballast"));
  }
  for (int i = 0; i < ep.nobjs; ++i) objs.push_back(create_obj(wide && i < NKINDS ? Kind(i) : draw_kind(r, wide), "shared"));

  LongSync ls;
  std::vector<ThreadCtx*> longs;
  std::vector<std::thread> long_threads;
  for (int i = 0; i < ep.longs; ++i) {
    auto* t = new ThreadCtx;
    t->logical = i;
    t->serial = g_serial.fetch_add(1, RLX);
    t->long_lived = true;
    t->rng.reseed(vf::mix(ep.seed, 0x10, uint64_t(i)));
    longs.push_back(t);
  }
  for (int i = 0; i < ep.longs; ++i) {
    ThreadCtx* t = longs[size_t(i)];
    vf::progress();
    long_threads.emplace_back([&ls, t, &ep] {
      vf::thread_begin(ep.seed, t->logical);
      vf::progress();
      int seen = -1;
      while (true) {
        {
          std::unique_lock<std::mutex> lk(ls.mu);
          ls.cv.wait(lk, [&] { return ls.quit || ls.round > seen; });
          if (ls.quit) break;
          seen = ls.round;
        }
        if (t->rng.chance(uint64_t(g_plan.long_part_per_8), 8)) run_round_work(*t);  // sometimes alive but idle
        {
          std::lock_guard<std::mutex> lk(ls.mu);
          ++ls.done;
        }
        ls.cv.notify_all();
      }
      release_tids(*t);
      vf::thread_end();
    });
  }

  for (int round = 0; round < ep.rounds && !g_stop.load(RLX); ++round) {
    g_plan.objs = objs;
    if (many && round == 0) g_plan.objs.insert(g_plan.objs.end(), ballast.begin(), ballast.begin() + 8);
    g_plan.ops = wide ? 6 + int(r.below(10)) : ep.ops;
    g_plan.private_per_1024 = wide ? 0 : int(r.pick<int>({0, 4, 16, 32}));
    g_plan.nonneg = r.chance(1, 3);
    g_plan.touch_all = wide && round == 0;
    g_plan.long_part_per_8 = wide ? (round == 0 ? 8 : 1) : 7;
    size_t nshared = g_plan.objs.size();
    {
      std::lock_guard<std::mutex> lk(ls.mu);
      ls.round = round;
      ls.done = 0;
    }
    ls.cv.notify_all();
    for (int wave = 0; wave < ep.waves; ++wave) {
      std::vector<std::thread> ts;
      int n = ep.shorts;
      for (int i = 0; i < n; ++i) {
        ts.emplace_back([&, i, wave, round] {
          vf::thread_begin(ep.seed, 100 + i);
          ThreadCtx t;
          t.logical = 100 + i;
          t.serial = g_serial.fetch_add(1, RLX);
          t.rng.reseed(vf::mix(ep.seed, uint64_t(round) * 16 + uint64_t(wave), uint64_t(i) + 1000));
          run_round_work(t);
          release_tids(t);
          vf::thread_end();
        });
      }
      for (auto& th : ts) th.join();
    }
    {
      std::unique_lock<std::mutex> lk(ls.mu);
      ls.cv.wait(lk, [&] { return ls.done == ep.longs; });
    }
    // ---- quiescent point: short-lived threads joined, long-lived parked on the mutex
    std::vector<Obj*> view = g_plan.objs;
    quiescent_oracle(view, longs, r, vf::fmt("round %d", round).c_str());
    (void)nshared;
    if (g_stop.load(RLX)) break;
    if (round + 1 < ep.rounds) churn_population(objs, husks, r, ep.nobjs);
    if (wide && round == 0)  // fresh instances that only a few (mostly low-id) threads will touch
      for (int k = ETL_ITEM; k < NKINDS; ++k) objs.push_back(create_obj(Kind(k), "shared"));
  }
  {
    std::lock_guard<std::mutex> lk(ls.mu);
    ls.quit = true;
  }
  ls.cv.notify_all();
  for (auto& th : long_threads) th.join();
  // all threads gone: for_each still shows every slot, for_each_alive none
  if (!g_stop.load(RLX)) {
    std::vector<ThreadCtx*> none;
    quiescent_oracle(objs, none, r, "after all threads exited");
  }
  for (auto* t : longs) delete t;
  for (Obj* o : objs) destroy_obj(o);
  for (Obj* o : ballast) destroy_obj(o);
  for (auto& h : husks) destroy_raw(h.first, h.second);
  if (g_item_live.load(RLX) != 0 && !g_stop.load(RLX))
    fail("item-ctor-dtor-imbalance", vf::fmt("%ld Item objects alive after every EnumerableThreadLocal<Item> was destroyed", (long)g_item_live.load(RLX)));
}

////////////////////////////////////////////////////////////////////////////////
// reader episode (plain / asan): stamped operations against concurrent readers
struct WOp { uint64_t call, ret; int64_t v; uint64_t n; };
struct ROp { uint64_t call, ret; int64_t a; uint64_t b; };

struct Bounds {
  std::vector<uint64_t> rets, calls;       // sorted
  std::vector<int64_t> pre_ret_v, pre_call_v;
  std::vector<uint64_t> pre_ret_n, pre_call_n;
  void build(const std::vector<WOp>& ops) {
    std::vector<const WOp*> by(ops.size());
    for (size_t i = 0; i < ops.size(); ++i) by[i] = &ops[i];
    std::sort(by.begin(), by.end(), [](const WOp* a, const WOp* b) { return a->ret < b->ret; });
    int64_t sv = 0; uint64_t sn = 0;
    pre_ret_v.push_back(0); pre_ret_n.push_back(0);
    for (auto* o : by) { rets.push_back(o->ret); sv += o->v; sn += o->n; pre_ret_v.push_back(sv); pre_ret_n.push_back(sn); }
    std::sort(by.begin(), by.end(), [](const WOp* a, const WOp* b) { return a->call < b->call; });
    sv = 0; sn = 0;
    pre_call_v.push_back(0); pre_call_n.push_back(0);
    for (auto* o : by) { calls.push_back(o->call); sv += o->v; sn += o->n; pre_call_v.push_back(sv); pre_call_n.push_back(sn); }
  }
  // contributions completed strictly before t / started strictly before t
  size_t done_before(uint64_t t) const { return size_t(std::lower_bound(rets.begin(), rets.end(), t) - rets.begin()); }
  size_t started_before(uint64_t t) const { return size_t(std::lower_bound(calls.begin(), calls.end(), t) - calls.begin()); }
};

void run_reader_episode(Episode& ep, vf::Rng& r) {
  Obj* oa = create_obj(ADDER, "reader");
  Obj* os = create_obj(SUMMER, "reader");
  auto* adder = AS(bb::ConcurrentAdder, oa);
  auto* summer = AS(bb::ConcurrentSummer, os);
  // a prefix counted before the readers start: exercises non-zero bases and recycled slots
  int64_t base_a = 0, base_s = 0; uint64_t base_n = 0;
  {
    int pre = int(r.below(3));
    vf::run_threads(pre, ep.seed, [&](int i) {
      vf::Rng tr(vf::mix(ep.seed, 0x77, uint64_t(i)));
      int64_t la = 0, lsum = 0; uint64_t ln = 0;
      for (int k = 0; k < 100; ++k) { int64_t d = int64_t(tr.below(1000)); *adder << d; la += d; *summer << ssize_t(d); lsum += d; ++ln; }
      std::lock_guard<std::mutex> g(g_mu);
      base_a += la; base_s += lsum; base_n += ln;
    });
  }
  std::atomic<bool> done {false};
  int nreaders = 1 + int(r.below(2));
  std::vector<std::vector<ROp>> reads_a, reads_s;
  reads_a.resize(size_t(nreaders));
  reads_s.resize(size_t(nreaders));
  std::vector<std::thread> readers;
  for (int i = 0; i < nreaders; ++i) {
    readers.emplace_back([&, i] {
      vf::thread_begin(ep.seed, 200 + i);
      auto& ra = reads_a[size_t(i)];
      auto& rs = reads_s[size_t(i)];
      ra.reserve(8192); rs.reserve(8192);
      vf::Rng rr(vf::mix(ep.seed, 0x99, uint64_t(i)));
      int tail = 3;
      while (ra.size() + rs.size() < 6000) {
        bool fin = done.load(std::memory_order_acquire);
        ROp o;
        if (rr.chance(1, 2)) {
          o.call = vf::stamp_call(); o.a = adder->value(); o.ret = vf::stamp_ret(); o.b = 0;
          ra.push_back(o);
        } else {
          o.call = vf::stamp_call(); auto s = summer->value(); o.ret = vf::stamp_ret(); o.a = s.sum; o.b = s.num;
          rs.push_back(o);
        }
        vf::progress();
        if (rr.chance(1, 4)) ::sched_yield();
        if (fin && --tail == 0) break;
      }
      vf::thread_end();
    });
  }
  // writers in waves (thread generations while the readers run) + neighbour instance churn
  std::vector<std::vector<WOp>> wa, ws;
  std::mutex wmu;
  int waves = 2 + int(r.below(3));
  for (int w = 0; w < waves && !g_stop.load(RLX); ++w) {
    int n = 1 + int(r.below(uint64_t(ep.shorts)));
    std::vector<std::thread> ts;
    for (int i = 0; i < n; ++i) {
      ts.emplace_back([&, i, w] {
        vf::thread_begin(ep.seed, i);
        ThreadCtx t;
        t.serial = g_serial.fetch_add(1, RLX);
        acquire_tid(t, ADDER);
        acquire_tid(t, SUMMER);
        vf::Rng tr(vf::mix(ep.seed, uint64_t(w) + 1, uint64_t(i) + 500));
        std::vector<WOp> la, lsm;
        la.reserve(size_t(ep.ops)); lsm.reserve(size_t(ep.ops));
        for (int k = 0; k < ep.ops; ++k) {
          WOp o;
          if (tr.chance(1, 2)) {
            o.v = int64_t(tr.below(1000)); o.n = 1;
            o.call = vf::stamp_call(); *adder << o.v; o.ret = vf::stamp_ret();
            la.push_back(o);
          } else if (tr.chance(1, 4)) {
            bb::ConcurrentSummer::Summary sm {ssize_t(tr.below(5000)), size_t(tr.below(4))};
            o.v = sm.sum; o.n = sm.num;
            o.call = vf::stamp_call(); *summer << sm; o.ret = vf::stamp_ret();
            lsm.push_back(o);
          } else {
            o.v = int64_t(tr.below(1000)); o.n = 1;
            o.call = vf::stamp_call(); *summer << ssize_t(o.v); o.ret = vf::stamp_ret();
            lsm.push_back(o);
          }
          vf::progress();
          if ((k & 31) == 0) vf::perturb("cb:c19_op");
        }
        release_tids(t);
        std::lock_guard<std::mutex> g(wmu);
        wa.push_back(std::move(la));
        ws.push_back(std::move(lsm));
        vf::thread_end();
      });
    }
    // neighbours in the same cache lines come and go while the counting runs
    for (int c = 0; c < 6; ++c) {
      Kind k = r.chance(1, 2) ? ADDER : SUMMER;
      Obj* nb = create_obj(k, "neighbour");
      Acc acc;
      ThreadCtx mt;  // main thread counts on its private neighbour only
      mt.rng.reseed(vf::mix(ep.seed, 0x55, uint64_t(c)));
      // (no acquire_tid bookkeeping for the main thread: it keeps its ids for the whole run)
      if (k == ADDER) { *AS(bb::ConcurrentAdder, nb) << 7; nb->sum = 7; nb->num = 1; }
      else { *AS(bb::ConcurrentSummer, nb) << ssize_t(9); nb->sum = 9; nb->num = 1; }
      check_obj(nb, nullptr, r, "neighbour");
      destroy_obj(nb);
    }
    for (auto& th : ts) th.join();
  }
  done.store(true, std::memory_order_release);
  for (auto& th : readers) th.join();

  // offline oracle
  auto flatten = [](std::vector<std::vector<WOp>>& v) {
    std::vector<WOp> all;
    for (auto& x : v) all.insert(all.end(), x.begin(), x.end());
    return all;
  };
  std::vector<WOp> all_a = flatten(wa), all_s = flatten(ws);
  Bounds ba, bs;
  ba.build(all_a);
  bs.build(all_s);
  uint64_t strictly = 0, checked = 0;
  for (auto& rv : reads_a)
    for (auto& rd : rv) {
      int64_t lo = base_a + ba.pre_ret_v[ba.done_before(rd.call)];
      int64_t hi = base_a + ba.pre_call_v[ba.started_before(rd.ret)];
      ++checked;
      if (lo != hi) ++strictly;
      if (rd.a < lo)
        fail("reader-adder-below-completed", vf::fmt("adder value() returned %ld, contributions completed before the call sum to %ld "
                                                      "(started before the return: %ld)", (long)rd.a, (long)lo, (long)hi));
      else if (rd.a > hi)
        fail("reader-adder-above-started", vf::fmt("adder value() returned %ld, contributions started before the return sum to %ld "
                                                    "(completed before the call: %ld)", (long)rd.a, (long)hi, (long)lo));
    }
  for (auto& rv : reads_s)
    for (auto& rd : rv) {
      size_t d = bs.done_before(rd.call), s = bs.started_before(rd.ret);
      int64_t lo = base_s + bs.pre_ret_v[d], hi = base_s + bs.pre_call_v[s];
      uint64_t nlo = base_n + bs.pre_ret_n[d], nhi = base_n + bs.pre_call_n[s];
      ++checked;
      if (lo != hi) ++strictly;
      if (rd.a < lo || rd.b < nlo)
        fail("reader-summer-below-completed", vf::fmt("summer value() returned {%ld,%lu}, completed before the call {%ld,%lu}",
                                                       (long)rd.a, (unsigned long)rd.b, (long)lo, (unsigned long)nlo));
      else if (rd.a > hi || rd.b > nhi)
        fail("reader-summer-above-started", vf::fmt("summer value() returned {%ld,%lu}, started before the return {%ld,%lu}",
                                                     (long)rd.a, (unsigned long)rd.b, (long)hi, (unsigned long)nhi));
    }
  VF_COUNT_N("obs:concurrent_reads_checked", checked);
  VF_COUNT_N("rare:concurrent_reads_overlapping_writes", strictly);
  // final quiescent values
  oa->sum = base_a + (ba.pre_ret_v.empty() ? 0 : ba.pre_ret_v.back());
  os->sum = base_s + bs.pre_ret_v.back();
  os->num = base_n + bs.pre_ret_n.back();
  oa->num = all_a.size();
  check_obj(oa, nullptr, r, "reader episode end");
  check_obj(os, nullptr, r, "reader episode end");
  g_fp = vf::mix(g_fp, checked, strictly, all_a.size() + all_s.size());
  destroy_obj(oa);
  destroy_obj(os);
}

}  // namespace

int main(int argc, char** argv) {
  vf::init(argc, argv, "C19", "c19_counters");
  const vf::Args& a = vf::args();
  uint64_t episodes = vf::budget(40, 1200);
  vf::watchdog().classify = [] { return std::string(); };
  vf::watchdog().start();
  vf::watchdog().arm(true);

  uint64_t wide_at = vf::mix(a.seed, 0xa1de) % episodes;   // at least one of each rare shape per run
  uint64_t many_at = vf::mix(a.seed, 0x3a27) % episodes;
  int samples = 0;
  std::map<std::string, double> mode_seconds;
  for (uint64_t e = 0; e < episodes && !g_stop.load(RLX); ++e) {
    if (a.only_episode >= 0 && uint64_t(a.only_episode) != e) continue;
    Episode ep;
    ep.index = e;
    ep.seed = vf::mix(a.seed, e, 0xc19);
    vf::Rng r(ep.seed);
    uint64_t m = r.below(100);
    if (!a.mode.empty() && a.mode != "all") ep.mode = a.mode;
    else if (e == wide_at || (a.thorough && m < 2)) ep.mode = "wide";
    else if (e == many_at || (a.thorough && m < 4)) ep.mode = "many";
    else if (!g_is_tsan && m < 30) ep.mode = "reader";
    else ep.mode = "churn";
    if (g_is_tsan && ep.mode == "reader") ep.mode = "churn";
    ep.rounds = 2 + int(r.below(5));
    ep.longs = int(r.below(5));
    ep.shorts = 1 + int(r.below(6));
    ep.waves = 1 + int(r.below(2));
    ep.nobjs = 3 + int(r.below(22));
    ep.ops = int(r.pick<int>({20, 100, 300, 800}));
    if (ep.mode == "wide") { ep.rounds = 2; ep.longs = 130 + int(r.below(4)); ep.shorts = 2; ep.waves = 1; ep.nobjs = 10; ep.ops = 10; }
    if (ep.mode == "many") { ep.rounds = 2; ep.ops = 100; }
    if (ep.mode == "reader") ep.ops = int(r.pick<int>({200, 800, 2000}));
    ep.policy = vf::draw_policy(r, kStallPoints, 100, 3000);
    g_ctx = ep.describe();
    vf::watchdog().set_context(g_ctx);
    g_fp = vf::mix(ep.seed, 1);
    uint64_t rare0 = vf::counter_value("rare:thread_id_reused") + vf::counter_value("rare:compact_slot_reused") +
                     vf::counter_value("rare:counter_moved") + vf::counter_value("rare:reset_period") +
                     vf::counter_value("rare:concurrent_reads_overlapping_writes");
    double t_ep = vf::now_s();
    if (ep.mode == "reader") run_reader_episode(ep, r);
    else run_churn_episode(ep, r);
    mode_seconds[ep.mode] += vf::now_s() - t_ep;
    vf::disable_policy();
    uint64_t rare1 = vf::counter_value("rare:thread_id_reused") + vf::counter_value("rare:compact_slot_reused") +
                     vf::counter_value("rare:counter_moved") + vf::counter_value("rare:reset_period") +
                     vf::counter_value("rare:concurrent_reads_overlapping_writes");
    vf::evaluated(g_fp, rare1 > rare0);
    if (ep.mode == "reader") VF_COUNT("obs:episodes_reader");
    else if (ep.mode == "wide") VF_COUNT("obs:episodes_wide");
    else if (ep.mode == "many") VF_COUNT("obs:episodes_many");
    else VF_COUNT("obs:episodes_churn");
    if (samples < 4 && (e % 7 == 0 || ep.mode != "churn")) {
      ++samples;
      vf::sample("{\"episode\": " + vf::jstr(g_ctx) + ", \"fingerprint\": " + std::to_string(g_fp) + "}");
    }
  }
  {
    std::string js = "{";
    for (auto& kv : mode_seconds) js += std::string(js.size() > 1 ? ", " : "") + vf::jstr(kv.first) + ": " + vf::fmt("%.2f", kv.second);
    vf::extra("seconds_per_mode", js + "}");
  }
  vf::watchdog().arm(false);
  vf::watchdog().shutdown();
  return vf::finish();
}
