// C20 — logging monitors (DESIGN §5 C20).
//
// modes (--mode):
//   layout     sequential. LogStreamBuffer -> LogEntry -> append_to_iovec over a recording
//              page allocator. Page size 128: EVERY length 0..(INLINE+2*table+2) pages
//              (exhaustive sub-space); 256/512: every page multiple +-2 up to the same page
//              count; 4096: the inline/table boundaries +-2; plus random lengths. Each length
//              is streamed with random chunking (sputn / sputc / pubsync).
//   appender   concurrent. 1-8 logging threads (direct LogStreamBuffer, AsyncLogStream,
//              Logger macro) -> AsyncFileAppender -> pipes (fast / slow readers) and files,
//              optionally rotating descriptors between batches; close() at a drawn moment.
//              close() is only issued once the slot its stop marker will occupy is free
//              (see closefull).
//   closefull  the configuration of the DESIGN §6 defect, isolated in its own process:
//              the writer thread is parked inside FileObject::check_and_get_file_descriptor,
//              the queue is filled to exactly its capacity (every write() returned), then
//              close() is called and the writer is released. Stuck rule key:
//              stuck:close-full-queue[:lost-wakeup]. With the defect repaired every episode
//              completes and the full appender oracle is applied.
//
// The harness executable interposes writev(2) (monitor only: every iovec handed to the
// kernel must lie in a page that is still allocated; the bytes are read by instrumented
// code so TSan/ASan see the access; schedule perturbation). No short writes are injected.
#include <fcntl.h>
#include <poll.h>
#include <sys/uio.h>

#include <condition_variable>
#include <memory>
#include <unordered_set>

#include "common/vf.h"
#include "common/vf_interpose.h"

#include "babylon/logging/async_file_appender.h"
#include "babylon/logging/async_log_stream.h"
#include "babylon/logging/log_entry.h"
#include "babylon/logging/logger.h"

#if VF_ASAN
#include <sanitizer/asan_interface.h>
#define C20_POISON(p, n) ASAN_POISON_MEMORY_REGION((p), (n))
#define C20_UNPOISON(p, n) ASAN_UNPOISON_MEMORY_REGION((p), (n))
#else
#define C20_POISON(p, n) ((void)0)
#define C20_UNPOISON(p, n) ((void)0)
#endif

namespace {

using ::babylon::AsyncFileAppender;
using ::babylon::AsyncLogStream;
using ::babylon::FileObject;
using ::babylon::LogEntry;
using ::babylon::LogSeverity;
using ::babylon::LogStream;
using ::babylon::LogStreamBuffer;
using ::babylon::Logger;
using ::babylon::LoggerBuilder;
using ::babylon::StringView;

constexpr size_t kInline = LogEntry::INLINE_PAGE_CAPACITY;
inline size_t table_capacity(size_t ps) { return (ps - sizeof(LogEntry::PageTable)) / sizeof(char*); }

////////////////////////////////////////////////////////////////////////////////
// Recording page allocator: a private arena of `nslots` pages separated by red
// zones; one atomic state word per page (0 free / 1 live). Free -> allocate of
// the same page synchronises (release / acquire) exactly like a real allocator
// would; nothing else does, so TSan still sees a logger writing into a page the
// writer thread has not finished with.
struct RecAlloc final : public ::babylon::PageAllocator {
  static constexpr size_t kRed = 64;
  size_t ps = 0, stride = 0, nslots = 0;
  char* arena = nullptr;
  size_t arena_bytes = 0;
  std::unique_ptr<std::atomic<uint32_t>[]> state;
  std::atomic<int64_t> live {0};
  std::atomic<int64_t> high {0};
  std::atomic<uint64_t> allocs {0}, frees {0};
  bool sequential_log = false;   // layout mode only (single thread)
  std::vector<void*> log;

  // One arena for the whole process, carved anew by every episode / layout context (allocating
  // and freeing tens of MB per episode costs seconds of shadow-memory work under TSan). Between
  // users every page is free and (ASan) poisoned; users are separated by thread join/create.
  static constexpr size_t kArenaBytes = size_t(64) << 20;
  static char* global_arena() {
    static char* a = [] {
      char* p = static_cast<char*>(::operator new(kArenaBytes, std::align_val_t(64)));
      C20_POISON(p, kArenaBytes);
      return p;
    }();
    return a;
  }
  void setup(size_t page_size, size_t slots) {
    ps = page_size;
    stride = ps + kRed;
    nslots = slots;
    arena_bytes = kRed + nslots * stride;
    if (arena_bytes > kArenaBytes) {
      vf::inconclusive("harness arena too small for this configuration");
      vf::finish_and_exit_now();
    }
    arena = global_arena();
    state.reset(new std::atomic<uint32_t>[nslots]);
    for (size_t i = 0; i < nslots; ++i) state[i].store(0, std::memory_order_relaxed);
  }
  ~RecAlloc() noexcept override {
    // pages still live (only after a reported leak) go back to the poisoned state
    for (size_t i = 0; arena && i < nslots; ++i)
      if (state[i].load(std::memory_order_relaxed) == 1) C20_POISON(page_at(i), ps);
  }
  char* page_at(size_t slot) const { return arena + kRed + slot * stride; }
  // slot index if `p` is the first byte of a page of this arena, else -1
  long slot_of(const void* p) const {
    auto c = static_cast<const char*>(p);
    if (c < arena + kRed || c >= arena + arena_bytes) return -1;
    size_t off = size_t(c - (arena + kRed));
    if (off % stride != 0) return -1;
    return long(off / stride);
  }
  bool is_live_page(const void* p) const {
    long s = slot_of(p);
    return s >= 0 && state[size_t(s)].load(std::memory_order_relaxed) == 1;
  }

  size_t page_size() const noexcept override { return ps; }
  using PageAllocator::allocate;
  using PageAllocator::deallocate;
  void allocate(void** pages, size_t num) noexcept override {
    vf::perturb("cb:alloc");
    static thread_local size_t cursor = 0;
    for (size_t k = 0; k < num; ++k) {
      long got = -1;
      for (size_t i = 0; i < nslots; ++i) {
        size_t s = (cursor + i) % nslots;
        uint32_t expect = 0;
        if (state[s].load(std::memory_order_relaxed) == 0 &&
            state[s].compare_exchange_strong(expect, 1, std::memory_order_acquire, std::memory_order_relaxed)) {
          got = long(s);
          cursor = s + 1 + (vf::tl_rng().next() & 3);
          break;
        }
      }
      if (got < 0) {
        vf::inconclusive(vf::fmt("harness arena exhausted (%zu slots of %zu bytes)", nslots, ps));
        vf::finish_and_exit_now();
      }
      char* p = page_at(size_t(got));
      C20_UNPOISON(p, ps);
      memset(p, 0xA5, ps);
      pages[k] = p;
      if (sequential_log) log.push_back(p);
    }
    int64_t l = live.fetch_add(int64_t(num), std::memory_order_relaxed) + int64_t(num);
    int64_t h = high.load(std::memory_order_relaxed);
    while (l > h && !high.compare_exchange_weak(h, l, std::memory_order_relaxed)) {}
    allocs.fetch_add(num, std::memory_order_relaxed);
  }
  void deallocate(void** pages, size_t num) noexcept override {
    vf::perturb("cb:dealloc");
    for (size_t k = 0; k < num; ++k) {
      long s = slot_of(pages[k]);
      if (s < 0) {
        vf::violation("pages:foreign-page-returned",
                      "a pointer that is not a page of the appender's allocator was passed to deallocate()",
                      vf::fmt("pointer %p, arena [%p,%p) page size %zu", pages[k], (void*)arena,
                              (void*)(arena + arena_bytes), ps));
        continue;
      }
      if (state[size_t(s)].load(std::memory_order_relaxed) != 1) {
        vf::violation("pages:page-returned-twice", "a page was returned to the allocator while not allocated",
                      vf::fmt("slot %ld page %p (page size %zu)", s, pages[k], ps));
        continue;
      }
      memset(pages[k], 0xDD, ps);
      C20_POISON(pages[k], ps);
      if (state[size_t(s)].exchange(0, std::memory_order_release) != 1) {
        vf::violation("pages:page-returned-twice", "a page was returned to the allocator by two parties at once",
                      vf::fmt("slot %ld page %p", s, pages[k]));
        continue;
      }
      live.fetch_sub(1, std::memory_order_relaxed);
      frees.fetch_add(1, std::memory_order_relaxed);
    }
  }
};

////////////////////////////////////////////////////////////////////////////////
// deterministic entry contents
inline uint64_t wmix(uint64_t k, uint64_t j) {
  uint64_t x = k + j * 0x9e3779b97f4a7c15ULL;
  x ^= x >> 30; x *= 0xbf58476d1ce4e5b9ULL;
  x ^= x >> 27; x *= 0x94d049bb133111ebULL;
  return x ^ (x >> 31);
}
inline void fill_bytes(char* out, size_t n, uint64_t key) {
  size_t i = 0, j = 0;
  for (; i + 8 <= n; i += 8, ++j) { uint64_t w = wmix(key, j); memcpy(out + i, &w, 8); }
  if (i < n) { uint64_t w = wmix(key, j); memcpy(out + i, &w, n - i); }
}

std::string hexdump(const char* p, size_t n) {
  std::string o;
  for (size_t i = 0; i < n; ++i) o += vf::fmt("%02x", (unsigned char)p[i]);
  return o;
}

////////////////////////////////////////////////////////////////////////////////
// streaming a byte string through a LogStreamBuffer with random chunking
// style 0: mixed, 1: one sputn, 2: all sputc, 3: page-sized sputn
bool stream_chunks(LogStreamBuffer& sb, const char* data, size_t len, size_t ps, vf::Rng& r, int style,
                   std::string* trace) {
  size_t pos = 0;
  bool ok = true;
  while (pos < len) {
    size_t left = len - pos, n = 1;
    int kind = style == 1 ? 5 : style == 2 ? 0 : style == 3 ? 6 : int(r.below(8));
    switch (kind) {
      case 0: n = 1; break;
      case 1: n = 1 + r.below(16); break;
      case 2: n = 1 + r.below(ps); break;
      case 3: n = ps - (pos % ps); break;                  // exactly to the page end
      case 4: n = 1 + r.below(3 * ps + 8); break;           // across several pages
      case 5: n = left; break;
      case 6: n = ps; break;
      default: n = ps - (pos % ps) + (r.chance(1, 2) ? 1 : 0); break;  // one byte over the page end
    }
    if (n > left) n = left;
    if (kind == 0) {
      if (sb.sputc(data[pos]) == std::char_traits<char>::eof()) ok = false;
    } else {
      if (size_t(sb.sputn(data + pos, std::streamsize(n))) != n) ok = false;
    }
    if (trace && trace->size() < 200) *trace += vf::fmt("%s%zu", kind == 0 ? "c" : "n", n) + " ";
    pos += n;
    if (style == 0 && r.chance(1, 16)) {
      sb.pubsync();
      if (trace && trace->size() < 200) *trace += "sync ";
    }
  }
  return ok;
}

////////////////////////////////////////////////////////////////////////////////
// mode layout
struct LayoutCtx {
  RecAlloc ra;
  AsyncFileAppender app;   // never initialised: used for discard() only
  LogStreamBuffer sb;
  std::vector<char> data;
  uint64_t cases = 0, with_table = 0, with_two_tables = 0, at_boundary = 0;
  explicit LayoutCtx(size_t ps, size_t max_pages) {
    ra.setup(ps, max_pages + 8);
    ra.sequential_log = true;
    app.set_page_allocator(ra);
    sb.set_page_allocator(ra);
  }
};

void layout_case(LayoutCtx& c, size_t len, uint64_t cseed, int style) {
  const size_t ps = c.ra.ps;
  vf::Rng r(cseed);
  c.data.resize(len);
  fill_bytes(c.data.data(), len, cseed);
  c.ra.log.clear();
  std::string trace;
  c.sb.begin();
  bool ok = stream_chunks(c.sb, c.data.data(), len, ps, r, style, &trace);
  LogEntry e = c.sb.end();   // the appender copies the entry exactly like this
  auto cfg = [&]() {
    return vf::fmt("page_size=%zu length=%zu (= %zu pages %+ld) style=%d case_seed=%lu chunks: %s", ps, len,
                   (len + ps / 2) / ps, long(len) - long((len + ps / 2) / ps * ps), style, (unsigned long)cseed,
                   trace.c_str());
  };
  if (!ok) vf::violation("layout:stream-refused-bytes", "sputn/sputc did not accept all bytes", cfg());
  if (e.size != len)
    vf::violation("layout:size-mismatch", vf::fmt("entry.size=%zu after streaming %zu bytes", e.size, len), cfg());
  // scatter list, appended behind an existing prefix as the writer thread does
  std::vector<struct ::iovec> iov;
  size_t prefix = r.below(3);
  for (size_t i = 0; i < prefix; ++i) iov.push_back(::iovec {reinterpret_cast<void*>(0x10 + i), 7 + i});
  e.append_to_iovec(ps, iov);
  for (size_t i = 0; i < prefix && i < iov.size(); ++i) {
    if (iov[i].iov_base != reinterpret_cast<void*>(0x10 + i) || iov[i].iov_len != 7 + i)
      vf::violation("layout:iovec-prefix-clobbered", "append_to_iovec changed entries already in the vector", cfg());
  }
  std::unordered_set<const void*> listed;
  size_t off = 0, tables = 0;
  bool bytes_ok = true;
  std::string why;
  for (size_t i = prefix; i < iov.size(); ++i) {
    const void* base = iov[i].iov_base;
    size_t n = iov[i].iov_len;
    if (!c.ra.is_live_page(base)) {
      vf::violation("layout:foreign-page-listed",
                    "scatter list names an address that is not an allocated page of this entry",
                    cfg() + vf::fmt("\niov[%zu] base=%p len=%zu", i - prefix, base, n));
      bytes_ok = false;
      why = "foreign page";
      break;
    }
    if (!listed.insert(base).second) {
      vf::violation("layout:page-listed-twice", "a page appears twice in the scatter list",
                    cfg() + vf::fmt("\niov[%zu] base=%p len=%zu", i - prefix, base, n));
    }
    if (n == 0) { ++tables; continue; }
    if (n > ps || off + n > len || memcmp(base, c.data.data() + off, n) != 0) {
      if (bytes_ok) why = vf::fmt("iov[%zu] len=%zu at stream offset %zu", i - prefix, n, off);
      bytes_ok = false;
      if (n > ps) break;
    }
    off += n;
  }
  if (bytes_ok && off != len) { bytes_ok = false; why = vf::fmt("scatter list describes %zu bytes", off); }
  if (!bytes_ok)
    vf::violation("layout:bytes-mismatch", "concatenation of the scatter list differs from the streamed bytes",
                  cfg() + "\n" + why);
  // every page handed out for this entry is listed (exactly once: see above)
  for (void* p : c.ra.log) {
    if (!listed.count(p)) {
      vf::violation("layout:page-not-listed",
                    "a page allocated for the entry is missing from its scatter list (it can never be returned)",
                    cfg() + vf::fmt("\npage %p (allocation #%zu of %zu)", p,
                                    size_t(std::find(c.ra.log.begin(), c.ra.log.end(), p) - c.ra.log.begin()),
                                    c.ra.log.size()));
      break;
    }
  }
  if (listed.size() > c.ra.log.size() && !vf::failed())
    vf::violation("layout:foreign-page-listed", "scatter list has more pages than were allocated", cfg());
  // discard through the real code path: everything must be back
  c.app.discard(e);
  if (c.ra.live.load() != 0) {
    vf::violation("layout:pages-not-returned",
                  vf::fmt("%ld page(s) still allocated after discard()", long(c.ra.live.load())), cfg());
    // re-balance so that one witness does not cascade
    for (size_t s = 0; s < c.ra.nslots; ++s)
      if (c.ra.state[s].load() == 1) { void* p = c.ra.page_at(s); c.ra.deallocate(&p, 1); }
  }
  size_t pages = (len + ps - 1) / ps;
  bool boundary = len % ps <= 2 || ps - len % ps <= 2;
  bool nontrivial = pages > kInline || boundary;
  ++c.cases;
  if (tables >= 1) ++c.with_table;
  if (tables >= 2) ++c.with_two_tables;
  if (boundary) ++c.at_boundary;
  VF_COUNT("obs:layout_cases");
  if (tables >= 1) VF_COUNT("rare:layout_page_table");
  if (tables >= 2) VF_COUNT("rare:layout_chained_page_table");
  if (len == kInline * ps) VF_COUNT("rare:layout_exactly_inline_full");
  if (pages > kInline && (pages - (kInline - 1)) % table_capacity(ps) == 0 && len % ps == 0)
    VF_COUNT("rare:layout_exactly_table_full");
  vf::evaluated(vf::mix(ps, len, cseed, uint64_t(style)), nontrivial);
  if ((len == kInline * ps + 1 && ps == 128) || (tables == 2 && len % ps == 1 && ps == 256 && style == 0))
    vf::sample(vf::fmt("{\"mode\": \"layout\", \"page_size\": %zu, \"length\": %zu, \"iovecs\": %zu, "
                       "\"data_pages\": %zu, \"table_pages\": %zu, \"chunks\": %s}",
                       ps, len, iov.size() - prefix, pages, tables, vf::jstr(trace).c_str()));
  vf::progress();
}

void run_layout(uint64_t seed) {
  const bool thorough = vf::args().thorough;
  uint64_t reps = vf::budget(3, 12);
  uint64_t total = 0, tabled = 0, tabled2 = 0;
  std::string per_ps = "{";
  for (size_t ps : {size_t(128), size_t(256), size_t(512), size_t(4096)}) {
    const size_t tcap = table_capacity(ps);
    const size_t max_pages = kInline + 2 * tcap + 2;
    LayoutCtx c(ps, max_pages + tcap + 4);
    uint64_t n0 = 0;
    if (ps == 128) {
      // exhaustive in the length; chunking sampled (reps mixed + the three pure styles at boundaries)
      for (size_t len = 0; len <= max_pages * ps && !vf::failed(); ++len) {
        for (uint64_t k = 0; k < reps; ++k) layout_case(c, len, vf::mix(seed, ps, len, k), 0);
        bool boundary = len % ps <= 2 || ps - len % ps <= 2;
        if (boundary || thorough)
          for (int style = 1; style <= 3; ++style) layout_case(c, len, vf::mix(seed, ps, len, 100 + uint64_t(style)), style);
      }
    } else {
      std::vector<size_t> ks;
      if (ps <= 512) {
        for (size_t k = 0; k <= max_pages; ++k) ks.push_back(k);
      } else {
        for (size_t k : {size_t(0), size_t(1), size_t(2), kInline - 1, kInline, kInline + 1, kInline + 2,
                         kInline - 1 + tcap - 1, kInline - 1 + tcap, kInline - 1 + tcap + 1, kInline + tcap + 1,
                         kInline - 1 + 2 * tcap - 1, kInline - 1 + 2 * tcap, kInline - 1 + 2 * tcap + 1, max_pages})
          ks.push_back(k);
      }
      for (size_t k : ks) {
        for (long d = -2; d <= 2 && !vf::failed(); ++d) {
          long len = long(k * ps) + d;
          if (len < 0 || size_t(len) > max_pages * ps) continue;
          int nstyles = (ps == 4096 && k > 64) ? 1 : 2;
          for (int s = 0; s < nstyles; ++s) {
            int st = s == 0 ? 0 : (len <= 8192 ? 1 + int(vf::mix(seed, k, uint64_t(d + 2)) % 3) : ((k & 1) ? 1 : 3));
            layout_case(c, size_t(len), vf::mix(seed, ps, uint64_t(len), uint64_t(s)), st);
          }
        }
      }
    }
    n0 = c.cases;
    // random lengths
    vf::Rng r(vf::mix(seed, ps, 0x1a));
    uint64_t nrand = vf::budget(ps == 4096 ? 60 : 1500, ps == 4096 ? 800 : 30000);
    for (uint64_t i = 0; i < nrand && !vf::failed(); ++i) {
      size_t lim = r.chance(1, 4) ? max_pages * ps : (r.chance(1, 2) ? (kInline + 2) * ps : 3 * ps);
      if (ps == 4096 && lim > (kInline + 4) * ps && !r.chance(1, 8)) lim = (kInline + 4) * ps;
      layout_case(c, r.below(lim + 1), vf::mix(seed, ps, i, 0x77), 0);
    }
    total += c.cases; tabled += c.with_table; tabled2 += c.with_two_tables;
    per_ps += vf::fmt("%s\"%zu\": {\"cases\": %lu, \"enumerated\": %lu, \"random\": %lu, \"with_page_table\": %lu, "
                      "\"with_chained_table\": %lu, \"within_2_of_page_multiple\": %lu, \"max_length\": %zu}",
                      ps == 128 ? "" : ", ", ps, (unsigned long)c.cases, (unsigned long)n0,
                      (unsigned long)(c.cases - n0), (unsigned long)c.with_table, (unsigned long)c.with_two_tables,
                      (unsigned long)c.at_boundary, max_pages * ps);
    if (vf::failed()) break;
  }
  per_ps += "}";
  vf::extra("layout_cases", per_ps);
  if (!vf::failed()) {
    size_t maxp = kInline + 2 * table_capacity(128) + 2;
    vf::extra("exhaustive",
              vf::fmt("{\"exhaustive\": true, \"sub_space\": \"entry length, page size 128: every length 0..%zu bytes "
                      "(= INLINE_PAGE_CAPACITY %zu + 2 x table capacity %zu + 2 pages); the chunking of each length is "
                      "sampled, not enumerated\", \"lengths\": %zu}",
                      maxp * 128, kInline, table_capacity(128), maxp * 128 + 1));
  }
  (void)total; (void)tabled; (void)tabled2;
}

////////////////////////////////////////////////////////////////////////////////
// appender modes
constexpr uint32_t kMagic = 0x474c4656;  // "VFLG"
struct Header {
  uint32_t magic;
  uint16_t thread;
  uint16_t flags;   // bit0: entry ends with '\n' appended by AsyncLogStream
  uint32_t seq;
  uint32_t len;     // total entry length on the wire
};
static_assert(sizeof(Header) == 16, "header");

struct EntryPlan {
  uint32_t len;
  uint8_t dest;
  bool discard;
  bool nl;
};

enum Style { DIRECT = 0, STREAM = 1, LOGGER = 2 };
enum FileKind { PIPE_FAST = 0, PIPE_SLOW = 1, PIPE_ROT = 2, FILE_PLAIN = 3, FILE_ROT = 4 };
const char* kFileKindNames[] = {"pipe-fast", "pipe-slow", "pipe-rotating", "file", "file-rotating"};
const char* kStyleNames[] = {"direct", "AsyncLogStream", "Logger"};

constexpr int kMaxFd = 4096;
std::atomic<int> g_fd_dest[kMaxFd];   // destination index of a registered appender fd, -1 none

struct Ep;
std::atomic<Ep*> g_ep {nullptr};

struct HFile final : public FileObject {
  Ep* ep = nullptr;
  int id = 0;
  FileKind kind = PIPE_FAST;
  uint64_t rotate_every = 0;     // rotate on every k-th call (0 = never)
  int pipe_size = 65536;
  size_t read_chunk = 65536;
  uint32_t read_sleep_us = 0;
  uint32_t sleep_every = 1;
  // gate (closefull mode): the writer thread parks inside check_and_get_file_descriptor
  std::atomic<bool> gate_closed {false};
  std::atomic<bool> in_gate {false};

  std::mutex mu;
  std::condition_variable cv;
  std::vector<int> read_fds;      // pipes: read ends in generation order
  std::vector<std::string> paths; // files: paths in generation order
  bool no_more = false;
  int cur_fd = -1;
  uint64_t calls = 0, generations = 0;
  std::string received;           // concatenation over generations
  std::atomic<uint64_t> received_bytes {0};
  std::thread reader;

  bool is_pipe() const { return kind <= PIPE_ROT; }
  int open_generation();
  ::std::tuple<int, int> check_and_get_file_descriptor() noexcept override;
  void reader_loop(uint64_t seed);
};

struct Ep {
  uint64_t seed = 0, idx = 0;
  bool closefull = false;
  int T = 1;
  size_t ps = 128, cap = 1, cap_eff = 1, maxlen = 0;
  int close_policy = 0, pin = 0, gate_variant = 0;
  std::vector<int> style;
  std::vector<std::vector<EntryPlan>> plan;
  std::vector<std::unique_ptr<HFile>> files;
  RecAlloc ra;
  std::unique_ptr<AsyncFileAppender> app;
  std::string policy_desc;
  uint64_t expected_bytes = 0;
  std::atomic<uint64_t> received_total {0};
  std::atomic<int> loggers_done {0};
  std::atomic<bool> close_called {false}, close_returned {false}, full_at_close {false};
  std::atomic<uint64_t> writev_calls {0}, writev_bytes {0}, writev_iovs {0};
  std::atomic<uint64_t> sink {0};
  std::atomic<uint64_t> full_at_write {0};

  std::string describe() const {
    std::string o = vf::fmt("mode=%s seed=%lu episode=%lu threads=%d page_size=%zu queue_capacity=%zu(->%zu) "
                            "max_entry=%zu close_policy=%d pin=%d gate=%d policy[%s] styles=",
                            closefull ? "closefull" : "appender", (unsigned long)seed, (unsigned long)idx, T, ps,
                            cap, cap_eff, maxlen, close_policy, pin, gate_variant, policy_desc.c_str());
    for (int t = 0; t < T; ++t) o += vf::fmt("%s%s:%zu", t ? "," : "", kStyleNames[style[size_t(t)]], plan[size_t(t)].size());
    o += " files=";
    for (auto& f : files) o += vf::fmt("%s%s(rot=%lu,pipe=%d,chunk=%zu,sleep=%uus)", f->id ? "," : "", kFileKindNames[f->kind],
                                       (unsigned long)f->rotate_every, f->pipe_size, f->read_chunk, f->read_sleep_us);
    return o;
  }
};

int HFile::open_generation() {
  int wfd = -1;
  if (is_pipe()) {
    int fds[2];
    if (::pipe(fds) != 0) { vf::inconclusive("pipe() failed"); vf::finish_and_exit_now(); }
    ::fcntl(fds[1], F_SETPIPE_SZ, pipe_size);
    wfd = fds[1];
    {
      std::lock_guard<std::mutex> g(mu);
      read_fds.push_back(fds[0]);
    }
    cv.notify_all();
  } else {
    std::string p = vf::fmt("c20-%d-%lu-%d-%lu.log", int(getpid()), (unsigned long)ep->idx, id, (unsigned long)generations);
    wfd = ::open(p.c_str(), O_WRONLY | O_CREAT | O_TRUNC | O_APPEND, 0644);
    if (wfd < 0) { vf::inconclusive("open() failed"); vf::finish_and_exit_now(); }
    std::lock_guard<std::mutex> g(mu);
    paths.push_back(p);
  }
  ++generations;
  if (wfd < kMaxFd) g_fd_dest[wfd].store(id, std::memory_order_relaxed);
  return wfd;
}

::std::tuple<int, int> HFile::check_and_get_file_descriptor() noexcept {
  vf::perturb("cb:check_fd");
  while (gate_closed.load(std::memory_order_relaxed)) {
    in_gate.store(true, std::memory_order_relaxed);
    vf::raw_sleep_us(100);
  }
  in_gate.store(false, std::memory_order_relaxed);
  ++calls;
  if (cur_fd < 0) {
    cur_fd = open_generation();
    return ::std::tuple<int, int> {cur_fd, -1};
  }
  if (rotate_every != 0 && calls % rotate_every == 0) {
    int old = cur_fd;
    if (old < kMaxFd) g_fd_dest[old].store(-1, std::memory_order_relaxed);
    cur_fd = open_generation();
    VF_COUNT("rare:rotation");
    return ::std::tuple<int, int> {cur_fd, old};   // the appender closes `old`
  }
  return ::std::tuple<int, int> {cur_fd, -1};
}

void HFile::reader_loop(uint64_t seed) {
  vf::Rng r(seed);
  std::vector<char> buf(read_chunk);
  size_t gen = 0;
  uint64_t nreads = 0;
  while (true) {
    int fd = -1;
    {
      std::unique_lock<std::mutex> g(mu);
      cv.wait(g, [&] { return gen < read_fds.size() || no_more; });
      if (gen < read_fds.size()) fd = read_fds[gen];
      else break;
    }
    ++gen;
    while (true) {
      size_t want = read_sleep_us ? 1 + r.below(read_chunk) : read_chunk;
      ssize_t n = ::read(fd, buf.data(), want);
      if (n < 0) { if (errno == EINTR) continue; break; }
      if (n == 0) break;   // write end closed (rotation by the appender, or the harness after close())
      received.append(buf.data(), size_t(n));
      received_bytes.fetch_add(uint64_t(n), std::memory_order_relaxed);
      ep->received_total.fetch_add(uint64_t(n), std::memory_order_relaxed);
      vf::progress();
      if (read_sleep_us && ++nreads % sleep_every == 0) vf::raw_sleep_us(1 + r.below(read_sleep_us));
    }
    ::close(fd);
  }
}

}  // namespace

// ---------------------------------------------------------------------------- writev monitor
// (external linkage: replaces libc's / the sanitizer runtime's writev for this executable)
extern "C" ssize_t writev(int fd, const struct iovec* iov, int cnt) {
  Ep* ep = g_ep.load(std::memory_order_acquire);
  if (ep != nullptr && fd >= 0 && fd < kMaxFd && g_fd_dest[fd].load(std::memory_order_relaxed) >= 0) {
    vf::perturb("cb:writev");
    if (ep->close_returned.load(std::memory_order_relaxed))
      vf::violation("appender:write-after-close", "writev on an appender descriptor after close() returned",
                    ep->describe());
    uint64_t bytes = 0, acc = 0;
    for (int i = 0; i < cnt; ++i) {
      const char* base = static_cast<const char*>(iov[i].iov_base);
      size_t n = iov[i].iov_len;
      if (!ep->ra.is_live_page(base) || n > ep->ra.ps) {
        vf::violation("appender:writev-page-not-allocated",
                      "the writer thread passed memory to writev that is not (or no longer) an allocated page: "
                      "pages were returned before they were written, or the scatter list is corrupt",
                      ep->describe() + vf::fmt("\niov[%d/%d] base=%p len=%zu slot=%ld", i, cnt, (void*)base, n,
                                               ep->ra.slot_of(base)));
        break;
      }
      // read what the kernel is about to read, from instrumented code
      for (size_t k = 0; k + 8 <= n; k += 8) { uint64_t w; memcpy(&w, base + k, 8); acc += w; }
      for (size_t k = n & ~size_t(7); k < n; ++k) acc += (unsigned char)base[k];
      bytes += n;
    }
    ep->sink.fetch_add(acc, std::memory_order_relaxed);
    ep->writev_calls.fetch_add(1, std::memory_order_relaxed);
    ep->writev_iovs.fetch_add(uint64_t(cnt), std::memory_order_relaxed);
    ep->writev_bytes.fetch_add(bytes, std::memory_order_relaxed);
    VF_COUNT("obs:writev_calls");
    if (cnt >= IOV_MAX) VF_COUNT("rare:writev_iov_max_split");
    long ret = vf::raw_syscall6(SYS_writev, fd, long(iov), cnt, 0, 0, 0);
    if (ret >= 0 && uint64_t(ret) != bytes) {
      VF_COUNT("rare:kernel_short_write");
      vf::note(vf::fmt("kernel returned a short writev (%ld of %lu bytes); the appender ignores the return value",
                       ret, (unsigned long)bytes));
    }
    vf::progress();
    if (ret < 0 && ret > -4096) { errno = int(-ret); return -1; }
    return ret;
  }
  long ret = vf::raw_syscall6(SYS_writev, fd, long(iov), cnt, 0, 0, 0);
  if (ret < 0 && ret > -4096) { errno = int(-ret); return -1; }
  return ret;
}

namespace {

// ---------------------------------------------------------------------------- plan
uint32_t draw_len(vf::Rng& r, size_t ps, size_t maxlen, size_t minlen) {
  const size_t tcap = table_capacity(ps);
  long len;
  long d = long(r.below(5)) - 2;
  switch (r.below(16)) {
    case 0: case 1: case 2: case 3: case 4: case 5: case 6: case 7: len = long(minlen + r.below(200)); break;
    case 8: case 9: case 10: len = long((1 + r.below(3)) * ps) + d; break;
    case 11: case 12: len = long((kInline - 1 + r.below(3)) * ps) + d; break;
    case 13: len = long((kInline - 1 + tcap * (1 + r.below(2))) * ps) + d; break;
    case 14: len = long(r.below(maxlen + 1)); break;
    default: len = long(minlen); break;
  }
  if (len > long(maxlen)) len = long(maxlen) - long(r.below(3));
  if (len < long(minlen)) len = long(minlen);
  return uint32_t(len);
}

void expected_entry(std::string& out, const Ep& ep, int t, uint32_t seq) {
  const EntryPlan& p = ep.plan[size_t(t)][seq];
  out.resize(p.len);
  Header h {kMagic, uint16_t(t), uint16_t(p.nl ? 1 : 0), seq, p.len};
  memcpy(&out[0], &h, sizeof h);
  size_t body_end = p.nl ? p.len - 1 : p.len;
  fill_bytes(&out[sizeof h], body_end - sizeof h, vf::mix(ep.seed, ep.idx, uint64_t(t) << 32 | seq, 0xE17));
  if (p.nl) out[p.len - 1] = '\n';
}

// ---------------------------------------------------------------------------- logging threads
struct ThreadCtx {
  // STREAM: one AsyncLogStream per destination, created through the public creator
  std::vector<std::unique_ptr<LogStream>> streams;
};

void log_thread(Ep& ep, int t, std::vector<Logger*>& loggers, uint32_t from, uint32_t to) {
  vf::Rng r(vf::mix(ep.seed, ep.idx, uint64_t(t), 0x109));
  AsyncFileAppender& app = *ep.app;
  const int style = ep.style[size_t(t)];
  ThreadCtx ctx;
  LogStreamBuffer sb;
  if (style == STREAM) {
    for (auto& f : ep.files) {
      auto creator = AsyncLogStream::creator(app, *f, [](AsyncLogStream&) {});
      ctx.streams.push_back(creator());
    }
  }
  std::string buf;
  for (uint32_t seq = from; seq < to && !vf::failed(); ++seq) {
    const EntryPlan& p = ep.plan[size_t(t)][seq];
    expected_entry(buf, ep, t, seq);
    const char* data = buf.data();
    size_t n = p.nl ? p.len - 1 : p.len;
    if (app.pending_size() >= ep.cap_eff) {
      VF_COUNT("rare:queue_full_at_write");
      ep.full_at_write.fetch_add(1, std::memory_order_relaxed);
    }
    vf::set_op("write", seq);
    if (style == DIRECT) {
      sb.set_page_allocator(app.page_allocator());
      sb.begin();
      stream_chunks(sb, data, n, ep.ps, r, r.chance(1, 4) ? 1 : 0, nullptr);
      LogEntry& e = sb.end();
      if (p.discard) {
        app.discard(e);
        VF_COUNT("obs:entries_discarded");
      } else {
        app.write(e, ep.files[p.dest].get());
      }
    } else if (style == STREAM) {
      LogStream& s = *ctx.streams[p.dest];
      s.begin();
      size_t pos = 0;
      bool split = r.chance(1, 6);
      size_t split_at = split ? r.below(n + 1) : n + 1;
      while (pos < n) {
        size_t c = r.chance(1, 3) ? n - pos : 1 + r.below(std::min<size_t>(n - pos, 2 * ep.ps));
        if (pos < split_at && pos + c > split_at) c = split_at - pos;
        if (pos == split_at) {
          // suspend the line (documented noflush protocol) and resume it
          s.noflush();
          s.end();
          s.begin();
          split_at = n + 1;
          VF_COUNT("rare:noflush_resume");
          continue;
        }
        switch (r.below(3)) {
          case 0: s.write(data + pos, c); break;
          case 1: s << StringView(data + pos, c); break;
          default: s << data[pos]; c = 1; break;
        }
        pos += c;
      }
      s.end();   // appends '\n' and hands the entry to the appender
    } else {
      Logger& lg = *loggers[p.dest];
      if (r.chance(1, 2)) {
        if (r.chance(1, 2)) BABYLON_LOG_STREAM(lg, INFO).write(data, n);
        else BABYLON_LOG_STREAM(lg, WARNING) << StringView(data, n);
      } else {
        size_t a = r.below(n + 1);
        BABYLON_LOG_STREAM(lg, INFO).write(data, a) << ::babylon::noflush;
        BABYLON_LOG_STREAM(lg, INFO).write(data + a, n - a);
        VF_COUNT("rare:noflush_resume");
      }
    }
    vf::set_op("idle", seq);
    VF_COUNT("obs:entries_written");
    if ((p.len + ep.ps - 1) / ep.ps > kInline) VF_COUNT("rare:entry_with_page_table");
    vf::progress();
  }
}

// ---------------------------------------------------------------------------- oracle
struct Verdict {
  uint64_t entries_seen = 0;
  uint64_t order_fp = 0;
};

void check_streams(Ep& ep, Verdict& v) {
  std::vector<std::vector<uint8_t>> seen(size_t(ep.T));
  for (int t = 0; t < ep.T; ++t) seen[size_t(t)].assign(ep.plan[size_t(t)].size(), 0);
  std::string exp;
  for (auto& f : ep.files) {
    const std::string& s = f->received;
    std::vector<long> last(size_t(ep.T), -1);
    size_t p = 0;
    std::string prev = "(start of stream)";
    while (p < s.size()) {
      auto where = [&]() {
        return ep.describe() + vf::fmt("\ndestination %d (%s) offset %zu of %zu, previous entry %s\nbytes at offset: %s",
                                       f->id, kFileKindNames[f->kind], p, s.size(), prev.c_str(),
                                       hexdump(s.data() + p, std::min<size_t>(48, s.size() - p)).c_str());
      };
      if (s.size() - p < sizeof(Header)) {
        vf::violation("appender:entry-truncated", "destination stream ends inside an entry header", where());
        return;
      }
      Header h;
      memcpy(&h, s.data() + p, sizeof h);
      if (h.magic != kMagic || h.thread >= ep.T || h.seq >= ep.plan[h.thread].size()) {
        vf::violation("appender:stream-garbled",
                      "bytes that are not the start of any entry follow a complete entry (entries mixed, pages "
                      "written out of order, or foreign bytes)", where());
        return;
      }
      const EntryPlan& pl = ep.plan[h.thread][h.seq];
      if (h.len != pl.len || pl.dest != f->id || pl.discard) {
        vf::violation(pl.discard ? "appender:discarded-entry-written" : "appender:entry-in-wrong-stream",
                      "an entry header that was never written to this destination in this form", where());
        return;
      }
      if (s.size() - p < pl.len) {
        vf::violation("appender:entry-truncated", "destination stream ends inside an entry", where());
        return;
      }
      expected_entry(exp, ep, h.thread, h.seq);
      if (memcmp(exp.data(), s.data() + p, pl.len) != 0) {
        size_t d = 0;
        while (d < pl.len && exp[d] == s[p + d]) ++d;
        vf::violation("appender:entry-not-intact",
                      vf::fmt("entry (thread %u, seq %u, %u bytes) differs from what was streamed at byte %zu "
                              "(page %zu, offset in page %zu)", h.thread, h.seq, pl.len, d, d / ep.ps, d % ep.ps),
                      where() + vf::fmt("\nexpected %s\nreceived %s", hexdump(exp.data() + d, std::min<size_t>(32, pl.len - d)).c_str(),
                                        hexdump(s.data() + p + d, std::min<size_t>(32, pl.len - d)).c_str()));
        return;
      }
      if (++seen[h.thread][h.seq] > 1) {
        vf::violation("appender:entry-duplicated", vf::fmt("entry (thread %u, seq %u) received twice", h.thread, h.seq), where());
        return;
      }
      if (long(h.seq) < last[h.thread]) {
        vf::violation("appender:thread-order-violated",
                      vf::fmt("thread %u: entry seq %u received after seq %ld in the same destination", h.thread, h.seq,
                              last[h.thread]), where());
        return;
      }
      last[h.thread] = long(h.seq);
      if (v.entries_seen < 64) v.order_fp = vf::mix(v.order_fp, h.thread, uint64_t(f->id));
      ++v.entries_seen;
      prev = vf::fmt("(thread %u, seq %u, len %u)", h.thread, h.seq, pl.len);
      p += pl.len;
    }
  }
  uint64_t lost = 0;
  std::string first;
  for (int t = 0; t < ep.T; ++t)
    for (size_t q = 0; q < seen[size_t(t)].size(); ++q)
      if (!ep.plan[size_t(t)][q].discard && seen[size_t(t)][q] == 0) {
        if (++lost <= 8) first += vf::fmt(" (t%d,seq %zu,len %u,dest %u)", t, q, ep.plan[size_t(t)][q].len, ep.plan[size_t(t)][q].dest);
      }
  if (lost)
    vf::violation("appender:entry-lost",
                  vf::fmt("%lu entr%s written before close() never reached the destination", (unsigned long)lost, lost == 1 ? "y" : "ies"),
                  ep.describe() + "\nmissing:" + first);
}

// ---------------------------------------------------------------------------- one episode
void run_episode(uint64_t seed, uint64_t idx, bool closefull) {
  vf::Rng r(vf::mix(seed, idx, closefull ? 0xC1 : 0xA9));
  const double t_begin = vf::now_s();
  Ep ep;
  ep.seed = seed; ep.idx = idx; ep.closefull = closefull;
  const bool thorough = vf::args().thorough;
  ep.ps = r.pick<size_t>({128, 128, 256, 512, 4096});
  if (closefull) {
    ep.T = int(r.range(1, 4));
    ep.cap = r.pick<size_t>({1, 1, 2, 3, 4, 8, 16, 64});
  } else {
    ep.T = int(r.range(1, 8));
    ep.cap = r.pick<size_t>({1, 2, 3, 4, 5, 8, 16, 64, 100, 1024, 1024});
  }
  ep.cap_eff = 1;
  while (ep.cap_eff < ep.cap) ep.cap_eff <<= 1;
  const size_t tcap = table_capacity(ep.ps);
  // entry size limit: keep (in-flight entries) x (pages per entry) inside the arena budget
  size_t want_pages = r.pick<size_t>({3, kInline + 2, kInline + 2, kInline + tcap + 2, kInline + 2 * tcap + 2});
  size_t inflight = 2 * ep.cap_eff + size_t(ep.T) + 2;
  const size_t arena_budget = size_t(48) << 20;
  while (want_pages > 2 && inflight * (want_pages + 3 + want_pages / tcap) * (ep.ps + RecAlloc::kRed) > arena_budget)
    want_pages = want_pages * 2 / 3;
  uint64_t byte_budget = thorough ? (4u << 20) : (768u << 10);
  while (want_pages > 2 && want_pages * ep.ps > byte_budget / 3) want_pages = want_pages * 2 / 3;
  ep.maxlen = want_pages * ep.ps;
  size_t per_entry_pages = want_pages + 3 + want_pages / tcap;
  ep.ra.setup(ep.ps, inflight * per_entry_pages + 16);
  // destinations
  int nfiles = closefull ? 1 : int(r.range(1, 3));
  for (int d = 0; d < nfiles; ++d) {
    auto f = std::make_unique<HFile>();
    f->ep = &ep;
    f->id = d;
    f->kind = FileKind(r.below(5));
    if (f->kind == PIPE_ROT || f->kind == FILE_ROT) f->rotate_every = r.pick<uint64_t>({1, 2, 3, 7, 20});
    f->pipe_size = r.pick<int>({4096, 4096, 16384, 65536});
    ep.files.push_back(std::move(f));
  }
  // styles and plan
  uint64_t bytes = 0;
  ep.style.resize(size_t(ep.T));
  ep.plan.resize(size_t(ep.T));
  uint32_t per_thread = closefull ? 0 : uint32_t(r.pick<uint32_t>({5, 30, 100, 300, 1000}));
  if (closefull) {
    // thread 0 writes the primer; then the threads together write exactly cap_eff entries
    for (int t = 0; t < ep.T; ++t) ep.style[size_t(t)] = int(r.below(3));
    size_t left = ep.cap_eff;
    for (int t = 0; t < ep.T; ++t) {
      size_t mine = t == ep.T - 1 ? left : r.below(left + 1);
      left -= mine;
      size_t n = mine + (t == 0 ? 1 : 0);
      for (size_t q = 0; q < n; ++q) {
        bool nl = ep.style[size_t(t)] != DIRECT;
        EntryPlan p {draw_len(r, ep.ps, ep.maxlen, sizeof(Header) + (nl ? 1 : 0)), 0, false, nl};
        ep.plan[size_t(t)].push_back(p);
        bytes += p.len;
      }
    }
  } else {
    std::vector<uint32_t> target(size_t(ep.T), 0);
    for (int t = 0; t < ep.T; ++t) {
      ep.style[size_t(t)] = int(r.below(3));
      target[size_t(t)] = 1 + uint32_t(r.below(per_thread));
    }
    // round-robin so that the byte budget is shared by all threads
    // a write() against a full queue polls every 1 ms: bound the entries by the queue capacity
    const uint64_t entry_budget = std::min<uint64_t>(3000, 40 * ep.cap_eff + 150) * (thorough ? 3 : 1);
    uint64_t entries = 0;
    for (bool any = true; any && bytes < byte_budget && entries < entry_budget;) {
      any = false;
      for (int t = 0; t < ep.T && bytes < byte_budget && entries < entry_budget; ++t) {
        ++entries;
        if (ep.plan[size_t(t)].size() >= target[size_t(t)]) continue;
        any = true;
        bool nl = ep.style[size_t(t)] != DIRECT;
        EntryPlan p {draw_len(r, ep.ps, ep.maxlen, sizeof(Header) + (nl ? 1 : 0)), uint8_t(r.below(uint64_t(nfiles))),
                     !nl && r.chance(1, 12), nl};
        ep.plan[size_t(t)].push_back(p);
        bytes += p.len;
        if (!p.discard) ep.expected_bytes += p.len;
      }
    }
  }
  if (closefull) ep.expected_bytes = bytes;
  // reader speed: a slow reader sleeps after some reads; keep its total sleeping near 0.1-0.2 s
  for (auto& f : ep.files) {
    if (f->kind == PIPE_SLOW || (f->kind == PIPE_ROT && r.chance(1, 2))) {
      f->read_chunk = r.pick<size_t>({64, 512, 4096});
      uint64_t reads = bytes / (f->read_chunk / 2 + 1) + 1;
      f->sleep_every = uint32_t(reads / 800 + 1);
      uint64_t s = 150000 / std::min<uint64_t>(reads, 800);
      f->read_sleep_us = uint32_t(std::min<uint64_t>(std::max<uint64_t>(s, 1), 3000));
    }
  }
  ep.close_policy = int(r.below(4));
  ep.pin = r.chance(1, 4) ? int(r.range(1, 3)) : 0;
  ep.gate_variant = int(r.below(4));   // closefull: 0,1,2 release after the closer sleeps; 3 release concurrently
  ep.policy_desc = vf::draw_policy(r, {"bq:push_ticket", "cb:check_fd", "cb:writev", "cb:alloc", "cb:dealloc",
                                       "futex:before_wait"}, 60, 20000);
  auto& wd = vf::watchdog();
  wd.set_context(ep.describe());
  for (auto& f : ep.files) {
    if (f->is_pipe()) f->reader = std::thread([&ep, fp = f.get()] {
      vf::thread_begin(ep.seed, 100 + fp->id);
      fp->reader_loop(vf::mix(ep.seed, ep.idx, uint64_t(fp->id), 0x4ead));
      vf::thread_end();
    });
  }
  if (ep.pin) vf::pin_cpus(ep.pin);

  // Logger objects (one builder + logger per destination); they must outlive the threads' use
  std::vector<std::unique_ptr<LoggerBuilder>> builders;
  std::vector<std::unique_ptr<Logger>> logger_store;
  std::vector<Logger*> loggers;
  ep.app.reset(new AsyncFileAppender);
  ep.app->set_page_allocator(ep.ra);
  ep.app->set_queue_capacity(ep.cap);
  if (ep.app->_queue.capacity() != ep.cap_eff) { vf::inconclusive("unexpected queue capacity"); }
  for (auto& f : ep.files) {
    builders.emplace_back(new LoggerBuilder);
    builders.back()->set_log_stream_creator(AsyncLogStream::creator(*ep.app, *f, [](AsyncLogStream&) {}));
    logger_store.emplace_back(new Logger(builders.back()->build()));
    loggers.push_back(logger_store.back().get());
  }
  // (again, after the queue was built: the mutex hand-off orders the construction of the slot
  // words before the watchdog's thread dump, which reads the word a sleeper waits on)
  wd.set_context(ep.describe());
  g_ep.store(&ep, std::memory_order_release);
  wd.arm(true);
  ep.app->initialize();

  if (!closefull) {
    vf::run_threads(ep.T, vf::mix(seed, idx), [&](int t) {
      log_thread(ep, t, loggers, 0, uint32_t(ep.plan[size_t(t)].size()));
      ep.loggers_done.fetch_add(1, std::memory_order_relaxed);
    });
  } else {
    HFile& f = *ep.files[0];
    f.gate_closed.store(true, std::memory_order_relaxed);
    // primer: makes the writer thread create the destination and park in the gate
    {
      vf::thread_begin(vf::mix(seed, idx), 50);
      log_thread(ep, 0, loggers, 0, 1);
      vf::thread_end();
    }
    while (!f.in_gate.load(std::memory_order_relaxed)) { vf::raw_sleep_us(50); vf::progress(); }
    while (ep.app->pending_size() != 0) { vf::raw_sleep_us(50); vf::progress(); }   // cannot happen: primer was popped
    vf::run_threads(ep.T, vf::mix(seed, idx), [&](int t) {
      log_thread(ep, t, loggers, t == 0 ? 1 : 0, uint32_t(ep.plan[size_t(t)].size()));
      ep.loggers_done.fetch_add(1, std::memory_order_relaxed);
    });
  }

  // ---- close()
  AsyncFileAppender& app = *ep.app;
  auto& q = app._queue;
  if (!closefull) {
    switch (ep.close_policy) {
      case 0: break;                                                  // at once
      case 1: while (app.pending_size() != 0) vf::raw_sleep_us(50); break;   // drained
      case 2: vf::raw_sleep_us(r.below(3000)); break;
      default: vf::raw_sleep_us(r.below(40000)); break;
    }
    // DESIGN §6 / known finding: on the unchanged tree close() sleeps forever if the slot of its
    // stop marker is still occupied (futex wait against a popper that never wakes). That
    // configuration is exercised by mode `closefull` in its own process; here close() is issued
    // as early as the slot is free so that the remaining close()/drain interleavings are observed.
    if (vf::args().get("closeguard", 1)) {
      size_t index = q._next_push_index.load(std::memory_order_relaxed);
      bool waited = false;
      while (q._slots.futex(index & q._slot_mask).version(std::memory_order_relaxed) != q.push_version_for_index(index)) {
        waited = true;
        vf::raw_sleep_us(20);
      }
      if (waited) VF_COUNT("rare:close_waited_for_free_slot");
    }
    size_t pend = app.pending_size();
    if (pend > 0) VF_COUNT("rare:close_with_pending_entries");
    if (pend + 1 >= ep.cap_eff && ep.cap_eff > 1) VF_COUNT("rare:close_with_nearly_full_queue");
    ep.close_called.store(true, std::memory_order_relaxed);
    vf::set_op("close", pend);
    int rc = app.close();
    ep.close_returned.store(true, std::memory_order_relaxed);
    vf::set_op("closed");
    if (rc != 0) vf::violation("appender:close-failed", "close() returned non-zero", ep.describe());
  } else {
    HFile& f = *ep.files[0];
    size_t pend = app.pending_size();
    if (pend != ep.cap_eff) {
      vf::inconclusive(vf::fmt("closefull: queue holds %zu of %zu entries after the fill phase", pend, ep.cap_eff));
    }
    ep.full_at_close.store(pend == ep.cap_eff, std::memory_order_relaxed);
    VF_COUNT("rare:close_with_full_queue");
    std::atomic<int> closer_tid {0};
    std::thread closer([&] {
      vf::thread_begin(vf::mix(seed, idx), 60);
      closer_tid.store(int(::syscall(SYS_gettid)), std::memory_order_relaxed);
      ep.close_called.store(true, std::memory_order_relaxed);
      vf::set_op("close(queue full)", pend);
      int rc = app.close();
      ep.close_returned.store(true, std::memory_order_relaxed);
      vf::set_op("closed");
      if (rc != 0) vf::violation("appender:close-failed", "close() returned non-zero", ep.describe());
      vf::thread_end();
    });
    if (ep.gate_variant != 3) {
      // release the writer only once the closer is really blocked: asleep in futex_wait
      // (unchanged tree) or polling the slot (spin push); 3 ms without the ticket moving on
      // is enough for either, the stuck rule does the rest
      while (!ep.close_called.load(std::memory_order_relaxed)) vf::raw_sleep_us(20);
      double t0 = vf::now_s();
      while (vf::now_s() - t0 < 0.5) {
        bool asleep = false;
        auto* all = vf::thread_states();
        for (int i = 0; i < vf::kMaxThreads; ++i)
          if (all[i].logical.load(std::memory_order_relaxed) == 60 && all[i].futex_addr.load(std::memory_order_relaxed)) asleep = true;
        if (asleep) { VF_COUNT("rare:closer_asleep_in_futex_before_release"); break; }
        if (q._next_push_index.load(std::memory_order_relaxed) > ep.cap_eff + 1 && vf::now_s() - t0 > 0.003) break;
        vf::raw_sleep_us(50);
      }
      if (ep.gate_variant == 2) vf::raw_sleep_us(r.below(5000));
    } else {
      vf::raw_sleep_us(r.below(300));
    }
    f.gate_closed.store(false, std::memory_order_relaxed);
    closer.join();
  }
  // ---- after close(): nothing may be written any more; collect what was received
  for (auto& f : ep.files) {
    if (f->cur_fd >= 0) {
      if (f->cur_fd < kMaxFd) g_fd_dest[f->cur_fd].store(-1, std::memory_order_relaxed);
      ::close(f->cur_fd);
      f->cur_fd = -1;
    }
    if (f->is_pipe()) {
      { std::lock_guard<std::mutex> g(f->mu); f->no_more = true; }
      f->cv.notify_all();
      f->reader.join();
    } else {
      for (auto& p : f->paths) {
        int fd = ::open(p.c_str(), O_RDONLY);
        char buf[65536];
        ssize_t n;
        while (fd >= 0 && (n = ::read(fd, buf, sizeof buf)) > 0) f->received.append(buf, size_t(n));
        if (fd >= 0) ::close(fd);
        ::unlink(p.c_str());
      }
      ep.received_total.fetch_add(f->received.size(), std::memory_order_relaxed);
    }
  }
  wd.arm(false);
  if (ep.pin) vf::pin_cpus(0);
  int64_t live_after_close = ep.ra.live.load();
  Verdict v;
  if (!vf::failed()) check_streams(ep, v);
  if (live_after_close != 0)
    vf::violation("appender:pages-not-returned-after-close",
                  vf::fmt("%ld page(s) still allocated after close() returned (allocated %lu, returned %lu)",
                          long(live_after_close), (unsigned long)ep.ra.allocs.load(), (unsigned long)ep.ra.frees.load()),
                  ep.describe());
  g_ep.store(nullptr, std::memory_order_release);
  vf::disable_policy();
  // destroy library objects (streams of the Logger live inside the builders)
  logger_store.clear();
  builders.clear();
  ep.app.reset();
  if (ep.ra.live.load() != 0 && live_after_close == 0)
    vf::violation("appender:pages-allocated-during-destruction", "page balance changed while destroying the appender", ep.describe());

  uint64_t rot = 0;
  for (auto& f : ep.files) rot += f->generations > 1 ? 1 : 0;
  bool nontrivial = ep.full_at_write.load() > 0 || rot > 0 || ep.maxlen > kInline * ep.ps || closefull;
  uint64_t fp = vf::mix(vf::mix(uint64_t(ep.T), ep.ps, ep.cap_eff, uint64_t(nfiles)), v.order_fp, uint64_t(ep.close_policy) << 8 | uint64_t(closefull), idx);
  vf::evaluated(fp, nontrivial);
  VF_COUNT_N("obs:entries_received", v.entries_seen);
  VF_COUNT_N("obs:bytes_received", ep.received_total.load());
  vf::sample(vf::fmt("{\"mode\": \"%s\", \"config\": %s, \"entries_received\": %lu, \"bytes_received\": %lu, "
                     "\"writev_calls\": %lu, \"writev_iovecs\": %lu, \"pages_allocated\": %lu, \"pages_high_water\": %ld}",
                     closefull ? "closefull" : "appender", vf::jstr(ep.describe()).c_str(), (unsigned long)v.entries_seen,
                     (unsigned long)ep.received_total.load(), (unsigned long)ep.writev_calls.load(),
                     (unsigned long)ep.writev_iovs.load(), (unsigned long)ep.ra.allocs.load(), long(ep.ra.high.load())), 3);
  vf::progress();
  if (vf::args().get("verbose", 0) && vf::now_s() - t_begin > 0.001 * double(vf::args().get("verbose", 0)))
    fprintf(stderr, "[c20] %.3fs %s\n", vf::now_s() - t_begin, ep.describe().c_str());
}

}  // namespace

int main(int argc, char** argv) {
  vf::init(argc, argv, "C20", "c20_logging");
  // Initialise, single-threaded, every function-local static the syscall interposer reaches:
  // a *contended* first initialisation makes libstdc++'s __cxa_guard_acquire call
  // syscall(SYS_futex), i.e. our interposer, which re-enters the same guard -> unbounded
  // recursion (seen once: asan, seed 2, "stack-buffer-underflow in syscall/vf::my_state").
  (void)vf::thread_states(); (void)vf::my_state(); (void)vf::point_table(); (void)vf::registry();
  (void)vf::policy(); (void)vf::progress_counter(); (void)vf::tl_rng(); (void)vf::report();
  vf::perturb("futex:before_wait"); vf::perturb("futex:before_wake");
  for (auto& x : g_fd_dest) x.store(-1, std::memory_order_relaxed);
  auto& a = vf::args();
  std::string mode = a.mode.empty() ? "appender" : a.mode;
  auto& wd = vf::watchdog();
  // every change of a bounded-queue slot word owes its futex sleepers a wake
  wd.changed_word_is_lost_wakeup = true;
  wd.classify = []() -> std::string {
    Ep* ep = g_ep.load(std::memory_order_acquire);
    if (!ep) return "";
    if (ep->close_called.load() && !ep->close_returned.load()) {
      // every logging thread returned from every write() before close() was called (by construction)
      bool all_data_out = ep->received_total.load() >= ep->expected_bytes || ep->writev_bytes.load() >= ep->expected_bytes;
      if (ep->closefull && ep->full_at_close.load() && all_data_out) return "stuck:close-full-queue";
      return "stuck:close";
    }
    if (ep->loggers_done.load() < ep->T) {
      // readers keep reading, so a write() that never returns means the writer thread stopped
      // consuming. Only claimed when a logging thread is really inside write(): threads that were
      // not scheduled at all (pinned episode on an overloaded machine) make the run inconclusive.
      auto* all = vf::thread_states();
      for (int i = 0; i < vf::kMaxThreads; ++i) {
        int lg = all[i].logical.load(std::memory_order_relaxed);
        const char* op = all[i].op.load(std::memory_order_relaxed);
        if (all[i].tid.load(std::memory_order_relaxed) != 0 && lg >= 0 && lg < ep->T && op && strcmp(op, "write") == 0)
          return "stuck:write";
      }
    }
    return "";
  };
  wd.dump_extra = []() -> std::string {
    Ep* ep = g_ep.load(std::memory_order_acquire);
    if (!ep || !ep->app) return "";
    auto& q = ep->app->_queue;
    std::string o = vf::fmt("appender queue: next_push_index=%zu next_pop_index=%zu capacity=%zu; bytes expected %lu, "
                            "handed to writev %lu, received by readers %lu; pages live %ld\nslot words:",
                            q._next_push_index.load(), q._next_pop_index.load(), q.capacity(),
                            (unsigned long)ep->expected_bytes, (unsigned long)ep->writev_bytes.load(),
                            (unsigned long)ep->received_total.load(), long(ep->ra.live.load()));
    for (size_t i = 0; i < q.capacity() && i < 16; ++i) o += vf::fmt(" [%zu]=0x%x", i, q._slots.futex(i)._futex.value().load());
    return o + "\n";
  };
  wd.start();
  auto want = [&](uint64_t idx) { return a.only_episode < 0 || uint64_t(a.only_episode) == idx; };
  if (mode == "layout") {
    run_layout(a.seed);
  } else if (mode == "closefull") {
    uint64_t n = vf::budget(40, 1500);
    for (uint64_t e = 0; e < n && !vf::failed(); ++e) if (want(e)) run_episode(a.seed, e, true);
  } else {
    uint64_t n = vf::budget(120, 1500);
    for (uint64_t e = 0; e < n && !vf::failed(); ++e) if (want(e)) run_episode(a.seed, e, false);
  }
  wd.shutdown();
  return vf::finish();
}
